//! Fact extraction: MIR bodies (mir-opt-level 0, drops elaborated), ADTs, impls, consts.
use crate::json::{Obj, J};
use rustc_data_structures::fx::FxHashMap;
use rustc_hir::def::DefKind;
use rustc_hir::def_id::{DefId, LocalDefId};
use rustc_middle::mir::{
    self, AggregateKind, BasicBlock, Body, Operand, Place, ProjectionElem, Rvalue, StatementKind,
    TerminatorKind, UnwindAction,
};
use rustc_middle::ty::print::with_no_trimmed_paths;
use rustc_middle::ty::{self, GenericArgKind, GenericArgsRef, Instance, Ty, TyCtxt, TypeSuperVisitable, TypeVisitable, TypeVisitableExt, TypeVisitor, TypingEnv};
use rustc_span::Span;

pub struct Cx<'tcx> {
    tcx: TyCtxt<'tcx>,
    types: Vec<J>,
    type_strs: Vec<String>,
    type_map: FxHashMap<Ty<'tcx>, usize>,
    cur_body: Option<&'tcx Body<'tcx>>,
}

pub fn extract<'tcx>(tcx: TyCtxt<'tcx>) -> J {
    let mut cx = Cx { tcx, types: Vec::new(), type_strs: Vec::new(), type_map: FxHashMap::default(), cur_body: None };
    let mut bodies = Vec::new();
    for ldid in tcx.hir_body_owners() {
        let did = ldid.to_def_id();
        match tcx.def_kind(did) {
            DefKind::Fn | DefKind::AssocFn | DefKind::Closure => {}
            _ => continue,
        }
        bodies.push(cx.body(ldid));
    }
    // initialisers of free / associated constants (MIR for const evaluation): lets the analysis re-evaluate a constant
    // for other pointer widths than the host's
    let mut const_bodies = Vec::new();
    for ldid in tcx.hir_body_owners() {
        let did = ldid.to_def_id();
        if matches!(tcx.def_kind(did), DefKind::Const { .. } | DefKind::AssocConst { .. }) {
            // (generic ones too - `const PREFIX_SIZE: usize = size_of::<HeaderSlice<H, [T; 0]>>()` in a generic impl: evaluated by
            // the layout evaluator per shape)
            const_bodies.push(cx.body(ldid));
        }
    }
    let mut adts = Vec::new();
    let mut impls = Vec::new();
    let mut consts = Vec::new();
    let mut traits = Vec::new();
    let mut private_traits = Vec::new();
    for ldid in tcx.hir_crate_items(()).definitions() {
        let did = ldid.to_def_id();
        match tcx.def_kind(did) {
            DefKind::Struct | DefKind::Enum | DefKind::Union => adts.push(cx.adt(ldid)),
            DefKind::Impl { .. } => impls.push(cx.impl_(ldid)),
            DefKind::Const { .. } => {
                if let Some(c) = cx.const_(ldid) {
                    consts.push(c)
                }
            }
            DefKind::Trait => {
                traits.push(J::s(cx.stable_path(did)));
                if !tcx.effective_visibilities(()).is_reachable(ldid) {
                    private_traits.push(J::s(cx.stable_path(did)));
                }
            }
            _ => {}
        }
    }
    let ptr_bits = tcx.data_layout.pointer_size().bits() as usize;
    let sess = tcx.sess;
    let mut cfgs: Vec<String> = Vec::new();
    for (name, val) in sess.config.iter() {
        match val {
            Some(v) => cfgs.push(format!("{}={}", name, v)),
            None => cfgs.push(name.to_string()),
        }
    }
    cfgs.sort();
    J::obj()
        .put("schema", 3usize)
        .put("crate", tcx.crate_name(rustc_hir::def_id::LOCAL_CRATE).to_string())
        .put("pointer_bits", ptr_bits)
        .put("debug_assertions", sess.opts.debug_assertions)
        .put("cfg", J::Arr(cfgs.into_iter().map(J::s).collect()))
        .put("bodies", J::Arr(bodies))
        .put("const_bodies", J::Arr(const_bodies))
        .put("adts", J::Arr(adts))
        .put("impls", J::Arr(impls))
        .put("consts", J::Arr(consts))
        .put("traits", J::Arr(traits))
        .put("private_traits", J::Arr(private_traits))
        .put("types", J::Arr(std::mem::take(&mut cx.types)))
        .done()
}

impl<'tcx> Cx<'tcx> {
    // ---------------------------------------------------------------- paths
    /// A position-free path: impls are rendered through their self type / trait ref.
    pub fn stable_path(&mut self, did: DefId) -> String {
        let tcx = self.tcx;
        let kind = tcx.def_kind(did);
        if did.is_crate_root() {
            return if did.is_local() { "crate".to_string() } else { tcx.crate_name(did.krate).to_string() };
        }
        let parent = tcx.parent(did);
        match kind {
            DefKind::Impl { .. } => {
                let self_ty = tcx.type_of(did).instantiate_identity().skip_norm_wip();
                let s = self.ty_str(self_ty);
                match tcx.impl_opt_trait_ref(did) {
                    Some(tr) => {
                        let tr = tr.instantiate_identity().skip_norm_wip();
                        let tp = self.stable_path(tr.def_id);
                        let extra = self.args_str(tr.args, 1);
                        format!("<{} as {}{}>", s, tp, extra)
                    }
                    None => format!("<{}>", s),
                }
            }
            DefKind::Closure => {
                let p = self.stable_path(parent);
                let n = tcx.def_key(did).disambiguated_data.disambiguator;
                format!("{}::{{closure#{}}}", p, n)
            }
            _ => {
                let name = match tcx.opt_item_name(did) {
                    Some(s) => s.to_string(),
                    None => format!("{:?}", tcx.def_key(did).disambiguated_data.data),
                };
                if parent.is_crate_root() && did.is_local() {
                    name
                } else {
                    let p = self.stable_path(parent);
                    format!("{}::{}", p, name)
                }
            }
        }
    }

    fn args_str(&mut self, args: GenericArgsRef<'tcx>, skip: usize) -> String {
        let mut parts = Vec::new();
        for a in args.iter().skip(skip) {
            match a.kind() {
                GenericArgKind::Type(t) => parts.push(self.ty_str(t)),
                GenericArgKind::Lifetime(r) => parts.push(region_str(r)),
                GenericArgKind::Const(c) => parts.push(format!("{}", c)),
            }
        }
        if parts.is_empty() {
            String::new()
        } else {
            format!("<{}>", parts.join(", "))
        }
    }

    fn gargs(&mut self, args: GenericArgsRef<'tcx>) -> J {
        self.gargs_it(args.iter())
    }

    fn gargs_it(&mut self, args: impl Iterator<Item = ty::GenericArg<'tcx>>) -> J {
        let mut v = Vec::new();
        for a in args {
            match a.kind() {
                GenericArgKind::Type(t) => v.push(J::obj().put("t", self.ty(t)).done()),
                GenericArgKind::Lifetime(r) => v.push(J::obj().put("r", region_str(r)).done()),
                GenericArgKind::Const(c) => v.push(J::obj().put("c", format!("{}", c)).done()),
            }
        }
        J::Arr(v)
    }

    // ---------------------------------------------------------------- types
    pub fn ty_str(&mut self, t: Ty<'tcx>) -> String {
        let i = self.ty(t);
        self.type_strs[i].clone()
    }

    pub fn ty(&mut self, t: Ty<'tcx>) -> usize {
        if let Some(&i) = self.type_map.get(&t) {
            return i;
        }
        let tcx = self.tcx;
        let (s, node): (String, Obj) = match t.kind() {
            ty::Bool | ty::Char | ty::Int(_) | ty::Uint(_) | ty::Float(_) | ty::Str => {
                let s = format!("{}", t);
                (s, J::obj().put("k", if matches!(t.kind(), ty::Str) { "str" } else { "prim" }))
            }
            ty::Never => ("!".to_string(), J::obj().put("k", "never")),
            ty::Adt(def, args) => {
                let p = self.stable_path(def.did());
                let a = self.args_str(args, 0);
                let ga = self.gargs(args);
                (
                    format!("{}{}", p, a),
                    J::obj().put("k", "adt").put("path", p).put("local", def.did().is_local()).put("args", ga),
                )
            }
            ty::Ref(r, inner, m) => {
                let i = self.ty(*inner);
                let rs = region_str(*r);
                let s = format!("&{}{}{}", if rs == "'_" { String::new() } else { format!("{} ", rs) }, if m.is_mut() { "mut " } else { "" }, self.type_strs[i]);
                (s, J::obj().put("k", "ref").put("mut", m.is_mut()).put("t", i).put("r", rs))
            }
            ty::RawPtr(inner, m) => {
                let i = self.ty(*inner);
                let s = format!("*{} {}", if m.is_mut() { "mut" } else { "const" }, self.type_strs[i]);
                (s, J::obj().put("k", "ptr").put("mut", m.is_mut()).put("t", i))
            }
            ty::Slice(inner) => {
                let i = self.ty(*inner);
                (format!("[{}]", self.type_strs[i]), J::obj().put("k", "slice").put("t", i))
            }
            ty::Array(inner, len) => {
                let i = self.ty(*inner);
                let l = format!("{}", len);
                (format!("[{}; {}]", self.type_strs[i], l), J::obj().put("k", "array").put("t", i).put("len", l))
            }
            ty::Tuple(ts) => {
                let idx: Vec<usize> = ts.iter().map(|x| self.ty(x)).collect();
                let s = format!(
                    "({}{})",
                    idx.iter().map(|i| self.type_strs[*i].clone()).collect::<Vec<_>>().join(", "),
                    if idx.len() == 1 { "," } else { "" }
                );
                (s, J::obj().put("k", "tuple").put("ts", J::Arr(idx.into_iter().map(J::from).collect())))
            }
            ty::Param(p) => (p.name.to_string(), J::obj().put("k", "param").put("name", p.name.to_string())),
            ty::Closure(did, args) => {
                let p = self.stable_path(*did);
                // parent args only (the closure's own synthetic args are noise)
                let ga = self.gargs_it(args.as_closure().parent_args().iter().copied());
                let ups: Vec<J> = args.as_closure().upvar_tys().iter().map(|u| J::from(self.ty(u))).collect();
                (format!("{{closure {}}}", p), J::obj().put("k", "closure").put("def", p).put("args", ga).put("upvars", J::Arr(ups)))
            }
            ty::FnDef(did, args) => {
                let p = self.stable_path(*did);
                let a = self.args_str(args, 0);
                let ga = self.gargs(args);
                (format!("fn {{{}{}}}", p, a), J::obj().put("k", "fndef").put("def", p).put("args", ga))
            }
            ty::FnPtr(..) => (with_no_trimmed_paths!(format!("{}", t)), J::obj().put("k", "fnptr")),
            ty::Dynamic(..) => (with_no_trimmed_paths!(format!("{}", t)), J::obj().put("k", "dyn")),
            ty::Alias(..) => {
                let s = with_no_trimmed_paths!(format!("{}", t));
                let mut mentions = Vec::new();
                for a in t.walk() {
                    if let GenericArgKind::Type(x) = a.kind() {
                        if x != t {
                            if let ty::Param(_) = x.kind() {
                                mentions.push(J::from(self.ty(x)));
                            }
                        }
                    }
                }
                (s, J::obj().put("k", "alias").put("params", J::Arr(mentions)))
            }
            _ => (with_no_trimmed_paths!(format!("{}", t)), J::obj().put("k", "other")),
        };
        let idx = self.types.len();
        self.types.push(node.put("s", s.clone()).done());
        self.type_strs.push(s);
        self.type_map.insert(t, idx);
        idx
    }

    // ---------------------------------------------------------------- spans
    fn span(&self, sp: Span) -> J {
        let sm = self.tcx.sess.source_map();
        let cs = sp.source_callsite();
        let lo = sm.lookup_char_pos(cs.lo());
        let mut o = J::obj().put("file", format!("{}", lo.file.name.prefer_local_unconditionally())).put("line", lo.line);
        if sp.from_expansion() {
            let mut names = Vec::new();
            for e in sp.macro_backtrace() {
                names.push(J::s(format!("{}", e.kind.descr())));
            }
            o = o.put("exp", true).put("macros", J::Arr(names));
        }
        o.done()
    }

    // ---------------------------------------------------------------- bodies
    fn body(&mut self, ldid: LocalDefId) -> J {
        let tcx = self.tcx;
        let did = ldid.to_def_id();
        let kind = tcx.def_kind(did);
        let key = self.stable_path(did);
        let body: &'tcx Body<'tcx> = if matches!(kind, DefKind::Const { .. } | DefKind::AssocConst { .. }) { tcx.mir_for_ctfe(did) } else { tcx.optimized_mir(did) };
        self.cur_body = Some(body);
        let tenv = TypingEnv::post_analysis(tcx, did);
        let mut o = J::obj().put("key", key);
        o.set("kind", format!("{:?}", kind));
        o.set("span", self.span(tcx.def_span(did)));
        let sm = tcx.sess.source_map();
        o.set("line_hi", sm.lookup_char_pos(body.span.hi()).line);
        // closures: the function item they belong to
        let mut owner = did;
        while tcx.def_kind(owner) == DefKind::Closure {
            owner = tcx.parent(owner);
        }
        o.set("owner", self.stable_path(owner));
        if matches!(kind, DefKind::Fn | DefKind::AssocFn) {
            let vis = tcx.visibility(did);
            o.set("pub", vis.is_public());
            o.set("vis", format!("{:?}", vis));
            o.set("reachable", tcx.effective_visibilities(()).is_reachable(ldid));
            let sig = tcx.fn_sig(did).instantiate_identity().skip_norm_wip();
            o.set("unsafe", sig.safety().is_unsafe());
            o.set("sig", with_no_trimmed_paths!(format!("{}", sig)));
            let sig = sig.skip_binder();
            let ins: Vec<J> = sig.inputs().iter().map(|t| J::from(self.ty(*t))).collect();
            o.set("inputs", J::Arr(ins));
            o.set("output", self.ty(sig.output()));
            // lifetimes: which regions occur in the output (outside associated-type projections) and which in the inputs
            {
                let lsig = tcx.liberate_late_bound_regions(did, tcx.fn_sig(did).instantiate_identity().skip_norm_wip());
                let mut rv_out = RegionNames { out: Vec::new(), skip_alias: true };
                lsig.output().visit_with(&mut rv_out);
                let mut rv_in = RegionNames { out: Vec::new(), skip_alias: false };
                for t in lsig.inputs().iter() {
                    t.visit_with(&mut rv_in);
                }
                o.set("out_regions", J::Arr(rv_out.out.into_iter().map(J::from).collect()));
                // regions in "view positions" of the output: `&'r X` with X generic or local, and lifetime arguments of local ADTs
                let mut rv_view = ViewRegions { out: Vec::new() };
                lsig.output().visit_with(&mut rv_view);
                o.set("out_view_regions", J::Arr(rv_view.out.into_iter().map(J::from).collect()));
                o.set("in_regions", J::Arr(rv_in.out.into_iter().map(J::from).collect()));
                // the region of each input that is itself a reference (`&'s self`), and of the output if it is one
                let mut irr = Vec::new();
                for t in lsig.inputs().iter() {
                    if let ty::Ref(r, _, _) = t.kind() {
                        irr.push(J::from(region_name(*r)));
                    } else {
                        irr.push(J::Null);
                    }
                }
                o.set("in_ref_regions", J::Arr(irr));
                if let ty::Ref(r, _, _) = lsig.output().kind() {
                    o.set("out_ref_region", J::from(region_name(*r)));
                }
                let mut ol = Vec::new();
                // predicates_of(..).instantiate_identity includes the enclosing impl's predicates
                for (p, _sp) in tcx.predicates_of(did).instantiate_identity(tcx).into_iter() {
                    let p = p.skip_norm_wip();
                    if let Some(c) = p.as_region_outlives_clause() {
                        let c = c.skip_binder();
                        ol.push(J::Arr(vec![J::from(region_name(c.0)), J::from(region_name(c.1))]));
                    }
                }
                o.set("region_outlives", J::Arr(ol));
            }
            o.set("deprecated", tcx.lookup_deprecation(did).is_some());
            let cattrs = tcx.codegen_fn_attrs(did);
            o.set("track_caller", cattrs.flags.contains(rustc_middle::middle::codegen_fn_attrs::CodegenFnAttrFlags::TRACK_CALLER));
            o.set("name", tcx.item_name(did).to_string());
        }
        // enclosing impl
        let parent = tcx.parent(owner);
        if let DefKind::Impl { of_trait } = tcx.def_kind(parent) {
            let self_ty = tcx.type_of(parent).instantiate_identity().skip_norm_wip();
            let mut io = J::obj().put("path", self.stable_path(parent)).put("self_ty", self.ty(self_ty)).put("of_trait", of_trait);
            if let Some(tr) = tcx.impl_opt_trait_ref(parent) {
                let tr = tr.instantiate_identity().skip_norm_wip();
                io = io.put("trait", self.stable_path(tr.def_id)).put("trait_args", self.gargs(tr.args));
            }
            o.set("impl", io);
        }
        // generics + predicates
        let mut gens = Vec::new();
        let mut g = Some(tcx.generics_of(owner));
        let mut chain = Vec::new();
        while let Some(gg) = g {
            chain.push(gg);
            g = gg.parent.map(|p| tcx.generics_of(p));
        }
        for gg in chain.iter().rev() {
            for p in &gg.own_params {
                gens.push(J::obj().put("name", p.name.to_string()).put("kind", match p.kind {
                    ty::GenericParamDefKind::Lifetime => "lifetime",
                    ty::GenericParamDefKind::Type { .. } => "type",
                    ty::GenericParamDefKind::Const { .. } => "const",
                }).put("may_dangle", p.pure_wrt_drop).done());
            }
        }
        o.set("generics", J::Arr(gens));
        o.set("preds", self.preds(owner));

        o.set("arg_count", body.arg_count);
        let mut names: FxHashMap<usize, String> = FxHashMap::default();
        for v in &body.var_debug_info {
            if let mir::VarDebugInfoContents::Place(p) = &v.value {
                if p.projection.is_empty() {
                    names.entry(p.local.as_usize()).or_insert_with(|| v.name.to_string());
                }
            }
        }
        let mut locals = Vec::new();
        for (l, decl) in body.local_decls.iter_enumerated() {
            let mut lo = J::obj().put("ty", self.ty(decl.ty));
            lo.set("needs_drop", decl.ty.needs_drop(tcx, tenv));
            if let Some(n) = names.get(&l.as_usize()) {
                lo.set("name", n.clone());
            }
            locals.push(lo.done());
        }
        o.set("locals", J::Arr(locals));

        let mut blocks = Vec::new();
        for (_bb, data) in body.basic_blocks.iter_enumerated() {
            let mut stmts = Vec::new();
            for st in &data.statements {
                if let Some(mut s) = self.stmt(&st.kind, tenv) {
                    s.set("span", self.span(st.source_info.span));
                    stmts.push(s.done());
                }
            }
            let term = data.terminator();
            let mut t = self.term(&term.kind, tenv, body);
            t.set("span", self.span(term.source_info.span));
            blocks.push(J::obj().put("stmts", J::Arr(stmts)).put("term", t).put("cleanup", data.is_cleanup).done());
        }
        o.set("blocks", J::Arr(blocks));
        o.done()
    }

    fn preds(&mut self, did: DefId) -> J {
        let tcx = self.tcx;
        let preds = tcx.predicates_of(did).instantiate_identity(tcx);
        let mut v = Vec::new();
        for (p, _sp) in preds.into_iter() {
            let p = p.skip_norm_wip();
            let mut po = J::obj().put("s", with_no_trimmed_paths!(format!("{}", p)));
            if let Some(tp) = p.as_trait_clause() {
                let tp = tp.skip_binder();
                po = po
                    .put("kind", "trait")
                    .put("trait", self.stable_path(tp.trait_ref.def_id))
                    .put("self", self.ty(tp.trait_ref.self_ty()))
                    .put("args", self.gargs(tp.trait_ref.args));
            } else if p.as_type_outlives_clause().is_some() {
                po = po.put("kind", "type_outlives");
            } else if p.as_region_outlives_clause().is_some() {
                po = po.put("kind", "region_outlives");
            } else if p.as_projection_clause().is_some() {
                po = po.put("kind", "projection");
            } else {
                po = po.put("kind", "other");
            }
            v.push(po.done());
        }
        J::Arr(v)
    }

    fn place(&mut self, p: &Place<'tcx>, body_locals: Option<&'tcx Body<'tcx>>) -> J {
        let tcx = self.tcx;
        let mut proj = Vec::new();
        // track the type while walking so field projections know their owning ADT
        let mut cur: Option<mir::PlaceTy<'tcx>> = body_locals.map(|b| mir::PlaceTy::from_ty(b.local_decls[p.local].ty));
        for elem in p.projection.iter() {
            let j = match elem {
                ProjectionElem::Deref => J::s("deref"),
                ProjectionElem::Field(f, fty) => {
                    let mut fo = J::obj().put("f", f.as_usize()).put("ty", self.ty(fty));
                    if let Some(pt) = cur {
                        if let ty::Adt(def, _) = pt.ty.kind() {
                            let vi = pt.variant_index.unwrap_or(rustc_abi::FIRST_VARIANT);
                            let var = def.variant(vi);
                            if f.as_usize() < var.fields.len() {
                                fo = fo.put("name", var.fields[f].name.to_string());
                            }
                            fo = fo.put("adt", self.stable_path(def.did()));
                            if def.is_enum() {
                                fo = fo.put("variant", var.name.to_string());
                            }
                        } else if let ty::Tuple(_) = pt.ty.kind() {
                            fo = fo.put("adt", "(tuple)");
                        } else if let ty::Closure(..) = pt.ty.kind() {
                            fo = fo.put("adt", "(closure)");
                        }
                    }
                    fo.done()
                }
                ProjectionElem::Downcast(name, vi) => J::obj()
                    .put("dc", vi.as_usize())
                    .put("name", name.map(|s| s.to_string()))
                    .done(),
                ProjectionElem::Index(l) => J::obj().put("index", l.as_usize()).done(),
                ProjectionElem::ConstantIndex { offset, from_end, .. } => J::obj().put("cidx", offset as usize).put("from_end", from_end).done(),
                ProjectionElem::Subslice { .. } => J::s("subslice"),
                ProjectionElem::OpaqueCast(_) => J::s("opaque"),
                ProjectionElem::UnwrapUnsafeBinder(_) => J::s("unwrap_binder"),
            };
            proj.push(j);
            if let Some(pt) = cur {
                cur = Some(pt.projection_ty(tcx, elem));
            }
        }
        let mut o = J::obj().put("l", p.local.as_usize()).put("p", J::Arr(proj));
        if let Some(pt) = cur {
            o = o.put("ty", self.ty(pt.ty));
        }
        o.done()
    }

    fn operand(&mut self, op: &Operand<'tcx>, tenv: TypingEnv<'tcx>) -> J {
        let body = self.cur_body;
        match op {
            Operand::Copy(p) => J::obj().put("cp", self.place(p, body)).done(),
            Operand::Move(p) => J::obj().put("mv", self.place(p, body)).done(),
            Operand::Constant(c) => J::obj().put("c", self.constant(&c.const_, tenv)).done(),
            #[allow(unreachable_patterns)]
            _ => J::obj().put("other", format!("{:?}", op)).done(),
        }
    }

    fn constant(&mut self, c: &mir::Const<'tcx>, tenv: TypingEnv<'tcx>) -> J {
        let tcx = self.tcx;
        let t = c.ty();
        let mut o = J::obj().put("ty", self.ty(t));
        o.set("text", with_no_trimmed_paths!(format!("{}", c)));
        if let ty::FnDef(did, args) = t.kind() {
            o.set("fn", self.stable_path(*did));
            o.set("fn_args", self.gargs(args));
        }
        // a constant that cannot be evaluated here because it depends on type parameters (`Self::PREFIX_SIZE`): which item it is
        if let mir::Const::Unevaluated(uv, _) = c {
            if uv.promoted.is_none() {
                o.set("unevaluated", self.stable_path(uv.def));
            }
        }
        let scalar_ok = matches!(t.kind(), ty::Bool | ty::Char | ty::Int(_) | ty::Uint(_)) || matches!(t.kind(), ty::Adt(d, _) if d.is_enum());
        if scalar_ok {
            if let Some(si) = c.try_eval_scalar_int(tcx, tenv) {
                let size = si.size();
                let v: i128 = match t.kind() {
                    ty::Int(_) => si.to_int(size),
                    _ => si.to_uint(size) as i128,
                };
                o.set("int", v);
                if let ty::Adt(d, _) = t.kind() {
                    if d.is_enum() {
                        for (vi, discr) in d.discriminants(tcx) {
                            if discr.val == si.to_uint(size) {
                                o.set("variant", d.variant(vi).name.to_string());
                            }
                        }
                    }
                }
            }
        }
        o.done()
    }

    fn stmt(&mut self, k: &StatementKind<'tcx>, tenv: TypingEnv<'tcx>) -> Option<Obj> {
        match k {
            StatementKind::Assign(b) => {
                let (place, rv) = &**b;
                Some(J::obj().put("k", "assign").put("lhs", self.place(place, self.cur_body)).put("rv", self.rvalue(rv, tenv)))
            }
            StatementKind::SetDiscriminant { place, variant_index } => {
                Some(J::obj().put("k", "setdiscr").put("lhs", self.place(place, self.cur_body)).put("variant", variant_index.as_usize()))
            }
            StatementKind::Intrinsic(i) => Some(J::obj().put("k", "intrinsic").put("text", format!("{:?}", i))),
            _ => None,
        }
    }

    fn rvalue(&mut self, rv: &Rvalue<'tcx>, tenv: TypingEnv<'tcx>) -> J {
        let b = self.cur_body;
        match rv {
            Rvalue::Use(op, _) => J::obj().put("k", "use").put("op", self.operand(op, tenv)).done(),
            Rvalue::Ref(_, bk, p) => J::obj()
                .put("k", "ref")
                .put("mut", matches!(bk, mir::BorrowKind::Mut { .. }))
                .put("bk", format!("{:?}", bk))
                .put("place", self.place(p, b))
                .done(),
            Rvalue::RawPtr(kind, p) => J::obj()
                .put("k", "rawptr")
                .put("mut", matches!(kind, mir::RawPtrKind::Mut))
                .put("place", self.place(p, b))
                .done(),
            Rvalue::Cast(ck, op, t) => J::obj()
                .put("k", "cast")
                .put("cast", format!("{:?}", ck))
                .put("op", self.operand(op, tenv))
                .put("ty", self.ty(*t))
                .done(),
            Rvalue::BinaryOp(op, ab) => {
                let (x, y) = &**ab;
                J::obj()
                    .put("k", "binop")
                    .put("op", format!("{:?}", op))
                    .put("a", self.operand(x, tenv))
                    .put("b", self.operand(y, tenv))
                    .done()
            }
            Rvalue::UnaryOp(op, x) => J::obj().put("k", "unop").put("op", format!("{:?}", op)).put("a", self.operand(x, tenv)).done(),
            Rvalue::Discriminant(p) => J::obj().put("k", "discr").put("place", self.place(p, b)).done(),
            Rvalue::CopyForDeref(p) => J::obj().put("k", "use").put("op", J::obj().put("cp", self.place(p, b)).done()).put("cfd", true).done(),
            Rvalue::Aggregate(kind, ops) => {
                let opsj: Vec<J> = ops.iter().map(|o| self.operand(o, tenv)).collect();
                let mut o = J::obj().put("k", "agg");
                match &**kind {
                    AggregateKind::Adt(did, vi, args, _, active) => {
                        let def = self.tcx.adt_def(*did);
                        let var = def.variant(*vi);
                        o = o
                            .put("agg", "adt")
                            .put("adt", self.stable_path(*did))
                            .put("variant", var.name.to_string())
                            .put("vi", vi.as_usize())
                            .put("args", self.gargs(args))
                            .put("fields", J::Arr(var.fields.iter().map(|f| J::s(f.name.to_string())).collect()))
                            .put("active", active.map(|f| f.as_usize()));
                    }
                    AggregateKind::Tuple => o = o.put("agg", "tuple"),
                    AggregateKind::Array(_) => o = o.put("agg", "array"),
                    AggregateKind::Closure(did, args) => {
                        o = o.put("agg", "closure").put("def", self.stable_path(*did)).put("args", self.gargs_it(args.as_closure().parent_args().iter().copied()));
                    }
                    AggregateKind::RawPtr(t, m) => o = o.put("agg", "rawptr").put("ty", self.ty(*t)).put("mut", m.is_mut()),
                    other => o = o.put("agg", format!("{:?}", other)),
                }
                o.put("ops", J::Arr(opsj)).done()
            }
            Rvalue::Repeat(op, n) => J::obj().put("k", "repeat").put("op", self.operand(op, tenv)).put("n", format!("{}", n)).done(),
            other => J::obj().put("k", "other").put("text", format!("{:?}", other)).done(),
        }
    }

    fn unwind(&self, u: &UnwindAction) -> J {
        match u {
            UnwindAction::Continue => J::s("continue"),
            UnwindAction::Unreachable => J::s("unreachable"),
            UnwindAction::Terminate(_) => J::s("terminate"),
            UnwindAction::Cleanup(bb) => J::from(bb.as_usize()),
        }
    }

    fn term(&mut self, k: &TerminatorKind<'tcx>, tenv: TypingEnv<'tcx>, body: &'tcx Body<'tcx>) -> Obj {
        let tcx = self.tcx;
        let b = Some(body);
        let bbj = |x: &BasicBlock| J::from(x.as_usize());
        match k {
            TerminatorKind::Goto { target } => J::obj().put("k", "goto").put("target", bbj(target)),
            TerminatorKind::SwitchInt { discr, targets } => {
                let mut arms = Vec::new();
                for (v, t) in targets.iter() {
                    arms.push(J::Arr(vec![J::from(v), bbj(&t)]));
                }
                J::obj()
                    .put("k", "switch")
                    .put("discr", self.operand(discr, tenv))
                    .put("discr_ty", self.ty(discr.ty(&body.local_decls, tcx)))
                    .put("arms", J::Arr(arms))
                    .put("otherwise", bbj(&targets.otherwise()))
            }
            TerminatorKind::UnwindResume => J::obj().put("k", "resume"),
            TerminatorKind::UnwindTerminate(_) => J::obj().put("k", "terminate"),
            TerminatorKind::Return => J::obj().put("k", "return"),
            TerminatorKind::Unreachable => J::obj().put("k", "unreachable"),
            TerminatorKind::Drop { place, target, unwind, .. } => {
                let pt = place.ty(&body.local_decls, tcx).ty;
                J::obj()
                    .put("k", "drop")
                    .put("place", self.place(place, b))
                    .put("ty", self.ty(pt))
                    .put("target", bbj(target))
                    .put("unwind", self.unwind(unwind))
            }
            TerminatorKind::Call { func, args, destination, target, unwind, fn_span, .. } => {
                let mut o = J::obj().put("k", "call");
                o.set("func", self.operand(func, tenv));
                let argsj: Vec<J> = args.iter().map(|a| self.operand(&a.node, tenv)).collect();
                o.set("args", J::Arr(argsj));
                let argtys: Vec<J> = args.iter().map(|a| J::from(self.ty(a.node.ty(&body.local_decls, tcx)))).collect();
                o.set("arg_tys", J::Arr(argtys));
                o.set("dest", self.place(destination, b));
                o.set("target", target.map(|t| t.as_usize()));
                o.set("unwind", self.unwind(unwind));
                o.set("fn_span", self.span(*fn_span));
                let fty = func.ty(&body.local_decls, tcx);
                if let ty::FnDef(did, gargs) = fty.kind() {
                    o.set("callee", self.stable_path(*did));
                    o.set("callee_local", did.is_local());
                    o.set("callee_args", self.gargs(gargs));
                    o.set("callee_name", tcx.opt_item_name(*did).map(|s| s.to_string()));
                    if let Some(tr) = tcx.trait_of_assoc(*did) {
                        o.set("callee_trait", self.stable_path(tr));
                        if gargs.len() > 0 {
                            if let GenericArgKind::Type(st) = gargs[0].kind() {
                                o.set("callee_self", self.ty(st));
                            }
                        }
                    } else if let Some(im) = tcx.impl_of_assoc(*did) {
                        let st = tcx.type_of(im).instantiate(tcx, gargs).skip_norm_wip();
                        o.set("callee_impl_self", self.ty(st));
                        if let Some(tr) = tcx.impl_opt_trait_ref(im) {
                            o.set("callee_impl_trait", self.stable_path(tr.skip_binder().def_id));
                        }
                    }
                    // resolution
                    let res = std::panic::catch_unwind(std::panic::AssertUnwindSafe(|| Instance::try_resolve(tcx, tenv, *did, gargs)));
                    match res {
                        Ok(Ok(Some(inst))) => {
                            let rd = inst.def_id();
                            let mut ro = J::obj().put("kind", format!("{:?}", inst.def).split('(').next().unwrap_or("").to_string());
                            ro = ro.put("def", self.stable_path(rd)).put("local", rd.is_local()).put("args", self.gargs(inst.args));
                            if let Some(im) = tcx.impl_of_assoc(rd) {
                                let st = tcx.type_of(im).instantiate(tcx, inst.args).skip_norm_wip();
                                ro = ro.put("impl_self", self.ty(st));
                                if let Some(tr) = tcx.impl_opt_trait_ref(im) {
                                    ro = ro.put("impl_trait", self.stable_path(tr.skip_binder().def_id));
                                }
                            }
                            // <T as Into<U>>::into forwards to <U as From<T>>::from: resolve that too
                            if let Some(into_tr) = tcx.get_diagnostic_item(rustc_span::sym::Into) {
                                if tcx.trait_of_assoc(*did) == Some(into_tr) && !rd.is_local() && inst.args.len() >= 2 {
                                    if let (Some(from_tr), GenericArgKind::Type(t_ty), GenericArgKind::Type(u_ty)) =
                                        (tcx.get_diagnostic_item(rustc_span::sym::From), inst.args[0].kind(), inst.args[1].kind())
                                    {
                                        if let Some(from_fn) = tcx.associated_items(from_tr).in_definition_order().next() {
                                            let fargs = tcx.mk_args(&[u_ty.into(), t_ty.into()]);
                                            if let Ok(Some(fi)) = Instance::try_resolve(tcx, tenv, from_fn.def_id, fargs) {
                                                let fd = fi.def_id();
                                                ro = ro.put(
                                                    "via_from",
                                                    J::obj().put("def", self.stable_path(fd)).put("local", fd.is_local()).put("args", self.gargs(fi.args)).done(),
                                                );
                                            }
                                        }
                                    }
                                }
                            }
                            o.set("resolved", ro);
                        }
                        Ok(Ok(None)) => o.set("resolved", J::s("unresolved")),
                        Ok(Err(_)) => o.set("resolved", J::s("error")),
                        Err(_) => o.set("resolved", J::s("panic")),
                    }
                } else {
                    o.set("indirect", true);
                    o.set("fn_ty", self.ty(fty));
                }
                o
            }
            TerminatorKind::Assert { cond, expected, target, unwind, msg } => J::obj()
                .put("k", "assert")
                .put("cond", self.operand(cond, tenv))
                .put("expected", *expected)
                .put("target", bbj(target))
                .put("unwind", self.unwind(unwind))
                .put("msg", format!("{:?}", msg).chars().take(60).collect::<String>()),
            other => J::obj().put("k", "other").put("text", format!("{:?}", other)),
        }
    }

    // ---------------------------------------------------------------- items
    fn generics_names(&mut self, did: DefId) -> J {
        let tcx = self.tcx;
        let g = tcx.generics_of(did);
        J::Arr(
            g.own_params
                .iter()
                .map(|p| {
                    J::obj()
                        .put("name", p.name.to_string())
                        .put("kind", match p.kind {
                            ty::GenericParamDefKind::Lifetime => "lifetime",
                            ty::GenericParamDefKind::Type { .. } => "type",
                            ty::GenericParamDefKind::Const { .. } => "const",
                        })
                        .done()
                })
                .collect(),
        )
    }

    fn adt(&mut self, ldid: LocalDefId) -> J {
        let tcx = self.tcx;
        let did = ldid.to_def_id();
        let def = tcx.adt_def(did);
        let repr = def.repr();
        let mut o = J::obj().put("path", self.stable_path(did)).put("name", tcx.item_name(did).to_string());
        o.set("kind", format!("{:?}", def.adt_kind()));
        o.set("span", self.span(tcx.def_span(did)));
        o.set("pub", tcx.visibility(did).is_public());
        o.set("reachable", tcx.effective_visibilities(()).is_reachable(ldid));
        o.set("repr_c", repr.c());
        o.set("repr_transparent", repr.transparent());
        o.set("repr_packed", repr.packed());
        o.set("repr_align", repr.align.map(|a| a.bytes() as usize));
        o.set("repr_int", repr.int.is_some());
        o.set("generics", self.generics_names(did));
        // variance of each generic parameter (in declaration order), as inferred by rustc
        let vs: Vec<J> = tcx.variances_of(did).iter().map(|v| J::from(format!("{:?}", v))).collect();
        o.set("variances", J::Arr(vs));
        o.set("preds", self.preds(did));
        let mut vars = Vec::new();
        for v in def.variants().iter() {
            let mut fields = Vec::new();
            for f in v.fields.iter() {
                let ft = tcx.type_of(f.did).instantiate_identity().skip_norm_wip();
                fields.push(
                    J::obj()
                        .put("name", f.name.to_string())
                        .put("ty", self.ty(ft))
                        .put("pub", f.vis.is_public())
                        .put("vis", format!("{:?}", f.vis))
                        .done(),
                );
            }
            vars.push(J::obj().put("name", v.name.to_string()).put("fields", J::Arr(fields)).done());
        }
        o.set("variants", J::Arr(vars));
        o.done()
    }

    fn impl_(&mut self, ldid: LocalDefId) -> J {
        let tcx = self.tcx;
        let did = ldid.to_def_id();
        let self_ty = tcx.type_of(did).instantiate_identity().skip_norm_wip();
        let mut o = J::obj().put("path", self.stable_path(did)).put("self_ty", self.ty(self_ty));
        o.set("span", self.span(tcx.def_span(did)));
        if let Some(tr) = tcx.impl_opt_trait_ref(did) {
            let tr = tr.instantiate_identity().skip_norm_wip();
            o.set("trait", self.stable_path(tr.def_id));
            o.set("trait_args", self.gargs(tr.args));
            o.set("negative", matches!(tcx.impl_polarity(did), ty::ImplPolarity::Negative));
            o.set("unsafe", tcx.impl_trait_header(did).safety.is_unsafe());
        }
        o.set("derived", tcx.is_automatically_derived(did));
        o.set("generics", self.generics_names(did));
        o.set("preds", self.preds(did));
        let mut items = Vec::new();
        for it in tcx.associated_items(did).in_definition_order() {
            items.push(J::obj().put("name", it.name().to_string()).put("kind", format!("{:?}", it.kind).split('{').next().unwrap_or("").trim().to_string()).put("key", self.stable_path(it.def_id)).done());
        }
        o.set("items", J::Arr(items));
        o.done()
    }

    fn const_(&mut self, ldid: LocalDefId) -> Option<J> {
        let tcx = self.tcx;
        let did = ldid.to_def_id();
        if tcx.generics_of(did).requires_monomorphization(tcx) {
            return None;
        }
        let t = tcx.type_of(did).instantiate_identity().skip_norm_wip();
        let mut o = J::obj().put("path", self.stable_path(did)).put("ty", self.ty(t));
        if let Ok(v) = tcx.const_eval_poly(did) {
            if let Some(si) = v.try_to_scalar_int() {
                let size = si.size();
                let iv: i128 = match t.kind() {
                    ty::Int(_) => si.to_int(size),
                    _ => si.to_uint(size) as i128,
                };
                o.set("int", iv);
            }
        }
        Some(o.done())
    }
}

fn region_str(r: ty::Region<'_>) -> String {
    let s = format!("{}", r);
    if s.is_empty() {
        "'_".to_string()
    } else {
        s
    }
}


fn region_name(r: ty::Region<'_>) -> String {
    match r.kind() {
        ty::ReStatic => "'static".to_string(),
        ty::ReEarlyParam(p) => p.name.to_string(),
        ty::ReLateParam(p) => format!("late:{:?}", p.kind),
        _ => format!("{:?}", r),
    }
}

struct RegionNames {
    out: Vec<String>,
    skip_alias: bool,
}

impl<'tcx> TypeVisitor<TyCtxt<'tcx>> for RegionNames {
    fn visit_ty(&mut self, t: Ty<'tcx>) {
        if self.skip_alias {
            if let ty::Alias(..) = t.kind() {
                return;
            }
        }
        t.super_visit_with(self)
    }
    fn visit_region(&mut self, r: ty::Region<'tcx>) {
        let n = region_name(r);
        if !self.out.contains(&n) {
            self.out.push(n);
        }
    }
}

struct ViewRegions {
    out: Vec<String>,
}

impl ViewRegions {
    fn push(&mut self, r: ty::Region<'_>) {
        let n = region_name(r);
        if !self.out.contains(&n) {
            self.out.push(n);
        }
    }
}

fn mentions_local_adt<'tcx>(t: Ty<'tcx>) -> bool {
    t.walk().any(|a| match a.kind() {
        GenericArgKind::Type(x) => matches!(x.kind(), ty::Adt(d, _) if d.did().is_local()),
        _ => false,
    })
}

impl<'tcx> TypeVisitor<TyCtxt<'tcx>> for ViewRegions {
    fn visit_ty(&mut self, t: Ty<'tcx>) {
        match t.kind() {
            ty::Alias(..) => return,
            ty::Ref(r, inner, _) => {
                if inner.has_param() || mentions_local_adt(*inner) {
                    self.push(*r);
                }
            }
            ty::Adt(d, args) if d.did().is_local() => {
                for a in args.iter() {
                    if let GenericArgKind::Lifetime(r) = a.kind() {
                        self.push(r);
                    }
                }
            }
            _ => {}
        }
        t.super_visit_with(self)
    }
}
