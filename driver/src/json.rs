//! Minimal JSON value + writer (the driver has zero crate dependencies).
use std::fmt::Write;

#[derive(Clone, Debug)]
pub enum J {
    Null,
    Bool(bool),
    Int(i128),
    Str(String),
    Arr(Vec<J>),
    Obj(Vec<(String, J)>),
}

impl J {
    pub fn s<S: Into<String>>(s: S) -> J {
        J::Str(s.into())
    }
    pub fn obj() -> Obj {
        Obj(Vec::new())
    }
    pub fn write(&self, out: &mut String) {
        match self {
            J::Null => out.push_str("null"),
            J::Bool(b) => out.push_str(if *b { "true" } else { "false" }),
            J::Int(i) => {
                // JSON numbers beyond 2^53 lose precision in some readers; Python is exact.
                let _ = write!(out, "{}", i);
            }
            J::Str(s) => write_str(s, out),
            J::Arr(v) => {
                out.push('[');
                for (i, x) in v.iter().enumerate() {
                    if i > 0 {
                        out.push(',');
                    }
                    x.write(out);
                }
                out.push(']');
            }
            J::Obj(v) => {
                out.push('{');
                for (i, (k, x)) in v.iter().enumerate() {
                    if i > 0 {
                        out.push(',');
                    }
                    write_str(k, out);
                    out.push(':');
                    x.write(out);
                }
                out.push('}');
            }
        }
    }
}

fn write_str(s: &str, out: &mut String) {
    out.push('"');
    for c in s.chars() {
        match c {
            '"' => out.push_str("\\\""),
            '\\' => out.push_str("\\\\"),
            '\n' => out.push_str("\\n"),
            '\r' => out.push_str("\\r"),
            '\t' => out.push_str("\\t"),
            c if (c as u32) < 0x20 => {
                let _ = write!(out, "\\u{:04x}", c as u32);
            }
            c => out.push(c),
        }
    }
    out.push('"');
}

pub struct Obj(pub Vec<(String, J)>);

impl Obj {
    pub fn put<V: Into<J>>(mut self, k: &str, v: V) -> Obj {
        self.0.push((k.to_string(), v.into()));
        self
    }
    pub fn set<V: Into<J>>(&mut self, k: &str, v: V) {
        self.0.push((k.to_string(), v.into()));
    }
    pub fn done(self) -> J {
        J::Obj(self.0)
    }
}

impl From<Obj> for J {
    fn from(o: Obj) -> J {
        J::Obj(o.0)
    }
}
impl From<bool> for J {
    fn from(b: bool) -> J {
        J::Bool(b)
    }
}
impl From<usize> for J {
    fn from(b: usize) -> J {
        J::Int(b as i128)
    }
}
impl From<u32> for J {
    fn from(b: u32) -> J {
        J::Int(b as i128)
    }
}
impl From<i128> for J {
    fn from(b: i128) -> J {
        J::Int(b)
    }
}
impl From<u128> for J {
    fn from(b: u128) -> J {
        J::Int(b as i128)
    }
}
impl From<String> for J {
    fn from(b: String) -> J {
        J::Str(b)
    }
}
impl From<&str> for J {
    fn from(b: &str) -> J {
        J::Str(b.to_string())
    }
}
impl From<Vec<J>> for J {
    fn from(b: Vec<J>) -> J {
        J::Arr(b)
    }
}
impl<T: Into<J>> From<Option<T>> for J {
    fn from(b: Option<T>) -> J {
        match b {
            Some(x) => x.into(),
            None => J::Null,
        }
    }
}
