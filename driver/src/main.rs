//! triomphe-facts: a rustc_private driver that compiles a crate exactly as cargo asks
//! and, for the crate named by TRIOMPHE_FACTS_CRATE (default "triomphe"), dumps a JSON
//! fact base of the type-checked program (MIR bodies with resolved callees, ADTs, impls).
//! Nothing of the analysed crate is executed.
#![feature(rustc_private)]
#![allow(clippy::all)]

extern crate rustc_abi;
extern crate rustc_data_structures;
extern crate rustc_driver;
extern crate rustc_hir;
extern crate rustc_interface;
extern crate rustc_middle;
extern crate rustc_span;

mod extract;
mod json;

use rustc_driver::Compilation;
use rustc_interface::interface::Compiler;
use rustc_middle::ty::TyCtxt;

struct Cb {
    out: Option<String>,
}

impl rustc_driver::Callbacks for Cb {
    fn after_analysis<'tcx>(&mut self, _c: &Compiler, tcx: TyCtxt<'tcx>) -> Compilation {
        if let Some(out) = &self.out {
            let j = extract::extract(tcx);
            let mut s = String::with_capacity(1 << 22);
            j.write(&mut s);
            s.push('\n');
            // one write per process
            std::fs::write(out, s).expect("cannot write fact file");
        }
        Compilation::Continue
    }
}

fn main() {
    let mut args: Vec<String> = std::env::args().collect();
    // RUSTC_WORKSPACE_WRAPPER: argv[1] is the path of the real rustc
    if args.len() > 1 && (args[1].ends_with("rustc") || args[1].contains("/rustc")) {
        args.remove(1);
    }
    let want = std::env::var("TRIOMPHE_FACTS_CRATE").unwrap_or_else(|_| "triomphe".to_string());
    let mut crate_name = None;
    let mut i = 0;
    while i < args.len() {
        if args[i] == "--crate-name" && i + 1 < args.len() {
            crate_name = Some(args[i + 1].clone());
        }
        i += 1;
    }
    let is_test = args.iter().any(|a| a == "--test");
    let out = match (std::env::var("TRIOMPHE_FACTS_OUT"), crate_name) {
        (Ok(o), Some(c)) if c == want && !is_test => Some(o),
        _ => None,
    };
    let mut cb = Cb { out };
    rustc_driver::run_compiler(&args, &mut cb);
}
