#!/bin/bash
# Builds the rustc_private fact-extraction driver. Offline, from files on disk only.
set -euo pipefail
cd "$(dirname "$0")"
exec python3 -m analysis.setup
