#!/usr/bin/env python3
"""Re-run every check against every confirmed seeded change in /verif/seeded (scratch copies) and refresh `checks_that_fire`."""
import json
import os
import shutil
import subprocess
import sys
import tempfile

VERIF = os.path.dirname(os.path.dirname(os.path.abspath(__file__)))


def one(name):
    d = os.path.join(VERIF, "seeded", name)
    meta = json.load(open(os.path.join(d, "meta.json")))
    tmp = tempfile.mkdtemp(prefix="seedr-")
    out = []
    try:
        S = os.path.join(tmp, "repo")
        shutil.copytree("/repo", S, ignore=shutil.ignore_patterns("target"))
        r = subprocess.run(["git", "apply", os.path.join(d, "patch.diff")], cwd=S, stdout=subprocess.PIPE, stderr=subprocess.STDOUT, text=True)
        if r.returncode != 0:
            return "%s PATCH NO LONGER APPLIES %s" % (name, r.stdout[:200])
        fired = {}
        for n in range(1, 18):
            p = "C%02d" % n
            e = dict(os.environ)
            e.update({"VERIF_REPO": S, "VERIF_EVIDENCE_DIR": os.path.join(tmp, "ev"), "VERIF_REPORTS_DIR": os.path.join(tmp, "rp"), "CARGO_NET_OFFLINE": "true"})
            r = subprocess.run([os.path.join(VERIF, "check"), p], cwd=VERIF, env=e, stdout=subprocess.PIPE, stderr=subprocess.STDOUT, text=True)
            if r.returncode != 0:
                fired[p] = [l for l in r.stdout.splitlines() if l.startswith("[")][:3]
        meta["checks_that_fire"] = {p: ls[:2] for p, ls in fired.items()}
        meta["detected_by_target_property_check"] = meta["property"] in fired
        json.dump(meta, open(os.path.join(d, "meta.json"), "w"), indent=1)
        out.append("%-55s target %s  fires: %s" % (name, meta["property"], sorted(fired)))
        for p, ls in fired.items():
            for l in ls[:1]:
                out.append("       " + l[:230])
    finally:
        shutil.rmtree(tmp, ignore_errors=True)
    return "\n".join(out)


def main():
    args = [a for a in sys.argv[1:] if not a.startswith("-j")]
    jobs = next((int(a[2:]) for a in sys.argv[1:] if a.startswith("-j") and a[2:].isdigit()), 1)
    only = args[0] if args else None
    names = [n for n in sorted(os.listdir(os.path.join(VERIF, "seeded"))) if os.path.isfile(os.path.join(VERIF, "seeded", n, "patch.diff")) and not (only and only not in n)]
    if jobs <= 1:
        for n in names:
            print(one(n), flush=True)
    else:
        from concurrent.futures import ThreadPoolExecutor

        with ThreadPoolExecutor(max_workers=jobs) as ex:
            for txt in ex.map(one, names):
                print(txt, flush=True)
    return 0


if __name__ == "__main__":
    sys.exit(main())
