#!/usr/bin/env python3
"""Re-run every check against every confirmed seeded change in /verif/seeded (scratch copies) and refresh `checks_that_fire`."""
import json
import os
import shutil
import subprocess
import sys
import tempfile

VERIF = os.path.dirname(os.path.dirname(os.path.abspath(__file__)))


def main():
    only = sys.argv[1] if len(sys.argv) > 1 else None
    rows = []
    for name in sorted(os.listdir(os.path.join(VERIF, "seeded"))):
        d = os.path.join(VERIF, "seeded", name)
        if not os.path.isfile(os.path.join(d, "patch.diff")) or (only and only not in name):
            continue
        meta = json.load(open(os.path.join(d, "meta.json")))
        tmp = tempfile.mkdtemp(prefix="seedr-")
        try:
            S = os.path.join(tmp, "repo")
            shutil.copytree("/repo", S, ignore=shutil.ignore_patterns("target"))
            r = subprocess.run(["git", "apply", os.path.join(d, "patch.diff")], cwd=S, stdout=subprocess.PIPE, stderr=subprocess.STDOUT, text=True)
            if r.returncode != 0:
                print(name, "PATCH NO LONGER APPLIES", r.stdout[:200])
                continue
            fired = {}
            for n in range(1, 18):
                p = "C%02d" % n
                e = dict(os.environ)
                e.update({"VERIF_REPO": S, "VERIF_EVIDENCE_DIR": os.path.join(tmp, "ev"), "VERIF_REPORTS_DIR": os.path.join(tmp, "rp"), "CARGO_NET_OFFLINE": "true"})
                r = subprocess.run([os.path.join(VERIF, "check"), p], cwd=VERIF, env=e, stdout=subprocess.PIPE, stderr=subprocess.STDOUT, text=True)
                if r.returncode != 0:
                    fired[p] = [l for l in r.stdout.splitlines() if l.startswith("[")][:3]
            meta["checks_that_fire"] = {p: ls[:2] for p, ls in fired.items()}
            meta["detected_by_target_property_check"] = meta["property"] in fired
            json.dump(meta, open(os.path.join(d, "meta.json"), "w"), indent=1)
            rows.append((name, meta["property"], sorted(fired)))
            print("%-55s target %s  fires: %s" % (name, meta["property"], sorted(fired)))
            for p, ls in fired.items():
                for l in ls[:1]:
                    print("      ", l[:230])
        finally:
            shutil.rmtree(tmp, ignore_errors=True)
    return 0


if __name__ == "__main__":
    sys.exit(main())
