#!/usr/bin/env python3
"""Development self-test: apply one textual mutant (or benign edit) at a time to a scratch copy of
the repository and run the affected checks with VERIF_REPO pointing at the copy.

  selftest/run.py [--only NAME_SUBSTR] [--props C01,C04] [--kind mutant|benign] [--test]

Never touches /repo. Scratch copies live under $TMPDIR (default /tmp) and are removed afterwards.
"""
import json
import os
import shutil
import subprocess
import sys
import tempfile

HERE = os.path.dirname(os.path.abspath(__file__))
VERIF = os.path.dirname(HERE)
sys.path.insert(0, HERE)
import corpus  # noqa: E402


def sh(cmd, env=None, cwd=None, timeout=1200):
    e = dict(os.environ)
    e["CARGO_NET_OFFLINE"] = "true"
    if env:
        e.update(env)
    r = subprocess.run(cmd, env=e, cwd=cwd, stdout=subprocess.PIPE, stderr=subprocess.STDOUT, text=True, timeout=timeout)
    return r.returncode, r.stdout


def main():
    only = None
    props = None
    kind = None
    run_tests = False
    a = sys.argv[1:]
    i = 0
    while i < len(a):
        if a[i] == "--only":
            only = a[i + 1]; i += 1
        elif a[i] == "--props":
            props = a[i + 1].split(","); i += 1
        elif a[i] == "--kind":
            kind = a[i + 1]; i += 1
        elif a[i] == "--test":
            run_tests = True
        i += 1
    results = []
    for m in corpus.CASES:
        if only and only not in m["name"]:
            continue
        if kind and m["kind"] != kind:
            continue
        want = m["props"]
        if props and not (set(props) & set(want)) and m["kind"] == "mutant":
            continue
        tmp = tempfile.mkdtemp(prefix="triomphe-mut-")
        try:
            dst = os.path.join(tmp, "repo")
            shutil.copytree("/repo", dst, ignore=shutil.ignore_patterns("target", ".git"))
            ok = True
            for (fn, old, new) in m["edits"]:
                p = os.path.join(dst, fn)
                s = open(p).read()
                if s.count(old) != 1:
                    print("!! %s: pattern occurs %d times in %s" % (m["name"], s.count(old), fn))
                    ok = False
                    break
                open(p, "w").write(s.replace(old, new))
            if not ok:
                results.append((m["name"], "PATTERN-ERROR"))
                continue
            feats = m.get("features", [])
            rc, out = sh(["cargo"] + ([m["toolchain"]] if m.get("toolchain") else []) + ["check", "--offline", "--lib", "--tests"] + feats, cwd=dst, env={"CARGO_TARGET_DIR": os.path.join(tmp, "t")})
            if rc != 0:
                print("!! %s: does not compile\n%s" % (m["name"], out[-1500:]))
                results.append((m["name"], "NO-COMPILE"))
                continue
            if run_tests:
                rc, out = sh(["cargo", "test", "--offline", "--lib"], cwd=dst, env={"CARGO_TARGET_DIR": os.path.join(tmp, "t")})
                tests_pass = rc == 0
            else:
                tests_pass = None
            run_props = props or (want if m["kind"] == "mutant" else corpus.ALL_PROPS)
            fired = []
            for p in run_props:
                if not os.path.exists(os.path.join(VERIF, "analysis", "props", p.lower() + ".py")):
                    continue
                rc, out = sh([os.path.join(VERIF, "check"), p, "--tier", m.get("tier", "quick")], env={"VERIF_REPO": dst, "VERIF_EVIDENCE_DIR": os.path.join(tmp, "ev"), "VERIF_REPORTS_DIR": os.path.join(tmp, "rp")}, cwd=VERIF)
                if rc != 0:
                    first = [l for l in out.splitlines() if l.startswith("[")]
                    fired.append((p, first[:3]))
            if m["kind"] == "mutant":
                hit = [p for p, _ in fired if p in want]
                status = "DETECTED" if hit else "MISSED"
            else:
                status = "SILENT" if not fired else "FALSE-ALARM"
            print("%-12s %-55s tests=%s fired=%s" % (status, m["name"], tests_pass, [p for p, _ in fired]))
            if status in ("MISSED", "FALSE-ALARM") or os.environ.get("V"):
                for p, ls in fired:
                    for l in ls:
                        print("      ", l[:300])
            results.append((m["name"], status))
        finally:
            shutil.rmtree(tmp, ignore_errors=True)
    bad = [r for r in results if r[1] not in ("DETECTED", "SILENT")]
    print("%d cases, %d not as expected" % (len(results), len(bad)))
    return 1 if bad else 0


if __name__ == "__main__":
    sys.exit(main())
