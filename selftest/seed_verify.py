#!/usr/bin/env python3
"""Confirm an independently written seeded change and record it under /verif/seeded/<name>/.

  selftest/seed_verify.py <property id> <worktree with _seed/> <name> [--demo-test FILE]... [--features "..."] [--miri]

Steps (all on scratch copies outside /repo and /verif): the patch applies to a fresh copy of /repo; the crate's own
tests still pass with it; the demonstration (integration test file(s) dropped into tests/) fails with the patch and passes
without; then every check is run against the patched copy and the ones that fire are recorded.
"""
import json
import os
import shutil
import subprocess
import sys
import tempfile

VERIF = os.path.dirname(os.path.dirname(os.path.abspath(__file__)))


def sh(cmd, cwd=None, env=None, timeout=3000):
    e = dict(os.environ)
    e["CARGO_NET_OFFLINE"] = "true"
    if env:
        e.update(env)
    r = subprocess.run(cmd, cwd=cwd, env=e, stdout=subprocess.PIPE, stderr=subprocess.STDOUT, text=True, timeout=timeout)
    return r.returncode, r.stdout


def main():
    prop, wt, name = sys.argv[1], sys.argv[2], sys.argv[3]
    demos, feats, miri = [], [], False
    release, examples = False, []
    twin = None
    nightly, miri_target, miriflags = False, None, None
    a = sys.argv[4:]
    i = 0
    while i < len(a):
        if a[i] == "--demo-test":
            demos.append(a[i + 1]); i += 1
        elif a[i] == "--features":
            feats = a[i + 1].split(); i += 1
        elif a[i] == "--miri":
            miri = True
        elif a[i] == "--release":
            release = True
        elif a[i] == "--demo-example":
            examples.append(a[i + 1]); i += 1
        elif a[i] == "--nightly":
            nightly = True
        elif a[i] == "--miri-target":
            miri_target = a[i + 1]; i += 1
        elif a[i] == "--miriflags":
            miriflags = a[i + 1]; i += 1
        elif a[i] == "--twin":
            twin = a[i + 1]; i += 1  # the demo uses an API the change adds: "without" = the correct twin of the change
        i += 1
    seed = os.path.join(wt, "_seed")
    patch = os.path.join(seed, "patch.diff")
    tmp = tempfile.mkdtemp(prefix="seedv-")
    ran = []
    try:
        S = os.path.join(tmp, "repo")
        shutil.copytree("/repo", S, ignore=shutil.ignore_patterns("target"))
        tgt = os.path.join(tmp, "t")
        rc, out = sh(["git", "apply", "--check", patch], cwd=S)
        if rc != 0:
            print("PATCH DOES NOT APPLY\n" + out); return 1
        sh(["git", "apply", patch], cwd=S)
        tool = ["cargo", "+nightly"] if (feats and "--all-features" in feats) or miri or nightly else ["cargo"]
        rc, out = sh(tool + ["test", "--offline"] + feats, cwd=S, env={"CARGO_TARGET_DIR": tgt})
        tests_pass = rc == 0
        ran.append("%s test --offline %s (patched): %s" % (" ".join(tool), " ".join(feats), "pass" if tests_pass else "FAIL"))
        print(ran[-1])
        if not tests_pass:
            print(out[-3000:])
        demo_results = {}
        os.makedirs(os.path.join(S, "tests"), exist_ok=True)
        for d in demos:
            shutil.copy2(os.path.join(seed, "demo", d), os.path.join(S, "tests", os.path.basename(d)))
        for d in demos:
            tname = os.path.basename(d)[:-3]
            cmd = (["cargo", "+nightly", "miri", "test"] + (["--target", miri_target] if miri_target else []) if miri else tool + ["test", "--offline"]) + feats + (["--release"] if release else []) + ["--test", tname]
            if miriflags:
                os.environ["MIRIFLAGS"] = miriflags
            rc1, o1 = sh(cmd, cwd=S, env={"CARGO_TARGET_DIR": tgt})
            sh(["git", "apply", "-R", patch], cwd=S)
            if twin:
                sh(["git", "apply", os.path.join(seed, twin)], cwd=S)
            rc2, o2 = sh(cmd, cwd=S, env={"CARGO_TARGET_DIR": tgt})
            if twin:
                sh(["git", "apply", "-R", os.path.join(seed, twin)], cwd=S)
            sh(["git", "apply", patch], cwd=S)
            demo_results[tname] = {"with_patch": "fails" if rc1 != 0 else "passes", "without_patch": "fails" if rc2 != 0 else "passes"}
            if twin:
                demo_results[tname]["baseline"] = "the correct twin of the change (the demo uses an API the change adds)"
            ran.append("%s: with patch %s, without %s" % (" ".join(cmd), demo_results[tname]["with_patch"], demo_results[tname]["without_patch"]))
            print(ran[-1])
            if rc1 == 0 or rc2 != 0:
                print((o1 if rc1 == 0 else o2)[-2500:])
        # client programs that must not type-check against the unchanged crate (type-system properties)
        if examples:
            os.makedirs(os.path.join(S, "examples"), exist_ok=True)
        for d in examples:
            shutil.copy2(os.path.join(seed, "demo", d), os.path.join(S, "examples", os.path.basename(d)))
            ename = os.path.basename(d)[:-3]
            cmd = tool + ["build", "--offline"] + feats + ["--example", ename]
            rc1, o1 = sh(cmd, cwd=S, env={"CARGO_TARGET_DIR": tgt})
            sh(["git", "apply", "-R", patch], cwd=S)
            if twin:
                sh(["git", "apply", os.path.join(seed, twin)], cwd=S)
            rc2, o2 = sh(cmd, cwd=S, env={"CARGO_TARGET_DIR": tgt})
            if twin:
                sh(["git", "apply", "-R", os.path.join(seed, twin)], cwd=S)
            sh(["git", "apply", patch], cwd=S)
            demo_results[ename] = {"with_patch": "compiles" if rc1 == 0 else "rejected", "without_patch": "compiles" if rc2 == 0 else "rejected", "errors_without_patch": [l for l in o2.splitlines() if l.startswith("error[")][:4]}
            ran.append("%s: with patch %s, without %s %s" % (" ".join(cmd), demo_results[ename]["with_patch"], demo_results[ename]["without_patch"], demo_results[ename]["errors_without_patch"]))
            print(ran[-1])
            os.remove(os.path.join(S, "examples", os.path.basename(d)))
        if examples:
            shutil.rmtree(os.path.join(S, "examples"), ignore_errors=True)
        for d in demos:
            os.remove(os.path.join(S, "tests", os.path.basename(d)))
        if not os.listdir(os.path.join(S, "tests")):
            os.rmdir(os.path.join(S, "tests"))
        # run every check against the patched copy
        fired = {}
        for n in range(1, 18):
            p = "C%02d" % n
            rc, out = sh([os.path.join(VERIF, "check"), p, "--tier", "quick"], cwd=VERIF, env={"VERIF_REPO": S, "VERIF_EVIDENCE_DIR": os.path.join(tmp, "ev"), "VERIF_REPORTS_DIR": os.path.join(tmp, "rp")})
            if rc != 0:
                fired[p] = [l for l in out.splitlines() if l.startswith("[")][:4]
        print("checks that fire:", sorted(fired))
        for p, ls in fired.items():
            for l in ls[:2]:
                print("   ", l[:260])
        dst = os.path.join(VERIF, "seeded", name)
        if os.path.exists(dst):
            shutil.rmtree(dst)
        os.makedirs(dst)
        shutil.copy2(patch, os.path.join(dst, "patch.diff"))
        if os.path.exists(os.path.join(seed, "twin.diff")):
            shutil.copy2(os.path.join(seed, "twin.diff"), os.path.join(dst, "twin.diff"))
        if os.path.isdir(os.path.join(seed, "demo")):
            shutil.copytree(os.path.join(seed, "demo"), os.path.join(dst, "demo"))
        meta_txt = open(os.path.join(seed, "meta.txt")).read() if os.path.exists(os.path.join(seed, "meta.txt")) else ""
        meta = {
            "property": prop,
            "author": "independent sub-agent given only the property text and a scratch worktree",
            "description": meta_txt,
            "existing_tests_pass_with_patch": tests_pass,
            "demonstration": demo_results,
            "what_was_run": ran,
            "checks_that_fire": {p: ls[:2] for p, ls in fired.items()},
            "detected_by_target_property_check": prop in fired,
        }
        with open(os.path.join(dst, "meta.json"), "w") as f:
            json.dump(meta, f, indent=1)
        print("saved", dst)
        return 0
    finally:
        shutil.rmtree(tmp, ignore_errors=True)


if __name__ == "__main__":
    sys.exit(main())
