"""Self-test corpus: textual mutants (one instance broken, still compiles) and benign refactors."""
ALL_PROPS = ["C%02d" % i for i in range(1, 18)]
CASES = []


def mutant(name, props, edits, **kw):
    CASES.append(dict(name=name, kind="mutant", props=props, edits=edits, **kw))


def benign(name, edits, **kw):
    CASES.append(dict(name=name, kind="benign", props=[], edits=edits, **kw))


# ------------------------------------------------------------------ C01 / C04 / C07 balance
mutant("arcborrow_with_arc_no_manuallydrop", ["C01", "C04"], [("src/arc_borrow.rs",
    "let transient = unsafe { ManuallyDrop::new(Arc::from_raw(self.0.as_ptr())) };\n\n        // Expose the transient Arc to the callback, which may clone it if it wants\n        // and forward the result to the user\n        f(&transient)\n    }\n\n    /// Similar to deref",
    "let transient = unsafe { Arc::from_raw(self.0.as_ptr()) };\n\n        // Expose the transient Arc to the callback, which may clone it if it wants\n        // and forward the result to the user\n        f(&transient)\n    }\n\n    /// Similar to deref")])
mutant("clone_arc_no_forget", ["C01", "C04"], [("src/arc_borrow.rs", "mem::forget(arc.clone());\n        arc", "let _ = mem::size_of::<usize>();\n        arc")])
mutant("clone_arc_double_forget", ["C01", "C04"], [("src/arc_borrow.rs", "mem::forget(arc.clone());\n        arc", "mem::forget(arc.clone());\n        mem::forget(arc.clone());\n        arc")])
mutant("into_raw_no_manuallydrop", ["C01"], [("src/arc.rs", "let this = ManuallyDrop::new(this);\n        this.as_ptr()", "let p = this.as_ptr();\n        p")])
mutant("from_raw_offset_no_manuallydrop", ["C01"], [("src/arc.rs", "let a = ManuallyDrop::new(a);\n        let ptr = a.ptr.as_ptr();", "let ptr = a.ptr.as_ptr();")])
mutant("drop_inner_compare_2", ["C01", "C02"], [("src/arc.rs", "fetch_sub(1, Release) != 1 {", "fetch_sub(1, Release) != 2 {")])
mutant("offsetarc_make_mut_unparked", ["C01", "C07"], [("src/offset_arc.rs", "let mut arc = ManuallyDrop::new(Arc::from_raw_offset(this));", "let mut arc = Arc::from_raw_offset(this);"), ("src/offset_arc.rs", "Arc::make_mut(&mut *arc) as *mut _;", "Arc::make_mut(&mut arc) as *mut _;"), ("src/offset_arc.rs", "Arc::into_raw_offset(ManuallyDrop::into_inner(arc))", "Arc::into_raw_offset(arc)")])
mutant("arcunion_drop_only_first", ["C01", "C12"], [("src/arc_union.rs", "ArcUnionBorrow::Second(x) => unsafe {\n                let _ = Arc::from_raw(&*x);\n            },", "ArcUnionBorrow::Second(_x) => {}")])
mutant("from_second_clones", ["C01", "C04"], [("src/arc_union.rs", "unsafe { Self::new(((Arc::into_raw(other) as usize) | 0x1) as *mut _) }", "unsafe { Self::new(((Arc::into_raw(other.clone()) as usize) | 0x1) as *mut _) }")])
mutant("thin_drop_frees_directly", ["C01"], [("src/thin_arc.rs", "let _ = Arc::protected_from_thin(ThinArc {\n            ptr: self.ptr,\n            phantom: PhantomData,\n        });", "unsafe { let _ = alloc::boxed::Box::from_raw(thin_to_thick(self)); }")])
mutant("into_thin_hide_before_assert", ["C01", "C07", "C10"], [("src/thin_arc.rs", "    pub fn into_thin(a: Self) -> ThinArc<H, T> {\n        assert_eq!(", "    pub fn into_thin(a: Self) -> ThinArc<H, T> {\n        let a = ManuallyDrop::new(a);\n        assert_eq!("), ("src/thin_arc.rs", "unsafe { Self::into_thin_unchecked(a) }", "unsafe { Self::into_thin_unchecked(ManuallyDrop::into_inner(a)) }")])

# benign refactors
benign("forget_instead_of_manuallydrop_into_raw", [("src/arc.rs", "let this = ManuallyDrop::new(this);\n        this.as_ptr()", "let p = this.as_ptr();\n        core::mem::forget(this);\n        p")])
benign("drop_via_from_raw_inner", [("src/offset_arc.rs", "let _ = Arc::from_raw_offset(OffsetArc {\n            ptr: self.ptr,\n            phantom: PhantomData,\n        });", "drop(Arc::from_raw_offset(OffsetArc {\n            ptr: self.ptr,\n            phantom: PhantomData,\n        }));")])
