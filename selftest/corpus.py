"""Self-test corpus: textual mutants (one instance broken, still compiles) and benign refactors."""
ALL_PROPS = ["C%02d" % i for i in range(1, 18)]
CASES = []


def mutant(name, props, edits, **kw):
    CASES.append(dict(name=name, kind="mutant", props=props, edits=edits, **kw))


def benign(name, edits, **kw):
    CASES.append(dict(name=name, kind="benign", props=[], edits=edits, **kw))


# ------------------------------------------------------------------ C01 / C04 / C07 balance
mutant("arcborrow_with_arc_no_manuallydrop", ["C01", "C04"], [("src/arc_borrow.rs",
    "let transient = unsafe { ManuallyDrop::new(Arc::from_raw(self.0.as_ptr())) };\n\n        // Expose the transient Arc to the callback, which may clone it if it wants\n        // and forward the result to the user\n        f(&transient)\n    }\n\n    /// Similar to deref",
    "let transient = unsafe { Arc::from_raw(self.0.as_ptr()) };\n\n        // Expose the transient Arc to the callback, which may clone it if it wants\n        // and forward the result to the user\n        f(&transient)\n    }\n\n    /// Similar to deref")])
mutant("clone_arc_no_forget", ["C01", "C04"], [("src/arc_borrow.rs", "mem::forget(arc.clone());\n        arc", "let _ = mem::size_of::<usize>();\n        arc")])
mutant("clone_arc_double_forget", ["C01", "C04"], [("src/arc_borrow.rs", "mem::forget(arc.clone());\n        arc", "mem::forget(arc.clone());\n        mem::forget(arc.clone());\n        arc")])
mutant("into_raw_no_manuallydrop", ["C01"], [("src/arc.rs", "let this = ManuallyDrop::new(this);\n        this.as_ptr()", "let p = this.as_ptr();\n        p")])
mutant("from_raw_offset_no_manuallydrop", ["C01"], [("src/arc.rs", "let a = ManuallyDrop::new(a);\n        let ptr = a.ptr.as_ptr();", "let ptr = a.ptr.as_ptr();")])
mutant("drop_inner_compare_2", ["C01", "C02"], [("src/arc.rs", "fetch_sub(1, Release) != 1 {", "fetch_sub(1, Release) != 2 {")])
mutant("offsetarc_make_mut_unparked", ["C01", "C07"], [("src/offset_arc.rs", "let mut arc = ManuallyDrop::new(Arc::from_raw_offset(this));", "let mut arc = Arc::from_raw_offset(this);"), ("src/offset_arc.rs", "Arc::make_mut(&mut *arc) as *mut _;", "Arc::make_mut(&mut arc) as *mut _;"), ("src/offset_arc.rs", "Arc::into_raw_offset(ManuallyDrop::into_inner(arc))", "Arc::into_raw_offset(arc)")])
mutant("arcunion_drop_only_first", ["C01", "C12"], [("src/arc_union.rs", "ArcUnionBorrow::Second(x) => unsafe {\n                let _ = Arc::from_raw(&*x);\n            },", "ArcUnionBorrow::Second(_x) => {}")])
mutant("from_second_clones", ["C01", "C04"], [("src/arc_union.rs", "unsafe { Self::new(((Arc::into_raw(other) as usize) | 0x1) as *mut _) }", "unsafe { Self::new(((Arc::into_raw(other.clone()) as usize) | 0x1) as *mut _) }")])
mutant("thin_drop_frees_directly", ["C01"], [("src/thin_arc.rs", "let _ = Arc::protected_from_thin(ThinArc {\n            ptr: self.ptr,\n            phantom: PhantomData,\n        });", "unsafe { let _ = alloc::boxed::Box::from_raw(thin_to_thick(self)); }")])
mutant("into_thin_hide_before_assert", ["C01", "C07", "C10"], [("src/thin_arc.rs", "    pub fn into_thin(a: Self) -> ThinArc<H, T> {\n        assert_eq!(", "    pub fn into_thin(a: Self) -> ThinArc<H, T> {\n        let a = ManuallyDrop::new(a);\n        assert_eq!("), ("src/thin_arc.rs", "unsafe { Self::into_thin_unchecked(a) }", "unsafe { Self::into_thin_unchecked(ManuallyDrop::into_inner(a)) }")])

# benign refactors
benign("forget_instead_of_manuallydrop_into_raw", [("src/arc.rs", "let this = ManuallyDrop::new(this);\n        this.as_ptr()", "let p = this.as_ptr();\n        core::mem::forget(this);\n        p")])
benign("drop_via_from_raw_inner", [("src/offset_arc.rs", "let _ = Arc::from_raw_offset(OffsetArc {\n            ptr: self.ptr,\n            phantom: PhantomData,\n        });", "drop(Arc::from_raw_offset(OffsetArc {\n            ptr: self.ptr,\n            phantom: PhantomData,\n        }));")])

# ------------------------------------------------------------------ C04
mutant("offset_with_arc_clone_call_drop", ["C04"], [("src/offset_arc.rs",
    "let transient = unsafe { ManuallyDrop::new(Arc::from_raw(self.ptr.as_ptr())) };\n\n        // Expose the transient Arc to the callback, which may clone it if it wants\n        // and forward the result to the user\n        f(&transient)",
    "let transient = unsafe { ManuallyDrop::new(Arc::from_raw(self.ptr.as_ptr())) };\n        let real = Arc::clone(&transient);\n        f(&real)")])
mutant("strong_count_minus_one", ["C04"], [("src/arc.rs", "this.inner().count.load(Relaxed)\n    }", "this.inner().count.load(Relaxed).wrapping_sub(0).max(1)\n    }")])
mutant("thin_strong_count_constant", ["C04"], [("src/thin_arc.rs", "Self::with_arc(this, Arc::strong_count)", "Self::with_arc(this, |_| 1)")])
mutant("borrow_arc_bumps", ["C04", "C01"], [("src/arc.rs", "unsafe { ArcBorrow(NonNull::new_unchecked(self.as_ptr() as *mut T), PhantomData) }", "core::mem::forget(self.clone());\n        unsafe { ArcBorrow(NonNull::new_unchecked(self.as_ptr() as *mut T), PhantomData) }")])
mutant("arcunion_strong_count_wrong_variant_const", ["C04"], [("src/arc_union.rs", "ArcUnionBorrow::Second(arc) => ArcBorrow::strong_count(arc),", "ArcUnionBorrow::Second(_arc) => 1,")])

# ------------------------------------------------------------------ C07
mutant("iter_ctor_make_before_loop", ["C07", "C06"], [("src/header.rs",
    "        let inner = Arc::allocate_for_header_and_slice(num_items);\n\n        unsafe {\n            // Write the data.\n            //\n            // Note that any panics here",
    "        let inner = Arc::allocate_for_header_and_slice(num_items);\n        let early = Arc { p: inner, phantom: PhantomData };\n\n        unsafe {\n            // Write the data.\n            //\n            // Note that any panics here"),
    ("src/header.rs", "                \"ExactSizeIterator under-reported length\"\n            );\n        }\n\n        // Safety: ptr is valid & the inner structure is fully initialized\n        Arc {\n            p: inner,\n            phantom: PhantomData,\n        }",
     "                \"ExactSizeIterator under-reported length\"\n            );\n        }\n\n        early")])
mutant("iter_ctor_no_trailing_check", ["C07", "C06"], [("src/header.rs", "            assert!(\n                items.next().is_none(),\n                \"ExactSizeIterator under-reported length\"\n            );\n", "")])
mutant("iter_ctor_break_on_short", ["C07", "C06"], [("src/header.rs",
    "                ptr::write(\n                    current,\n                    items\n                        .next()\n                        .expect(\"ExactSizeIterator over-reported length\"),\n                );",
    "                match items.next() { Some(x) => ptr::write(current, x), None => break }")])
mutant("with_arc_mut_no_guard_on_unwind", ["C07", "C10"], [("src/thin_arc.rs",
    "        let mut guard = DropGuard {\n            transient,\n            this: self,\n        };\n\n        // Expose the transient Arc to the callback, which may clone it if it wants\n        // and forward the result to the user\n        let ret = f(&mut guard.transient);",
    "        let mut guard = ManuallyDrop::new(DropGuard {\n            transient,\n            this: self,\n        });\n\n        let ret = f(&mut guard.transient);\n        let guard = ManuallyDrop::into_inner(guard);")])
mutant("guard_drop_no_writeback", ["C07", "C10"], [("src/thin_arc.rs", "                self.this.ptr = self.transient.p.cast();", "                let _ = &self.this;")])
mutant("make_mut_assign_before_clone", ["C07", "C08", "C01"], [("src/arc.rs",
    "    pub fn make_mut(this: &mut Self) -> &mut T {\n        if !this.is_unique() {\n            // Another pointer exists; clone\n            *this = Arc::new(T::clone(this));\n        }",
    "    pub fn make_mut(this: &mut Self) -> &mut T {\n        if !this.is_unique() {\n            // Another pointer exists; clone\n            let old = unsafe { ptr::read(this) };\n            let new = Arc::new(T::clone(&old));\n            drop(old);\n            unsafe { ptr::write(this, new) };\n        }")])
mutant("alloc_no_null_check", ["C07", "C05"], [("src/arc.rs", "let ptr = NonNull::new(alloc::alloc::alloc(layout)).ok_or(())?;", "let ptr = NonNull::new_unchecked(alloc::alloc::alloc(layout));\n        if false { return Err(()); }")])
mutant("new_uninit_alloc_error_to_unwrap_unchecked", ["C07", "C05"], [("src/unique_arc.rs", "            let mut p = NonNull::new(ptr)\n                .unwrap_or_else(|| alloc::alloc::handle_alloc_error(layout))\n                .cast::<ArcInner<MaybeUninit<T>>>();", "            let mut p = NonNull::new_unchecked(ptr)\n                .cast::<ArcInner<MaybeUninit<T>>>();")])

# ------------------------------------------------------------------ C08
mutant("make_mut_clone_on_unique", ["C08", "C04"], [("src/arc.rs",
    "    pub fn make_mut(this: &mut Self) -> &mut T {\n        if !this.is_unique() {",
    "    pub fn make_mut(this: &mut Self) -> &mut T {\n        if this.is_unique() {")])
mutant("make_unique_never_clones", ["C08", "C03"], [("src/arc.rs",
    "    pub fn make_unique(this: &mut Self) -> &mut UniqueArc<T> {\n        if !this.is_unique() {\n            // Another pointer exists; clone\n            *this = Arc::new(T::clone(this));\n        }",
    "    pub fn make_unique(this: &mut Self) -> &mut UniqueArc<T> {\n        if !this.is_unique() {\n            let _ = T::clone(this);\n        }")])
mutant("make_mut_ref_before_redirect", ["C08", "C03"], [("src/arc.rs",
    "    pub fn make_mut(this: &mut Self) -> &mut T {\n        if !this.is_unique() {\n            // Another pointer exists; clone\n            *this = Arc::new(T::clone(this));\n        }\n\n        unsafe {",
    "    pub fn make_mut(this: &mut Self) -> &mut T {\n        let early: *mut T = unsafe { &mut (*this.ptr()).data };\n        if !this.is_unique() {\n            // Another pointer exists; clone\n            *this = Arc::new(T::clone(this));\n            return unsafe { &mut *early };\n        }\n\n        unsafe {")])
mutant("make_mut_forget_old", ["C08", "C01", "C04"], [("src/arc.rs",
    "    pub fn make_mut(this: &mut Self) -> &mut T {\n        if !this.is_unique() {\n            // Another pointer exists; clone\n            *this = Arc::new(T::clone(this));\n        }",
    "    pub fn make_mut(this: &mut Self) -> &mut T {\n        if !this.is_unique() {\n            // Another pointer exists; clone\n            let new = Arc::new(T::clone(this));\n            core::mem::forget(core::mem::replace(this, new));\n        }")])
mutant("offset_make_mut_stale_writeback", ["C08", "C01"], [("src/offset_arc.rs", "ptr::write(self, Arc::into_raw_offset(ManuallyDrop::into_inner(arc)));", "let _ = &arc;")])

# ------------------------------------------------------------------ C09
mutant("into_inner_double_destructor", ["C09", "C01"], [("src/unique_arc.rs", "unsafe { Box::from_raw(this.ptr()).data }", "unsafe { let v = ptr::read(&(*this.ptr()).data); drop(Box::from_raw(this.ptr())); v }")])
mutant("into_inner_leaks_block", ["C09", "C01"], [("src/unique_arc.rs", "unsafe { Box::from_raw(this.ptr()).data }", "unsafe { ptr::read(&(*this.ptr()).data) }")])
mutant("try_unique_returns_clone_on_decline", ["C09", "C03"], [("src/arc.rs", "            unsafe { Ok(UniqueArc::from_arc(this)) }\n        } else {\n            Err(this)\n        }", "            unsafe { Ok(UniqueArc::from_arc(this)) }\n        } else {\n            Err(this.clone())\n        }")])
mutant("try_unwrap_falls_back_to_into_inner", ["C09", "C03"], [("src/arc.rs", "Self::try_unique(this).map(UniqueArc::into_inner)", "Self::try_unique(this).map(UniqueArc::into_inner).or_else(|a| Ok::<T, Self>(UniqueArc::into_inner(unsafe { UniqueArc::from_arc(a) })))")])

# ------------------------------------------------------------------ C02
mutant("dec_relaxed", ["C02"], [("src/arc.rs", "fetch_sub(1, Release) != 1 {", "fetch_sub(1, Relaxed) != 1 {")])
mutant("no_acquire_load", ["C02"], [("src/arc.rs", "        self.inner().count.load(Acquire);\n\n        unsafe {\n            self.drop_slow();", "        unsafe {\n            self.drop_slow();")])
mutant("acquire_load_relaxed", ["C02"], [("src/arc.rs", "        self.inner().count.load(Acquire);\n\n        unsafe {", "        self.inner().count.load(Relaxed);\n\n        unsafe {")])
mutant("gate_on_reloaded_count", ["C02", "C01"], [("src/arc.rs", "if self.inner().count.fetch_sub(1, Release) != 1 {\n            return;\n        }", "self.inner().count.fetch_sub(1, Release);\n        if self.inner().count.load(Acquire) != 0 {\n            return;\n        }")])
mutant("count_store_shortcut", ["C02", "C01"], [("src/arc.rs", "        if this.is_unique() {\n            // Safety: The current arc is unique and making a `UniqueArc`\n            //         from it is sound\n            unsafe { Ok(UniqueArc::from_arc(this)) }", "        if this.is_unique() {\n            this.inner().count.store(1, Relaxed);\n            unsafe { Ok(UniqueArc::from_arc(this)) }")])
mutant("thin_own_decrement", ["C02", "C01"], [("src/thin_arc.rs", "        let _ = Arc::protected_from_thin(ThinArc {\n            ptr: self.ptr,\n            phantom: PhantomData,\n        });", "        unsafe {\n            if (*self.ptr.as_ptr()).count.fetch_sub(1, core::sync::atomic::Ordering::Release) == 1 {\n                (*self.ptr.as_ptr()).count.load(core::sync::atomic::Ordering::Acquire);\n                let _ = alloc::boxed::Box::from_raw(thin_to_thick(self));\n            }\n        }")])
benign("fence_instead_of_load", [("src/arc.rs", "        self.inner().count.load(Acquire);\n\n        unsafe {\n            self.drop_slow();", "        atomic::fence(Acquire);\n\n        unsafe {\n            self.drop_slow();")])
benign("acqrel_decrement_no_load", [("src/arc.rs", "fetch_sub(1, Release) != 1 {", "fetch_sub(1, atomic::Ordering::AcqRel) != 1 {"), ("src/arc.rs", "        self.inner().count.load(Acquire);\n\n        unsafe {\n            self.drop_slow();", "        unsafe {\n            self.drop_slow();")])
benign("seqcst_everywhere", [("src/arc.rs", "fetch_sub(1, Release) != 1 {", "fetch_sub(1, atomic::Ordering::SeqCst) != 1 {"), ("src/arc.rs", "fetch_add(1, Relaxed);", "fetch_add(1, atomic::Ordering::SeqCst);")])
benign("dec_gate_eq_form", [("src/arc.rs", "if self.inner().count.fetch_sub(1, Release) != 1 {\n            return;\n        }", "let last = self.inner().count.fetch_sub(1, Release) == 1;\n        if !last {\n            return;\n        }")])

# ------------------------------------------------------------------ C16
mutant("no_overflow_guard", ["C16"], [("src/arc.rs", "        if old_size > MAX_REFCOUNT {\n            abort();\n        }\n", "        let _ = old_size;\n")])
mutant("overflow_panics", ["C16"], [("src/arc.rs", "        if old_size > MAX_REFCOUNT {\n            abort();\n        }\n", "        if old_size > MAX_REFCOUNT {\n            panic!(\"refcount overflow\");\n        }\n")])
mutant("overflow_guard_usize_max", ["C16"], [("src/arc.rs", "const MAX_REFCOUNT: usize = (isize::MAX) as usize;", "const MAX_REFCOUNT: usize = usize::MAX - 1;")])
mutant("overflow_guard_reloaded", ["C16"], [("src/arc.rs", "        if old_size > MAX_REFCOUNT {", "        let _ = old_size;\n        if self.inner().count.load(Relaxed) > MAX_REFCOUNT {")])
mutant("handle_before_guard", ["C16"], [("src/arc.rs", "        if old_size > MAX_REFCOUNT {\n            abort();\n        }\n\n        unsafe {\n            Arc {\n                p: ptr::NonNull::new_unchecked(self.ptr()),\n                phantom: PhantomData,\n            }\n        }", "        let new = unsafe {\n            Arc {\n                p: ptr::NonNull::new_unchecked(self.ptr()),\n                phantom: PhantomData,\n            }\n        };\n        if old_size > MAX_REFCOUNT && old_size == usize::MAX {\n            abort();\n        }\n        new")])
mutant("clone_arc_own_fetch_add", ["C16", "C02", "C01"], [("src/arc_borrow.rs", "        let arc = unsafe { Arc::from_raw(self.0.as_ptr()) };\n        // addref it!\n        mem::forget(arc.clone());\n        arc", "        let arc = unsafe { Arc::from_raw(self.0.as_ptr()) };\n        arc.inner().count.fetch_add(1, core::sync::atomic::Ordering::Relaxed);\n        arc")])
mutant("nostd_abort_conditional_guard", ["C16"], [("src/lib.rs", "        fn drop(&mut self) {\n            panic!()\n        }", "        fn drop(&mut self) {\n            if core::mem::size_of::<usize>() == 2 { panic!() }\n        }")], features=["--no-default-features"])
mutant("add_two", ["C16", "C01", "C04"], [("src/arc.rs", "fetch_add(1, Relaxed);", "fetch_add(2, Relaxed);")])
benign("overflow_guard_ge", [("src/arc.rs", "if old_size > MAX_REFCOUNT {", "if old_size >= MAX_REFCOUNT + 1 {")])
benign("max_refcount_spelled", [("src/arc.rs", "const MAX_REFCOUNT: usize = (isize::MAX) as usize;", "const MAX_REFCOUNT: usize = usize::MAX >> 1;")])

# ------------------------------------------------------------------ C03
mutant("get_mut_no_gate", ["C03"], [("src/arc.rs", "    pub fn get_mut(this: &mut Self) -> Option<&mut T> {\n        if this.is_unique() {", "    pub fn get_mut(this: &mut Self) -> Option<&mut T> {\n        if this.is_unique() || Arc::strong_count(this) > 0 {")])
mutant("try_as_unique_no_gate", ["C03"], [("src/arc.rs", "    pub(crate) fn try_as_unique(this: &mut Self) -> Result<&mut UniqueArc<T>, &mut Self> {\n        if this.is_unique() {", "    pub(crate) fn try_as_unique(this: &mut Self) -> Result<&mut UniqueArc<T>, &mut Self> {\n        if !core::ptr::eq(this, core::ptr::null()) {")])
mutant("gate_le_2", ["C03"], [("src/arc.rs", "Self::count(self) == 1", "Self::count(self) <= 2")])
mutant("gate_ne_0", ["C03"], [("src/arc.rs", "Self::count(self) == 1", "Self::count(self) != 0")])
mutant("gate_relaxed", ["C03"], [("src/arc.rs", "Self::count(self) == 1", "Self::strong_count(self) == 1")])
mutant("count_load_relaxed", ["C03"], [("src/arc.rs", "this.inner().count.load(Acquire)\n    }", "this.inner().count.load(Relaxed)\n    }")])
mutant("safe_deref_mut_for_arc", ["C03"], [("src/arc.rs", "impl<T: Clone> Arc<T> {\n    /// Makes a mutable reference to the `Arc`, cloning if necessary", "impl<T: ?Sized> core::ops::DerefMut for Arc<T> {\n    fn deref_mut(&mut self) -> &mut T {\n        unsafe { &mut (*self.ptr()).data }\n    }\n}\n\nimpl<T: Clone> Arc<T> {\n    /// Makes a mutable reference to the `Arc`, cloning if necessary")])
mutant("must_be_unique_returns_on_decline", ["C03", "C15"], [("src/arc.rs", "        Err(this) => panic!(\"`Arc` must be unique in order for this operation to be safe, there are currently {} copies\", Arc::count(this)),", "        Err(this) => unsafe { UniqueArc::from_arc_ref(this) },")])
mutant("arc_write_before_check", ["C03", "C15"], [("src/arc.rs", "        UniqueArc::write(must_be_unique(self), val)", "        unsafe { let p = self.as_mut_ptr() as *mut T; p.write(val); let _ = must_be_unique(self); &mut *p }")])
mutant("make_unique_gate_inverted", ["C03", "C08"], [("src/arc.rs", "    pub fn make_unique(this: &mut Self) -> &mut UniqueArc<T> {\n        if !this.is_unique() {", "    pub fn make_unique(this: &mut Self) -> &mut UniqueArc<T> {\n        if this.is_unique() {")])
mutant("try_unique_gate_dropped", ["C03", "C09"], [("src/arc.rs", "    pub fn try_unique(this: Self) -> Result<UniqueArc<T>, Self> {\n        if this.is_unique() {", "    pub fn try_unique(this: Self) -> Result<UniqueArc<T>, Self> {\n        if Arc::strong_count(&this) >= 1 {")])
benign("gate_inlined_count_eq", [("src/arc.rs", "    pub fn get_mut(this: &mut Self) -> Option<&mut T> {\n        if this.is_unique() {", "    pub fn get_mut(this: &mut Self) -> Option<&mut T> {\n        let unique = this.is_unique();\n        if unique {")])
benign("get_mut_match_form", [("src/arc.rs", "        if this.is_unique() {\n            unsafe {\n                // See make_mut() for documentation of the threadsafety here.\n                Some(&mut (*this.ptr()).data)\n            }\n        } else {\n            None\n        }", "        match this.is_unique() {\n            false => None,\n            true => unsafe { Some(&mut (*this.ptr()).data) },\n        }")])

# ------------------------------------------------------------------ C14
mutant("revert_fix_arcborrow_derive", ["C14"], [("src/arc_borrow.rs", "#[repr(transparent)]\npub struct ArcBorrow<'a, T: ?Sized + 'a>", "#[derive(Debug, Eq, PartialEq)]\n#[repr(transparent)]\npub struct ArcBorrow<'a, T: ?Sized + 'a>"),
    ("src/arc_borrow.rs", "impl<'a, T: ?Sized + PartialEq + 'a> PartialEq for ArcBorrow<'a, T> {\n    #[inline]\n    fn eq(&self, other: &Self) -> bool {\n        unsafe { *self.0.as_ptr() == *other.0.as_ptr() }\n    }\n}\n\nimpl<'a, T: ?Sized + Eq + 'a> Eq for ArcBorrow<'a, T> {}\n\nimpl<'a, T: ?Sized + fmt::Debug + 'a> fmt::Debug for ArcBorrow<'a, T> {\n    fn fmt(&self, f: &mut fmt::Formatter) -> fmt::Result {\n        fmt::Debug::fmt(unsafe { &*self.0.as_ptr() }, f)\n    }\n}\n", ""),
    ("src/arc_borrow.rs", "use core::fmt;\n", "")])
mutant("revert_fix_hwl_ordering", ["C14"], [("src/header.rs", "(&self.header.header, &self.slice, &self.header.length).cmp(&(\n            &other.header.header,\n            &other.slice,\n            &other.header.length,\n        ))", "(&self.header.header, &self.slice).cmp(&(&other.header.header, &other.slice))")])
mutant("arc_cmp_pointers", ["C14"], [("src/arc.rs", "    fn cmp(&self, other: &Arc<T>) -> Ordering {\n        (**self).cmp(&**other)", "    fn cmp(&self, other: &Arc<T>) -> Ordering {\n        (self.ptr() as *const () as usize).cmp(&(other.ptr() as *const () as usize))")])
mutant("arc_cmp_nonnull", ["C14"], [("src/arc.rs", "    fn cmp(&self, other: &Arc<T>) -> Ordering {\n        (**self).cmp(&**other)", "    fn cmp(&self, other: &Arc<T>) -> Ordering {\n        self.p.cast::<()>().cmp(&other.p.cast::<()>())")])
mutant("thin_hash_header_only", ["C14"], [("src/thin_arc.rs", "ThinArc::with_arc(self, |a| a.hash(state))", "ThinArc::with_arc(self, |a| a.header.hash(state))")])
mutant("offset_ne_pointer", ["C14"], [("src/offset_arc.rs", "    fn ne(&self, other: &OffsetArc<T>) -> bool {\n        *(*self) != *(*other)", "    fn ne(&self, other: &OffsetArc<T>) -> bool {\n        self.ptr != other.ptr")])
mutant("arc_lt_via_le", ["C14"], [("src/arc.rs", "        *(*self) < *(*other)", "        *(*self) <= *(*other)")])
mutant("display_via_debug", ["C14"], [("src/arc.rs", "impl<T: ?Sized + fmt::Display> fmt::Display for Arc<T> {\n    fn fmt(&self, f: &mut fmt::Formatter) -> fmt::Result {\n        fmt::Display::fmt(&**self, f)", "impl<T: ?Sized + fmt::Display + fmt::Debug> fmt::Display for Arc<T> {\n    fn fmt(&self, f: &mut fmt::Formatter) -> fmt::Result {\n        fmt::Debug::fmt(&**self, f)")])
mutant("arc_eq_requires_same_alloc", ["C14"], [("src/arc.rs", "Self::ptr_eq(self, other) || *(*self) == *(*other)", "Self::ptr_eq(self, other) && *(*self) == *(*other)")])
mutant("arc_ne_only_pointer", ["C14"], [("src/arc.rs", "!Self::ptr_eq(self, other) && *(*self) != *(*other)", "!Self::ptr_eq(self, other) || *(*self) != *(*other)")])
mutant("arc_debug_prints_pointer", ["C14"], [("src/arc.rs", "impl<T: ?Sized + fmt::Debug> fmt::Debug for Arc<T> {\n    fn fmt(&self, f: &mut fmt::Formatter) -> fmt::Result {\n        fmt::Debug::fmt(&**self, f)", "impl<T: ?Sized + fmt::Debug> fmt::Debug for Arc<T> {\n    fn fmt(&self, f: &mut fmt::Formatter) -> fmt::Result {\n        fmt::Debug::fmt(&self.p, f)")])
mutant("hwl_hash_skips_length_manual", ["C14"], [("src/header.rs", "#[derive(Debug, Copy, Clone, Eq, PartialEq, Hash)]\n#[repr(C)]\npub struct HeaderWithLength<H> {", "#[derive(Debug, Copy, Clone, Eq, PartialEq)]\n#[repr(C)]\npub struct HeaderWithLength<H> {"), ("src/header.rs", "impl<H> HeaderWithLength<H> {\n    /// Creates a new HeaderWithLength.", "impl<H: core::hash::Hash> core::hash::Hash for HeaderWithLength<H> {\n    fn hash<S: core::hash::Hasher>(&self, s: &mut S) { self.header.hash(s); 0usize.hash(s) }\n}\n\nimpl<H> HeaderWithLength<H> {\n    /// Creates a new HeaderWithLength.")])
mutant("borrow_returns_other", ["C14"], [("src/arc.rs", "impl<T: ?Sized> AsRef<T> for Arc<T> {\n    #[inline]\n    fn as_ref(&self) -> &T {\n        self\n    }", "impl<T: ?Sized> AsRef<T> for Arc<T> {\n    #[inline]\n    fn as_ref(&self) -> &T {\n        unsafe { &*(self.as_ptr()) }\n    }")])
benign("thin_eq_ptr_shortcut_via_arc", [("src/thin_arc.rs", "ThinArc::with_arc(self, |a| ThinArc::with_arc(other, |b| *a == *b))", "ThinArc::with_arc(self, |a| ThinArc::with_arc(other, |b| Arc::ptr_eq(a, b) || *a == *b))")])
benign("arc_partial_cmp_via_deref_call", [("src/arc.rs", "        (**self).partial_cmp(&**other)", "        PartialOrd::partial_cmp(Deref::deref(self), Deref::deref(other))")])

# ------------------------------------------------------------------ C17
mutant("serialize_header_only_unique", ["C17"], [("src/arc.rs", "        S: ::serde::ser::Serializer,\n    {\n        (**self).serialize(serializer)", "        S: ::serde::ser::Serializer,\n    {\n        let r = (**self).serialize(serializer);\n        if r.is_err() { let _ = Arc::strong_count(self); }\n        r.map_err(|e| e)")])
mutant("serialize_as_newtype", ["C17"], [("src/unique_arc.rs", "        S: ::serde::ser::Serializer,\n    {\n        (**self).serialize(serializer)", "        S: ::serde::ser::Serializer,\n    {\n        serializer.serialize_newtype_struct(\"UniqueArc\", &**self)")])
mutant("deserialize_map_err_rewrites", ["C17"], [("src/arc.rs", "T::deserialize(deserializer).map(Arc::new)", "T::deserialize(deserializer).map(Arc::new).map_err(|_e| <D::Error as ::serde::de::Error>::custom(\"bad arc\"))")])
mutant("deserialize_alloc_first", ["C17"], [("src/arc.rs", "T::deserialize(deserializer).map(Arc::new)", "{ let mut slot = UniqueArc::<T>::new_uninit(); let v = T::deserialize(deserializer)?; slot.write(v); Ok(unsafe { UniqueArc::assume_init(slot) }.shareable()) }")])
mutant("deserialize_unique_shared_cache", ["C17"], [("src/unique_arc.rs", "T::deserialize(deserializer).map(UniqueArc::new)", "T::deserialize(deserializer).map(|v| { let a = Arc::new(v); let b = a.clone(); core::mem::forget(b); UniqueArc(a) })")])
benign("deserialize_closure_form", [("src/arc.rs", "T::deserialize(deserializer).map(Arc::new)", "T::deserialize(deserializer).map(|v| Arc::new(v))")])

# ------------------------------------------------------------------ C12
mutant("from_second_no_tag", ["C12"], [("src/arc_union.rs", "unsafe { Self::new(((Arc::into_raw(other) as usize) | 0x1) as *mut _) }", "unsafe { Self::new(((Arc::into_raw(other) as usize) | 0x0) as *mut _) }")])
mutant("borrow_no_strip", ["C12"], [("src/arc_union.rs", "let ptr = ((self.p.as_ptr() as usize) & !0x1) as *const B;", "let ptr = ((self.p.as_ptr() as usize) & !0x0) as *const B;")])
benign("strip_mask_3_harmless_given_alignment", [("src/arc_union.rs", "let ptr = ((self.p.as_ptr() as usize) & !0x1) as *const B;", "let ptr = ((self.p.as_ptr() as usize) & !0x3) as *const B;")])
mutant("is_first_test_eq_1", ["C12"], [("src/arc_union.rs", "self.p.as_ptr() as usize & 0x1 == 0", "self.p.as_ptr() as usize & 0x1 == 1")])
mutant("is_first_mask_2", ["C12"], [("src/arc_union.rs", "self.p.as_ptr() as usize & 0x1 == 0", "self.p.as_ptr() as usize & 0x2 == 0")])
mutant("clone_second_as_first", ["C12"], [("src/arc_union.rs", "ArcUnionBorrow::Second(x) => ArcUnion::from_second(x.clone_arc()),", "ArcUnionBorrow::Second(x) => unsafe { ArcUnion::new(Arc::into_raw(x.clone_arc()) as *mut _) },")])
mutant("as_second_swapped", ["C12"], [("src/arc_union.rs", "            ArcUnionBorrow::First(_) => None,\n            ArcUnionBorrow::Second(x) => Some(x),", "            ArcUnionBorrow::First(_) => None,\n            ArcUnionBorrow::Second(_x) => None,")])
mutant("union_eq_mixed_true", ["C12", "C14"], [("src/arc_union.rs", "            (_, _) => false,", "            (_, _) => ArcUnion::ptr_eq(self, other) || true,")])
mutant("arcinner_not_repr_c", ["C12", "C05"], [("src/arc.rs", "#[repr(C)]\npub(crate) struct ArcInner<T: ?Sized> {", "pub(crate) struct ArcInner<T: ?Sized> {")])
benign("strip_mask_equivalent_const", [("src/arc_union.rs", "let ptr = ((self.p.as_ptr() as usize) & !0x1) as *const B;", "let ptr = ((self.p.as_ptr() as usize) & (usize::MAX - 1)) as *const B;")])
benign("tag_by_add", [("src/arc_union.rs", "unsafe { Self::new(((Arc::into_raw(other) as usize) | 0x1) as *mut _) }", "unsafe { Self::new(((Arc::into_raw(other) as usize) + 1) as *mut _) }")])

# ------------------------------------------------------------------ C13
mutant("arc_send_needs_only_send", ["C13"], [("src/arc.rs", "unsafe impl<T: ?Sized + Sync + Send> Send for Arc<T> {}", "unsafe impl<T: ?Sized + Send> Send for Arc<T> {}")])
mutant("thin_sync_drops_h", ["C13"], [("src/thin_arc.rs", "unsafe impl<H: Sync + Send, T: Sync + Send> Sync for ThinArc<H, T> {}", "unsafe impl<H, T: Sync + Send> Sync for ThinArc<H, T> {}")])
mutant("unique_sync_for_send", ["C13"], [("src/unique_arc.rs", "unsafe impl<T: ?Sized + Sync> Sync for UniqueArc<T> {}", "unsafe impl<T: ?Sized + Send> Sync for UniqueArc<T> {}")])
mutant("borrow_arc_static", ["C13"], [("src/arc.rs", "    pub fn borrow_arc(&self) -> ArcBorrow<'_, T> {", "    pub fn borrow_arc(&self) -> ArcBorrow<'static, T> {")])
mutant("arcborrow_get_static", ["C13"], [("src/arc_borrow.rs", "    pub fn get(&self) -> &'a T {\n        unsafe { &*self.0.as_ptr() }", "    pub fn get<'b>(&self) -> &'b T {\n        unsafe { &*self.0.as_ptr() }")])
mutant("with_arc_leaky_signature", ["C13"], [("src/arc_borrow.rs", "    pub fn with_arc<F, U>(&self, f: F) -> U\n    where\n        F: FnOnce(&Arc<T>) -> U,\n    {", "    pub fn with_arc<'s, F, U>(&'s self, f: F) -> U\n    where\n        F: FnOnce(&'s Arc<T>) -> U,\n    {"), ("src/arc_borrow.rs", "        let transient = unsafe { ManuallyDrop::new(Arc::from_raw(self.0.as_ptr())) };\n\n        // Expose the transient Arc to the callback, which may clone it if it wants\n        // and forward the result to the user\n        f(&transient)\n    }\n\n    /// Similar to deref", "        let transient = unsafe { ManuallyDrop::new(Arc::from_raw(self.0.as_ptr())) };\n        f(unsafe { &*(&*transient as *const Arc<T>) })\n    }\n\n    /// Similar to deref"), ("src/arc_borrow.rs", "Self::with_arc(this, |arc| Arc::strong_count(arc))", "this.with_arc(|arc| Arc::strong_count(arc))")])
mutant("arc_phantom_not_owning_under_eyepatch", ["C13"], [("src/arc.rs", "    pub(crate) phantom: PhantomData<T>,\n}", "    pub(crate) phantom: PhantomData<*const T>,\n}")], features=["--all-features"], toolchain="+nightly")
benign("offsetarc_phantom_ptr_harmless_without_may_dangle", [("src/offset_arc.rs", "    pub(crate) phantom: PhantomData<T>,\n}\n\nunsafe impl<T: Sync + Send> Send for OffsetArc<T> {}", "    pub(crate) phantom: PhantomData<*const T>,\n}\n\nunsafe impl<T: Sync + Send> Send for OffsetArc<T> {}")])
mutant("arcunion_extra_send_impl_bounds_swapped", ["C13"], [("src/arc_union.rs", "unsafe impl<A: Sync + Send, B: Send + Sync> Send for ArcUnion<A, B> {}", "unsafe impl<A: Sync + Send, B: Send> Send for ArcUnion<A, B> {}")])
mutant("get_mut_returns_longer_lifetime", ["C13"], [("src/arc.rs", "    pub fn get_mut(this: &mut Self) -> Option<&mut T> {", "    pub fn get_mut<'x, 'y>(this: &'x mut Self) -> Option<&'y mut T> {")])

# ------------------------------------------------------------------ C05
mutant("alloc_no_outer_pad", ["C05"], [("src/arc.rs", "        let layout = Layout::new::<ArcInner<()>>()\n            .extend(value_layout)\n            .unwrap()\n            .0\n            .pad_to_align();\n\n        let ptr = NonNull::new", "        let layout = Layout::new::<ArcInner<()>>()\n            .extend(value_layout)\n            .unwrap()\n            .0;\n\n        let ptr = NonNull::new")])
mutant("header_slice_len_plus_one_short", ["C05"], [("src/arc.rs", ".extend(Layout::array::<T>(len).unwrap())", ".extend(Layout::array::<T>(len.saturating_sub(1)).unwrap())")])
benign("header_and_array_swapped_same_total", [("src/arc.rs", "        let layout = Layout::new::<H>()\n            .extend(Layout::array::<T>(len).unwrap())\n            .unwrap()\n            .0\n            .pad_to_align();", "        let layout = Layout::array::<T>(len).unwrap()\n            .extend(Layout::new::<H>())\n            .unwrap()\n            .0\n            .pad_to_align();")])
mutant("new_uninit_layout_without_count", ["C05"], [("src/unique_arc.rs", "let layout = Layout::new::<ArcInner<MaybeUninit<T>>>();", "let layout = Layout::new::<MaybeUninit<T>>();")])
mutant("headerslice_not_repr_c", ["C05"], [("src/header.rs", "#[derive(Debug, Copy, Clone, Eq, PartialEq, Hash, PartialOrd, Ord)]\n#[repr(C)]\npub struct HeaderSlice<H, T: ?Sized> {", "#[derive(Debug, Copy, Clone, Eq, PartialEq, Hash, PartialOrd, Ord)]\npub struct HeaderSlice<H, T: ?Sized> {")])
mutant("array_layout_wrapping_mul", ["C05"], [("src/arc.rs", ".extend(Layout::array::<T>(len).unwrap())", ".extend(unsafe { Layout::from_size_align_unchecked(core::mem::size_of::<T>().wrapping_mul(len), core::mem::align_of::<T>()) })")])
mutant("count_prefix_u32", ["C05"], [("src/arc.rs", "        let layout = Layout::new::<ArcInner<()>>()\n            .extend(value_layout)\n            .unwrap()\n            .0\n            .pad_to_align();\n\n        let ptr = NonNull::new", "        let layout = Layout::new::<u32>()\n            .extend(value_layout)\n            .unwrap()\n            .0\n            .pad_to_align();\n\n        let ptr = NonNull::new")])
mutant("offset_of_data_hardwired_8", ["C05", "C11"], [("src/arc.rs", "        let layout = Layout::new::<atomic::AtomicUsize>();\n        let (_, offset) = layout.extend(Layout::for_value(value)).unwrap();\n        offset", "        let _ = value;\n        core::mem::size_of::<usize>()")])
mutant("protected_not_transparent", ["C05", "C10"], [("src/header.rs", "#[derive(Debug, Hash, Eq, PartialEq, Ord, PartialOrd)]\n#[repr(transparent)]\npub struct HeaderSliceWithLengthProtected<H, T> {", "#[derive(Debug, Hash, Eq, PartialEq, Ord, PartialOrd)]\npub struct HeaderSliceWithLengthProtected<H, T> {")])
benign("inner_pad_removed", [("src/arc.rs", "        let layout = Layout::new::<H>()\n            .extend(Layout::array::<T>(len).unwrap())\n            .unwrap()\n            .0\n            .pad_to_align();", "        let layout = Layout::new::<H>()\n            .extend(Layout::array::<T>(len).unwrap())\n            .unwrap()\n            .0;")])
benign("count_prefix_usize", [("src/arc.rs", "        let layout = Layout::new::<ArcInner<()>>()\n            .extend(value_layout)\n            .unwrap()\n            .0\n            .pad_to_align();\n\n        let ptr = NonNull::new", "        let layout = Layout::new::<usize>()\n            .extend(value_layout)\n            .expect(\"layout\")\n            .0\n            .pad_to_align();\n\n        let ptr = NonNull::new")])

# ------------------------------------------------------------------ C11
mutant("as_ptr_through_reference", ["C11"], [("src/arc.rs", "unsafe { ptr::addr_of_mut!((*self.ptr()).data) }", "&self.inner().data as *const T")])
mutant("from_raw_hardwired_offset", ["C11", "C05"], [("src/arc.rs", "let arc_inner_ptr = ptr.byte_sub(offset_of_data);", "let _ = offset_of_data;\n        let arc_inner_ptr = ptr.byte_sub(core::mem::size_of::<usize>());")])
mutant("refcnt_as_ptr_block", ["C11"], [("src/arc_swap_support.rs", "    fn as_ptr(me: &Self) -> *mut Self::Base {\n        Arc::as_ptr(me) as *mut _", "    fn as_ptr(me: &Self) -> *mut Self::Base {\n        Arc::heap_ptr(me) as *mut _")], features=["--all-features"], toolchain="+nightly")
mutant("arc_not_transparent", ["C11"], [("src/arc.rs", "#[repr(transparent)]\npub struct Arc<T: ?Sized> {", "pub struct Arc<T: ?Sized> {")])
mutant("heap_ptr_returns_data", ["C11"], [("src/arc.rs", "        self.p.as_ptr() as *const ArcInner<T> as *const c_void", "        self.as_ptr() as *const c_void")])
mutant("borrow_arc_stores_block", ["C11", "C01"], [("src/arc.rs", "unsafe { ArcBorrow(NonNull::new_unchecked(self.as_ptr() as *mut T), PhantomData) }", "unsafe { ArcBorrow(NonNull::new_unchecked(self.ptr() as *mut T), PhantomData) }")])
benign("offsetarc_retarget_api_harmless", [("src/offset_arc.rs", "    /// Clone it as an `Arc`\n    #[inline]\n    pub fn clone_arc(&self) -> Arc<T> {", "    /// Re-point\n    pub fn retarget(&mut self, other: OffsetArc<T>) {\n        let old = core::mem::replace(&mut self.ptr, other.ptr);\n        core::mem::forget(other);\n        drop(OffsetArc { ptr: old, phantom: PhantomData::<T> });\n    }\n\n    /// Clone it as an `Arc`\n    #[inline]\n    pub fn clone_arc(&self) -> Arc<T> {")])
benign("as_ptr_addr_of_const", [("src/arc.rs", "unsafe { ptr::addr_of_mut!((*self.ptr()).data) }", "unsafe { ptr::addr_of!((*self.ptr()).data) }")])

# ------------------------------------------------------------------ C10
mutant("into_thin_no_assert", ["C10"], [("src/thin_arc.rs", "        assert_eq!(\n            a.header.length,\n            a.slice.len(),\n            \"Length needs to be correct for ThinArc to work\"\n        );\n        // Safety: invariant checked in assertion above", "        // Safety: invariant checked in assertion above")])
mutant("into_thin_assert_wrong_things", ["C10"], [("src/thin_arc.rs", "        assert_eq!(\n            a.header.length,\n            a.slice.len(),\n            \"Length needs to be correct for ThinArc to work\"\n        );\n        // Safety: invariant checked in assertion above", "        assert_eq!(\n            a.slice.len(),\n            a.slice.len(),\n            \"Length needs to be correct for ThinArc to work\"\n        );\n        // Safety: invariant checked in assertion above")])
mutant("into_thin_assert_le", ["C10"], [("src/thin_arc.rs", "        assert_eq!(\n            a.header.length,\n            a.slice.len(),\n            \"Length needs to be correct for ThinArc to work\"\n        );\n        // Safety: invariant checked in assertion above", "        assert!(\n            a.header.length <= a.slice.len(),\n            \"Length needs to be correct for ThinArc to work\"\n        );\n        // Safety: invariant checked in assertion above")])
mutant("protected_length_mut", ["C10"], [("src/header.rs", "    pub fn length(&self) -> usize {\n        self.inner.header.length\n    }", "    pub fn length(&self) -> usize {\n        self.inner.header.length\n    }\n    pub fn header_and_length_mut(&mut self) -> &mut HeaderWithLength<H> {\n        &mut self.inner.header\n    }")])
mutant("protected_inner_mut", ["C10"], [("src/header.rs", "    pub(crate) fn inner(&self) -> &HeaderSliceWithLengthUnchecked<H, T> {", "    pub fn inner_mut(&mut self) -> &mut HeaderSliceWithLengthUnchecked<H, T> {\n        &mut self.inner\n    }\n    pub(crate) fn inner(&self) -> &HeaderSliceWithLengthUnchecked<H, T> {")])
mutant("thin_to_thick_wrong_length_source", ["C10"], [("src/thin_arc.rs", "    let len = unsafe { (*thin).data.header.length };", "    let len = unsafe { (*thin).data.header.length.min(core::mem::size_of::<H>()) };")])
mutant("safe_from_unprotected", ["C10"], [("src/thin_arc.rs", "    unsafe fn from_unprotected_unchecked(a: Arc<HeaderSliceWithLengthUnchecked<H, T>>) -> Self {", "    pub fn from_unprotected(a: Arc<HeaderSliceWithLengthUnchecked<H, T>>) -> Self {\n        unsafe { Self::from_unprotected_unchecked(a) }\n    }\n\n    unsafe fn from_unprotected_unchecked(a: Arc<HeaderSliceWithLengthUnchecked<H, T>>) -> Self {")])
mutant("protected_deref_mut", ["C10"], [("src/header.rs", "impl<H: PartialOrd, T: ?Sized + PartialOrd> PartialOrd for HeaderSlice<HeaderWithLength<H>, T> {", "impl<H, T> core::ops::Deref for HeaderSliceWithLengthProtected<H, T> {\n    type Target = HeaderSliceWithLengthUnchecked<H, T>;\n    fn deref(&self) -> &Self::Target { &self.inner }\n}\nimpl<H, T> core::ops::DerefMut for HeaderSliceWithLengthProtected<H, T> {\n    fn deref_mut(&mut self) -> &mut Self::Target { &mut self.inner }\n}\n\nimpl<H: PartialOrd, T: ?Sized + PartialOrd> PartialOrd for HeaderSlice<HeaderWithLength<H>, T> {")])
mutant("from_thin_clones", ["C10", "C04", "C01"], [("src/thin_arc.rs", "        Self::from_protected(Arc::<HeaderSliceWithLengthProtected<H, T>>::protected_from_thin(a))", "        let t = a.clone();\n        core::mem::forget(a);\n        Self::from_protected(Arc::<HeaderSliceWithLengthProtected<H, T>>::protected_from_thin(t))")])
benign("into_thin_if_panic_form", [("src/thin_arc.rs", "        assert_eq!(\n            a.header.length,\n            a.slice.len(),\n            \"Length needs to be correct for ThinArc to work\"\n        );\n        // Safety: invariant checked in assertion above", "        if a.header.length != a.slice.len() {\n            panic!(\"Length needs to be correct for ThinArc to work\");\n        }\n        // Safety: invariant checked in assertion above")])
