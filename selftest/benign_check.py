#!/usr/bin/env python3
"""Run every check (quick tier) against behaviour-preserving patches: any check that fires is a false alarm to triage.

usage: benign_check.py <patch.diff>...   (each applied alone to a scratch copy of /repo)"""
import os
import shutil
import subprocess
import sys
import tempfile
from concurrent.futures import ThreadPoolExecutor

VERIF = os.path.dirname(os.path.dirname(os.path.abspath(__file__)))


def one(diff):
    tmp = tempfile.mkdtemp(prefix="benign-")
    out = []
    try:
        S = os.path.join(tmp, "repo")
        shutil.copytree("/repo", S, ignore=shutil.ignore_patterns("target"))
        r = subprocess.run(["git", "apply", os.path.abspath(diff)], cwd=S, stdout=subprocess.PIPE, stderr=subprocess.STDOUT, text=True)
        if r.returncode != 0:
            return diff, None, ["PATCH DOES NOT APPLY: " + r.stdout[:200]]
        fired = []
        for n in range(1, 18):
            p = "C%02d" % n
            e = dict(os.environ)
            e.update({"VERIF_REPO": S, "VERIF_EVIDENCE_DIR": os.path.join(tmp, "ev"), "VERIF_REPORTS_DIR": os.path.join(tmp, "rp"), "CARGO_NET_OFFLINE": "true"})
            r = subprocess.run([os.path.join(VERIF, "check"), p], cwd=VERIF, env=e, stdout=subprocess.PIPE, stderr=subprocess.STDOUT, text=True)
            if r.returncode != 0:
                fired.append(p)
                out += [l[:400] for l in r.stdout.splitlines() if l.startswith("[")][:4]
        return diff, fired, out
    finally:
        shutil.rmtree(tmp, ignore_errors=True)


def main():
    diffs = sys.argv[1:]
    bad = 0
    with ThreadPoolExecutor(max_workers=4) as ex:
        for diff, fired, out in ex.map(one, diffs):
            if fired is None:
                print("SKIP        ", diff, out[0])
            elif fired:
                bad += 1
                print("FALSE-ALARM ", diff, fired)
                for l in out:
                    print("      ", l)
            else:
                print("SILENT      ", diff)
    print("%d patches, %d with alarms" % (len(diffs), bad))
    return 0


if __name__ == "__main__":
    sys.exit(main())
