#!/usr/bin/env python3
"""Writes seeded/README.md from the meta.json files."""
import json
import os

VERIF = os.path.dirname(os.path.dirname(os.path.abspath(__file__)))
rows = []
for name in sorted(os.listdir(os.path.join(VERIF, "seeded"))):
    p = os.path.join(VERIF, "seeded", name, "meta.json")
    if os.path.isfile(p):
        m = json.load(open(p))
        first = (m.get("description") or "").strip().split("\n")[0][:160]
        demo = "; ".join("%s: %s with patch / %s without" % (k, v["with_patch"], v["without_patch"]) for k, v in m["demonstration"].items())
        rows.append((name, m["property"], first, demo, "pass" if m["existing_tests_pass_with_patch"] else "FAIL", ", ".join(sorted(m["checks_that_fire"])), "yes" if m["detected_by_target_property_check"] else "NO"))
with open(os.path.join(VERIF, "seeded", "README.md"), "w") as f:
    f.write("# Seeded changes (written by sub-agents that saw only a property's text and a scratch worktree)\n\n")
    f.write("Each directory holds `patch.diff`, the demonstration and `meta.json` (what it breaks, what it needs to manifest, what was run).\n")
    f.write("Confirmed on scratch copies by `selftest/seed_verify.py`: the patch applies, the crate's own tests still pass, the demonstration fails with the patch and passes without; then all 17 checks were run against the patched copy (`selftest/seed_recheck.py` refreshes the last column).\n\n")
    f.write("| seeded change | property | existing tests | demonstration | checks that fire | caught by its property's check |\n|---|---|---|---|---|---|\n")
    for r in rows:
        f.write("| %s | %s | %s | %s | %s | %s |\n" % (r[0], r[1], r[4], r[3], r[5], r[6]))
    f.write("\n## What each change is\n\n")
    for r in rows:
        f.write("* **%s** (%s): %s\n" % (r[0], r[1], r[2]))
print("wrote seeded/README.md with %d rows" % len(rows))
