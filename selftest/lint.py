#!/usr/bin/env python3
"""Undefined-name check for the analysis package (no linter is installed in the sandbox): names a function reads as globals
must be defined at module level or be builtins. Catches the `NameError`s that only fire on trees where a rule finds something."""
import builtins
import os
import symtable
import sys

ROOT = os.path.join(os.path.dirname(os.path.dirname(os.path.abspath(__file__))), "analysis")


def check(path):
    src = open(path).read()
    top = symtable.symtable(src, path, "exec")
    module_names = set(s.get_name() for s in top.get_symbols() if s.is_assigned() or s.is_imported() or s.is_namespace())
    bad = []

    def walk(tab):
        for s in tab.get_symbols():
            if tab.get_type() != "module" and s.is_global() and s.is_referenced() and not s.is_assigned():
                n = s.get_name()
                if n not in module_names and not hasattr(builtins, n):
                    bad.append((tab.get_name(), tab.get_lineno(), n))
        for c in tab.get_children():
            walk(c)

    walk(top)
    return bad


def main():
    n = 0
    for d, _ds, fs in os.walk(ROOT):
        for f in fs:
            if f.endswith(".py"):
                for fn, line, name in check(os.path.join(d, f)):
                    n += 1
                    print("%s: in %s (line %d): undefined name %s" % (os.path.relpath(os.path.join(d, f), ROOT), fn, line, name))
    print("%d undefined names" % n)
    return 1 if n else 0


if __name__ == "__main__":
    sys.exit(main())
