//@ property: C11
//@ what: every handle type is one pointer wide (two for slice/str/trait-object payloads) and Option of it is the same size
#![allow(unused, dead_code)]
use core::mem::size_of;
use triomphe::*;
#[repr(align(64))] struct Big([u8; 64]);
trait Tr { fn f(&self) {} }
const W: usize = size_of::<usize>();
macro_rules! one_word { ($($t:ty),* $(,)?) => { $( const _: () = assert!(size_of::<$t>() == W && size_of::<Option<$t>>() == W); )* } }
macro_rules! two_words { ($($t:ty),* $(,)?) => { $( const _: () = assert!(size_of::<$t>() == 2 * W && size_of::<Option<$t>>() == 2 * W); )* } }
one_word!(Arc<()>, Arc<u8>, Arc<u64>, Arc<[u8; 3]>, Arc<Big>, Arc<String>,
          OffsetArc<()>, OffsetArc<u8>, OffsetArc<Big>, OffsetArc<String>,
          ArcBorrow<'static, ()>, ArcBorrow<'static, u8>, ArcBorrow<'static, Big>,
          UniqueArc<()>, UniqueArc<u8>, UniqueArc<Big>, UniqueArc<String>,
          ThinArc<(), u8>, ThinArc<u8, u64>, ThinArc<Big, u8>, ThinArc<u8, Big>, ThinArc<String, String>,
          ArcUnion<u8, u8>, ArcUnion<(), Big>, ArcUnion<String, u64>, ArcUnion<Big, ()>);
two_words!(Arc<[u8]>, Arc<[Big]>, Arc<str>, Arc<dyn Tr>, Arc<HeaderSlice<u8, [u64]>>, Arc<HeaderSlice<Big, str>>,
           ArcBorrow<'static, [u8]>, ArcBorrow<'static, str>, ArcBorrow<'static, dyn Tr>,
           UniqueArc<[u8]>, UniqueArc<str>, UniqueArc<dyn Tr>);
fn generic<T, H>() {
    // for all sized payloads (checked when instantiated; the repr(transparent) facts make it payload-independent)
    let _ = [(); 0 - !(size_of::<usize>() == size_of::<*const u8>()) as usize];
}
