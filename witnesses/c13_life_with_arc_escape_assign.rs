//@ property: C13
//@ what: the &Arc lent to a with_arc-style callback cannot be smuggled out by assignment
#![allow(unused, dead_code, deprecated)]
use triomphe::*;
fn is_send<T: ?Sized + Send>() {}
fn is_sync<T: ?Sized + Sync>() {}
fn borrow_with_arc() { let a = Arc::new(1u32); let b = a.borrow_arc(); let mut out: Option<&Arc<u32>> = None;
    b.with_arc(|x| { out = Some(x); }); //~ E0521 | b.with_arc(|x| { let _ = x; });
}
fn offset_with_arc() { let a = Arc::into_raw_offset(Arc::new(1u32)); let mut out: Option<&Arc<u32>> = None;
    a.with_arc(|x| { out = Some(x); }); //~ E0521 | a.with_arc(|x| { let _ = x; });
}
fn thin_with_arc() { let a = ThinArc::from_header_and_slice(0u8, &[1u8]); let mut out = None;
    a.with_arc(|x| { out = Some(x); }); //~ E0521 | a.with_arc(|x| { let _ = x; }); out = Some(());
}
fn thin_with_arc_mut() { let mut a = ThinArc::from_header_and_slice(0u8, &[1u8]); let mut out = None;
    a.with_arc_mut(|x| { out = Some(x); }); //~ E0521 | a.with_arc_mut(|x| { let _ = x; }); out = Some(());
}
fn raw_offset() { let a = Arc::new(1u32); let mut out: Option<&OffsetArc<u32>> = None;
    a.with_raw_offset_arc(|x| { out = Some(x); }); //~ E0521 | a.with_raw_offset_arc(|x| { let _ = x; });
}
