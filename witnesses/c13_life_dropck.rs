//@ property: C13
//@ what: a handle cannot outlive data that its payload borrows (payload destructor reads the borrow)
#![allow(unused, dead_code, deprecated)]
use triomphe::*;
fn is_send<T: ?Sized + Send>() {}
fn is_sync<T: ?Sized + Sync>() {}
struct P<'a>(&'a String);
impl<'a> Drop for P<'a> { fn drop(&mut self) { let _ = self.0.len(); } }

fn arc() { let a; let s = String::new();
    a = Arc::new(P(&s)); //~ E0597 | a = Arc::new(()); let _ = &s;
}
fn unique() { let a; let s = String::new();
    a = UniqueArc::new(P(&s)); //~ E0597 | a = UniqueArc::new(()); let _ = &s;
}
fn offset() { let a; let s = String::new();
    a = Arc::into_raw_offset(Arc::new(P(&s))); //~ E0597 | a = Arc::into_raw_offset(Arc::new(())); let _ = &s;
}
fn union_first() { let a: ArcUnion<P, u8>; let s = String::new();
    a = ArcUnion::from_first(Arc::new(P(&s))); //~ E0597 | let _ = &s; let a2: ArcUnion<(), u8> = ArcUnion::from_first(Arc::new(()));
}
fn union_second() { let a: ArcUnion<u8, P>; let s = String::new();
    a = ArcUnion::from_second(Arc::new(P(&s))); //~ E0597 | let _ = &s; let a2: ArcUnion<u8, ()> = ArcUnion::from_second(Arc::new(()));
}
fn thin_header() { let a; let s = String::new();
    a = ThinArc::from_header_and_slice(P(&s), &[1u8]); //~ E0597 | a = ThinArc::from_header_and_slice((), &[1u8]); let _ = &s;
}
fn thin_elems() { let a; let s = String::new();
    a = ThinArc::from_header_and_iter(0u8, vec![P(&s)].into_iter()); //~ E0597 | a = ThinArc::from_header_and_iter(0u8, vec![()].into_iter()); let _ = &s;
}
