//@ property: C13
//@ what: ArcUnion::borrow / as_first / as_second are tied to the union
#![allow(unused, dead_code, deprecated)]
use triomphe::*;
fn is_send<T: ?Sized + Send>() {}
fn is_sync<T: ?Sized + Sync>() {}
fn f() -> ArcUnionBorrow<'static, u32, u64> {
    let u: ArcUnion<u32, u64> = ArcUnion::from_first(Arc::new(1u32));
    let b = u.borrow();
    b //~ E0515 | loop {}
}
fn g() -> Option<ArcBorrow<'static, u32>> {
    let u: ArcUnion<u32, u64> = ArcUnion::from_first(Arc::new(1u32));
    let b = u.as_first();
    b //~ E0515 | None
}
fn h() -> Option<ArcBorrow<'static, u64>> {
    let u: ArcUnion<u32, u64> = ArcUnion::from_first(Arc::new(1u32));
    let b = u.as_second();
    b //~ E0515 | None
}
