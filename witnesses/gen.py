#!/usr/bin/env python3
"""Writes the witness corpus (*.rs next to this file). Re-run after editing; the .rs files are committed."""
import os

HERE = os.path.dirname(os.path.abspath(__file__))
PRELUDE = """#![allow(unused, dead_code, deprecated)]
use triomphe::*;
fn is_send<T: ?Sized + Send>() {}
fn is_sync<T: ?Sized + Sync>() {}
"""


def w(name, prop, what, body, configs=None, prelude=PRELUDE):
    hdr = "//@ property: %s\n//@ what: %s\n" % (prop, what)
    if configs:
        hdr += "//@ configs: %s\n" % configs
    with open(os.path.join(HERE, name + ".rs"), "w") as f:
        f.write(hdr + prelude + body.lstrip("\n"))


for f in os.listdir(HERE):
    if f.endswith(".rs"):
        os.remove(os.path.join(HERE, f))

# ---------------------------------------------------------------- C13: auto traits, generic positives
w("c13_auto_pos_generic", "C13", "for all Send+Sync payloads every shared handle kind is Send+Sync; UniqueArc follows Box", """
trait Tr {}
fn arc<T: Send + Sync + 'static>() {
    is_send::<Arc<T>>(); is_sync::<Arc<T>>();
    is_send::<Arc<[T]>>(); is_sync::<Arc<[T]>>();
    is_send::<OffsetArc<T>>(); is_sync::<OffsetArc<T>>();
    is_send::<ArcBorrow<'static, T>>(); is_sync::<ArcBorrow<'static, T>>();
    is_send::<ArcBorrow<'static, [T]>>(); is_sync::<ArcBorrow<'static, [T]>>();
}
fn arc_unsized() {
    is_send::<Arc<str>>(); is_sync::<Arc<str>>();
    is_send::<Arc<dyn Tr + Send + Sync>>(); is_sync::<Arc<dyn Tr + Send + Sync>>();
}
fn two<A: Send + Sync + 'static, B: Send + Sync + 'static>() {
    is_send::<ThinArc<A, B>>(); is_sync::<ThinArc<A, B>>();
    is_send::<ArcUnion<A, B>>(); is_sync::<ArcUnion<A, B>>();
    is_send::<ArcUnionBorrow<'static, A, B>>(); is_sync::<ArcUnionBorrow<'static, A, B>>();
    is_send::<Arc<HeaderSlice<A, [B]>>>(); is_sync::<Arc<HeaderSlice<A, [B]>>>();
}
fn unique_send<T: Send>() { is_send::<UniqueArc<T>>(); is_send::<UniqueArc<[T]>>(); }
fn unique_sync<T: Sync>() { is_sync::<UniqueArc<T>>(); is_sync::<UniqueArc<[T]>>(); }
fn unique_concrete() {
    is_send::<UniqueArc<core::cell::Cell<u8>>>();            // Send, not Sync: enough for Send
    is_sync::<UniqueArc<std::sync::MutexGuard<'static, u8>>>(); // Sync, not Send: enough for Sync
}
""")

# ---------------------------------------------------------------- C13: generic negatives ("exactly when")
ONE = [("Arc<T>", "arc"), ("Arc<[T]>", "arc_slice"), ("OffsetArc<T>", "offset"), ("ArcBorrow<'static, T>", "borrow")]
for ty, nm in ONE:
    w("c13_auto_neg_%s" % nm, "C13", "%s is Send/Sync only if its payload is both Send and Sync" % ty, """
fn send_without_sync<T: Send + 'static>() {
    is_send::<%(ty)s>(); //~ E0277
}
fn send_without_send<T: Sync + 'static>() {
    is_send::<%(ty)s>(); //~ E0277
}
fn sync_without_sync<T: Send + 'static>() {
    is_sync::<%(ty)s>(); //~ E0277
}
fn sync_without_send<T: Sync + 'static>() {
    is_sync::<%(ty)s>(); //~ E0277
}
fn control<T: Send + Sync + 'static>() { is_send::<%(ty)s>(); is_sync::<%(ty)s>(); }
""" % {"ty": ty})
for ty, nm in [("ThinArc<A, B>", "thin"), ("ArcUnion<A, B>", "union")]:
    body = ""
    k = 0
    for which in ("A", "B"):
        for missing in ("Send", "Sync"):
            have = "Sync" if missing == "Send" else "Send"
            a = "Send + Sync" if which == "B" else have
            b = "Send + Sync" if which == "A" else have
            for tr in ("send", "sync"):
                k += 1
                body += "fn f%d<A: %s, B: %s>() {\n    is_%s::<%s>(); //~ E0277\n}\n" % (k, a, b, tr, ty)
    body += "fn control<A: Send + Sync, B: Send + Sync>() { is_send::<%s>(); is_sync::<%s>(); }\n" % (ty, ty)
    w("c13_auto_neg_%s" % nm, "C13", "%s is Send/Sync only if both payload types are both Send and Sync" % ty, body)
w("c13_auto_neg_unique", "C13", "UniqueArc<T>: Send needs T: Send, Sync needs T: Sync (Box-like), nothing weaker", """
fn send_needs_send<T: Sync>() {
    is_send::<UniqueArc<T>>(); //~ E0277
}
fn sync_needs_sync<T: Send>() {
    is_sync::<UniqueArc<T>>(); //~ E0277
}
fn unbounded<T>() {
    is_send::<UniqueArc<T>>(); //~ E0277
    is_sync::<UniqueArc<T>>(); //~ E0277
}
""")
# concrete witness payloads of each auto-trait class
CLASSES = [("core::cell::Cell<u8>", "sendonly", True, False), ("std::sync::MutexGuard<'static, u8>", "synconly", False, True), ("std::rc::Rc<u8>", "neither", False, False)]
HANDLES = ["Arc<P>", "Arc<[P]>", "OffsetArc<P>", "ArcBorrow<'static, P>", "ThinArc<P, u8>", "ThinArc<u8, P>", "ArcUnion<P, u8>", "ArcUnion<u8, P>", "ArcUnionBorrow<'static, P, u8>", "Arc<HeaderSlice<P, [u8]>>"]
for pty, nm, snd, syn in CLASSES:
    body = "type P = %s;\nfn f() {\n" % pty
    for h in HANDLES:
        body += "    is_send::<%s>(); //~ E0277 | is_send::<%s>();\n" % (h, h.replace("P", "u8"))
        body += "    is_sync::<%s>(); //~ E0277 | is_sync::<%s>();\n" % (h, h.replace("P", "u8"))
    if not snd:
        body += "    is_send::<UniqueArc<P>>(); //~ E0277 | is_send::<UniqueArc<u8>>();\n"
    if not syn:
        body += "    is_sync::<UniqueArc<P>>(); //~ E0277 | is_sync::<UniqueArc<u8>>();\n"
    body += "}\n"
    w("c13_auto_neg_payload_%s" % nm, "C13", "witness payload %s (Send=%s, Sync=%s): no shared handle kind is Send or Sync" % (pty, snd, syn), body)

# ---------------------------------------------------------------- C13: borrows cannot escape
L = []


def lt(name, what, body, configs=None):
    w("c13_life_%s" % name, "C13", what, body, configs)


lt("borrow_arc_escape", "ArcBorrow from Arc::borrow_arc cannot outlive the Arc", """
fn f() -> ArcBorrow<'static, u32> {
    let a = Arc::new(1u32);
    let b = a.borrow_arc();
    b //~ E0515 | loop {}
}
""")
lt("borrow_arc_escape_offset", "ArcBorrow from OffsetArc::borrow_arc cannot outlive the OffsetArc", """
fn f() -> ArcBorrow<'static, u32> {
    let a = Arc::into_raw_offset(Arc::new(1u32));
    let b = a.borrow_arc();
    b //~ E0515 | loop {}
}
""")
lt("arcborrow_get_outlives_source", "the reference from ArcBorrow::get is tied to the source handle, not to the ArcBorrow value", """
fn use_it(_: &u32) {}
fn f() {
    let r: &u32;
    {
        let a = Arc::new(1u32);
        r = a.borrow_arc().get(); //~ E0597 | r = &7;
    }
    use_it(r);
}
fn control() {
    // ...but it may outlive the ArcBorrow value itself
    let a = Arc::new(1u32);
    let r: &u32 = { let b = a.borrow_arc(); b.get() };
    use_it(r);
}
""")
lt("union_borrow_escape", "ArcUnion::borrow / as_first / as_second are tied to the union", """
fn f() -> ArcUnionBorrow<'static, u32, u64> {
    let u: ArcUnion<u32, u64> = ArcUnion::from_first(Arc::new(1u32));
    let b = u.borrow();
    b //~ E0515 | loop {}
}
fn g() -> Option<ArcBorrow<'static, u32>> {
    let u: ArcUnion<u32, u64> = ArcUnion::from_first(Arc::new(1u32));
    let b = u.as_first();
    b //~ E0515 | None
}
fn h() -> Option<ArcBorrow<'static, u64>> {
    let u: ArcUnion<u32, u64> = ArcUnion::from_first(Arc::new(1u32));
    let b = u.as_second();
    b //~ E0515 | None
}
""")
lt("deref_escape", "references obtained through Deref cannot outlive the handle", """
fn use_it<T: ?Sized>(_: &T) {}
fn arc() { let r: &u32; { let a = Arc::new(1u32);
    r = &*a; //~ E0597 | r = &1;
    } use_it(r); }
fn offset() { let r: &u32; { let a = Arc::into_raw_offset(Arc::new(1u32));
    r = &*a; //~ E0597 | r = &1;
    } use_it(r); }
fn unique() { let r: &u32; { let a = UniqueArc::new(1u32);
    r = &*a; //~ E0597 | r = &1;
    } use_it(r); }
fn thin() { let r: &[u8]; { let a = ThinArc::from_header_and_slice(0u8, &[1u8, 2]);
    r = &a.slice; //~ E0597 | r = &[];
    } use_it(r); }
fn arcborrow_deref() { let a = Arc::new(1u32); let r: &u32; { let b = a.borrow_arc();
    r = &*b; //~ E0597 | r = &1;
    } use_it(r); }
""")
lt("with_arc_escape_assign", "the &Arc lent to a with_arc-style callback cannot be smuggled out by assignment", """
fn borrow_with_arc() { let a = Arc::new(1u32); let b = a.borrow_arc(); let mut out: Option<&Arc<u32>> = None;
    b.with_arc(|x| { out = Some(x); }); //~ E0521 | b.with_arc(|x| { let _ = x; });
}
fn offset_with_arc() { let a = Arc::into_raw_offset(Arc::new(1u32)); let mut out: Option<&Arc<u32>> = None;
    a.with_arc(|x| { out = Some(x); }); //~ E0521 | a.with_arc(|x| { let _ = x; });
}
fn thin_with_arc() { let a = ThinArc::from_header_and_slice(0u8, &[1u8]); let mut out = None;
    a.with_arc(|x| { out = Some(x); }); //~ E0521 | a.with_arc(|x| { let _ = x; }); out = Some(());
}
fn thin_with_arc_mut() { let mut a = ThinArc::from_header_and_slice(0u8, &[1u8]); let mut out = None;
    a.with_arc_mut(|x| { out = Some(x); }); //~ E0521 | a.with_arc_mut(|x| { let _ = x; }); out = Some(());
}
fn raw_offset() { let a = Arc::new(1u32); let mut out: Option<&OffsetArc<u32>> = None;
    a.with_raw_offset_arc(|x| { out = Some(x); }); //~ E0521 | a.with_raw_offset_arc(|x| { let _ = x; });
}
""")
lt("with_arc_escape_return", "the &Arc lent to a with_arc-style callback cannot be returned from it", """
fn borrow_with_arc<'a>(b: &'a ArcBorrow<'a, u32>) -> &'a Arc<u32> {
    b.with_arc(|x| x) //~ LIFETIME | loop {}
}
""")
lt("mut_alias", "mutable access from get_mut/make_mut/get_unique/make_unique/deref_mut is exclusive", """
fn get_mut() { let mut a = Arc::new(1u32);
    let m = Arc::get_mut(&mut a).unwrap();
    let n = Arc::get_mut(&mut a); //~ E0499 | let n = ();
    *m = 2; }
fn make_mut() { let mut a = Arc::new(1u32);
    let m = Arc::make_mut(&mut a);
    let n = a.clone(); //~ E0502 | let n = ();
    *m = 2; }
fn get_unique() { let mut a = Arc::new(1u32);
    let m = Arc::get_unique(&mut a).unwrap();
    let n = &*a; //~ E0502 | let n = ();
    **m = 2; }
fn make_unique() { let mut a = Arc::new(1u32);
    let m = Arc::make_unique(&mut a);
    let n = Arc::strong_count(&a); //~ E0502 | let n = ();
    **m = 2; }
fn deref_mut() { let mut a = UniqueArc::new(1u32);
    let m: &mut u32 = &mut *a;
    let n: &u32 = &*a; //~ E0502 | let n = ();
    *m = 2; }
fn offset_make_mut() { let mut a = Arc::into_raw_offset(Arc::new(1u32));
    let m = a.make_mut();
    let n = a.clone(); //~ E0502 | let n = ();
    *m = 2; }
""")
lt("protected_mut_alias", "header_mut/slice_mut on the protected payload are exclusive borrows", """
fn f() { let mut t = ThinArc::from_header_and_slice(0u8, &[1u8, 2]);
    t.with_arc_mut(|a| {
        if let Some(p) = Arc::get_mut(a) {
            let h = p.header_mut();
            let s = p.slice_mut(); //~ E0499 | let s = ();
            *h = 1;
        }
    });
}
""")

lt("mut_ref_escape", "the &mut handed out by get_mut/make_mut/get_unique/make_unique/deref_mut cannot outlive the handle", """
fn use_it<T: ?Sized>(_: &T) {}
fn get_mut() { let r: &mut u32; { let mut a = Arc::new(1u32);
    r = Arc::get_mut(&mut a).unwrap(); //~ E0597 | r = Box::leak(Box::new(1u32));
    } use_it(r); }
fn make_mut() { let r: &mut u32; { let mut a = Arc::new(1u32);
    r = Arc::make_mut(&mut a); //~ E0597 | r = Box::leak(Box::new(1u32));
    } use_it(r); }
fn make_unique() { let r: &mut UniqueArc<u32>; { let mut a = Arc::new(1u32);
    r = Arc::make_unique(&mut a); //~ E0597 | r = Box::leak(Box::new(UniqueArc::new(1u32)));
    } use_it(&**r); }
fn unique_deref_mut() { let r: &mut u32; { let mut a = UniqueArc::new(1u32);
    r = &mut *a; //~ E0597 | r = Box::leak(Box::new(1u32));
    } use_it(r); }
fn offset_make_mut() { let r: &mut u32; { let mut a = Arc::into_raw_offset(Arc::new(1u32));
    r = a.make_mut(); //~ E0597 | r = Box::leak(Box::new(1u32));
    } use_it(r); }
""")
lt("copied_borrow_escape", "ArcBorrow is Copy, but a copy is still tied to the handle it was borrowed from", """
fn copy_of_borrow() { let b2; { let a = Arc::new(1u32);
    b2 = { let b = a.borrow_arc(); let c = b; let _ = b; c }; //~ E0597 | b2 = (); let _ = &a;
    } let _ = &b2; drop(b2); }
fn with_arc_returns_inner_ref() -> usize { let t = ThinArc::from_header_and_slice(0u8, &[1u8, 2]);
    let s: &[u8] = t.with_arc(|a| &a.slice[..]); //~ LIFETIME | let s: &[u8] = &[];
    s.len() }
fn union_borrow_payload() { let r: &u32; { let u: ArcUnion<u32, u64> = ArcUnion::from_first(Arc::new(1u32));
    r = match u.borrow() { ArcUnionBorrow::First(b) => b.get(), ArcUnionBorrow::Second(_) => &0 }; //~ E0597 | r = &0; let _ = &u;
    } let _ = *r; }
""")
DROPCK = """
struct P<'a>(&'a String);
impl<'a> Drop for P<'a> { fn drop(&mut self) { let _ = self.0.len(); } }
"""
lt("dropck", "a handle cannot outlive data that its payload borrows (payload destructor reads the borrow)", DROPCK + """
fn arc() { let a; let s = String::new();
    a = Arc::new(P(&s)); //~ E0597 | a = Arc::new(()); let _ = &s;
}
fn unique() { let a; let s = String::new();
    a = UniqueArc::new(P(&s)); //~ E0597 | a = UniqueArc::new(()); let _ = &s;
}
fn offset() { let a; let s = String::new();
    a = Arc::into_raw_offset(Arc::new(P(&s))); //~ E0597 | a = Arc::into_raw_offset(Arc::new(())); let _ = &s;
}
fn union_first() { let a: ArcUnion<P, u8>; let s = String::new();
    a = ArcUnion::from_first(Arc::new(P(&s))); //~ E0597 | let _ = &s; let a2: ArcUnion<(), u8> = ArcUnion::from_first(Arc::new(()));
}
fn union_second() { let a: ArcUnion<u8, P>; let s = String::new();
    a = ArcUnion::from_second(Arc::new(P(&s))); //~ E0597 | let _ = &s; let a2: ArcUnion<u8, ()> = ArcUnion::from_second(Arc::new(()));
}
fn thin_header() { let a; let s = String::new();
    a = ThinArc::from_header_and_slice(P(&s), &[1u8]); //~ E0597 | a = ThinArc::from_header_and_slice((), &[1u8]); let _ = &s;
}
fn thin_elems() { let a; let s = String::new();
    a = ThinArc::from_header_and_iter(0u8, vec![P(&s)].into_iter()); //~ E0597 | a = ThinArc::from_header_and_iter(0u8, vec![()].into_iter()); let _ = &s;
}
""")
# ---------------------------------------------------------------- C11 / C12: width and niche (compile-time layout, nothing runs)
WIDTH_PRELUDE = """#![allow(unused, dead_code)]
use core::mem::size_of;
use triomphe::*;
#[repr(align(64))] struct Big([u8; 64]);
trait Tr { fn f(&self) {} }
const W: usize = size_of::<usize>();
macro_rules! one_word { ($($t:ty),* $(,)?) => { $( const _: () = assert!(size_of::<$t>() == W && size_of::<Option<$t>>() == W); )* } }
macro_rules! two_words { ($($t:ty),* $(,)?) => { $( const _: () = assert!(size_of::<$t>() == 2 * W && size_of::<Option<$t>>() == 2 * W); )* } }
"""
w("c11_width", "C11", "every handle type is one pointer wide (two for slice/str/trait-object payloads) and Option of it is the same size", """
one_word!(Arc<()>, Arc<u8>, Arc<u64>, Arc<[u8; 3]>, Arc<Big>, Arc<String>,
          OffsetArc<()>, OffsetArc<u8>, OffsetArc<Big>, OffsetArc<String>,
          ArcBorrow<'static, ()>, ArcBorrow<'static, u8>, ArcBorrow<'static, Big>,
          UniqueArc<()>, UniqueArc<u8>, UniqueArc<Big>, UniqueArc<String>,
          ThinArc<(), u8>, ThinArc<u8, u64>, ThinArc<Big, u8>, ThinArc<u8, Big>, ThinArc<String, String>,
          ArcUnion<u8, u8>, ArcUnion<(), Big>, ArcUnion<String, u64>, ArcUnion<Big, ()>);
two_words!(Arc<[u8]>, Arc<[Big]>, Arc<str>, Arc<dyn Tr>, Arc<HeaderSlice<u8, [u64]>>, Arc<HeaderSlice<Big, str>>,
           ArcBorrow<'static, [u8]>, ArcBorrow<'static, str>, ArcBorrow<'static, dyn Tr>,
           UniqueArc<[u8]>, UniqueArc<str>, UniqueArc<dyn Tr>);
fn generic<T, H>() {
    // for all sized payloads (checked when instantiated; the repr(transparent) facts make it payload-independent)
    let _ = [(); 0 - !(size_of::<usize>() == size_of::<*const u8>()) as usize];
}
""", prelude=WIDTH_PRELUDE)
print("wrote", len([f for f in os.listdir(HERE) if f.endswith(".rs")]), "witnesses")
