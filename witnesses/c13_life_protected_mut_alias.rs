//@ property: C13
//@ what: header_mut/slice_mut on the protected payload are exclusive borrows
#![allow(unused, dead_code, deprecated)]
use triomphe::*;
fn is_send<T: ?Sized + Send>() {}
fn is_sync<T: ?Sized + Sync>() {}
fn f() { let mut t = ThinArc::from_header_and_slice(0u8, &[1u8, 2]);
    t.with_arc_mut(|a| {
        if let Some(p) = Arc::get_mut(a) {
            let h = p.header_mut();
            let s = p.slice_mut(); //~ E0499 | let s = ();
            *h = 1;
        }
    });
}
