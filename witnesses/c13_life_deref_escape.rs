//@ property: C13
//@ what: references obtained through Deref cannot outlive the handle
#![allow(unused, dead_code, deprecated)]
use triomphe::*;
fn is_send<T: ?Sized + Send>() {}
fn is_sync<T: ?Sized + Sync>() {}
fn use_it<T: ?Sized>(_: &T) {}
fn arc() { let r: &u32; { let a = Arc::new(1u32);
    r = &*a; //~ E0597 | r = &1;
    } use_it(r); }
fn offset() { let r: &u32; { let a = Arc::into_raw_offset(Arc::new(1u32));
    r = &*a; //~ E0597 | r = &1;
    } use_it(r); }
fn unique() { let r: &u32; { let a = UniqueArc::new(1u32);
    r = &*a; //~ E0597 | r = &1;
    } use_it(r); }
fn thin() { let r: &[u8]; { let a = ThinArc::from_header_and_slice(0u8, &[1u8, 2]);
    r = &a.slice; //~ E0597 | r = &[];
    } use_it(r); }
fn arcborrow_deref() { let a = Arc::new(1u32); let r: &u32; { let b = a.borrow_arc();
    r = &*b; //~ E0597 | r = &1;
    } use_it(r); }
