//@ property: C13
//@ what: ArcBorrow from OffsetArc::borrow_arc cannot outlive the OffsetArc
#![allow(unused, dead_code, deprecated)]
use triomphe::*;
fn is_send<T: ?Sized + Send>() {}
fn is_sync<T: ?Sized + Sync>() {}
fn f() -> ArcBorrow<'static, u32> {
    let a = Arc::into_raw_offset(Arc::new(1u32));
    let b = a.borrow_arc();
    b //~ E0515 | loop {}
}
