//@ property: C13
//@ what: the &Arc lent to a with_arc-style callback cannot be returned from it
#![allow(unused, dead_code, deprecated)]
use triomphe::*;
fn is_send<T: ?Sized + Send>() {}
fn is_sync<T: ?Sized + Sync>() {}
fn borrow_with_arc<'a>(b: &'a ArcBorrow<'a, u32>) -> &'a Arc<u32> {
    b.with_arc(|x| x) //~ LIFETIME | loop {}
}
