//@ property: C13
//@ what: UniqueArc<T>: Send needs T: Send, Sync needs T: Sync (Box-like), nothing weaker
#![allow(unused, dead_code, deprecated)]
use triomphe::*;
fn is_send<T: ?Sized + Send>() {}
fn is_sync<T: ?Sized + Sync>() {}
fn send_needs_send<T: Sync>() {
    is_send::<UniqueArc<T>>(); //~ E0277
}
fn sync_needs_sync<T: Send>() {
    is_sync::<UniqueArc<T>>(); //~ E0277
}
fn unbounded<T>() {
    is_send::<UniqueArc<T>>(); //~ E0277
    is_sync::<UniqueArc<T>>(); //~ E0277
}
