//@ property: C13
//@ what: the reference from ArcBorrow::get is tied to the source handle, not to the ArcBorrow value
#![allow(unused, dead_code, deprecated)]
use triomphe::*;
fn is_send<T: ?Sized + Send>() {}
fn is_sync<T: ?Sized + Sync>() {}
fn use_it(_: &u32) {}
fn f() {
    let r: &u32;
    {
        let a = Arc::new(1u32);
        r = a.borrow_arc().get(); //~ E0597 | r = &7;
    }
    use_it(r);
}
fn control() {
    // ...but it may outlive the ArcBorrow value itself
    let a = Arc::new(1u32);
    let r: &u32 = { let b = a.borrow_arc(); b.get() };
    use_it(r);
}
