//@ property: C13
//@ what: the &mut handed out by get_mut/make_mut/get_unique/make_unique/deref_mut cannot outlive the handle
#![allow(unused, dead_code, deprecated)]
use triomphe::*;
fn is_send<T: ?Sized + Send>() {}
fn is_sync<T: ?Sized + Sync>() {}
fn use_it<T: ?Sized>(_: &T) {}
fn get_mut() { let r: &mut u32; { let mut a = Arc::new(1u32);
    r = Arc::get_mut(&mut a).unwrap(); //~ E0597 | r = Box::leak(Box::new(1u32));
    } use_it(r); }
fn make_mut() { let r: &mut u32; { let mut a = Arc::new(1u32);
    r = Arc::make_mut(&mut a); //~ E0597 | r = Box::leak(Box::new(1u32));
    } use_it(r); }
fn make_unique() { let r: &mut UniqueArc<u32>; { let mut a = Arc::new(1u32);
    r = Arc::make_unique(&mut a); //~ E0597 | r = Box::leak(Box::new(UniqueArc::new(1u32)));
    } use_it(&**r); }
fn unique_deref_mut() { let r: &mut u32; { let mut a = UniqueArc::new(1u32);
    r = &mut *a; //~ E0597 | r = Box::leak(Box::new(1u32));
    } use_it(r); }
fn offset_make_mut() { let r: &mut u32; { let mut a = Arc::into_raw_offset(Arc::new(1u32));
    r = triomphe::OffsetArc::make_mut(&mut a); //~ E0597 | r = Box::leak(Box::new(1u32));
    } use_it(r); }
