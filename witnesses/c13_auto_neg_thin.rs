//@ property: C13
//@ what: ThinArc<A, B> is Send/Sync only if both payload types are both Send and Sync
#![allow(unused, dead_code, deprecated)]
use triomphe::*;
fn is_send<T: ?Sized + Send>() {}
fn is_sync<T: ?Sized + Sync>() {}
fn f1<A: Sync, B: Send + Sync>() {
    is_send::<ThinArc<A, B>>(); //~ E0277
}
fn f2<A: Sync, B: Send + Sync>() {
    is_sync::<ThinArc<A, B>>(); //~ E0277
}
fn f3<A: Send, B: Send + Sync>() {
    is_send::<ThinArc<A, B>>(); //~ E0277
}
fn f4<A: Send, B: Send + Sync>() {
    is_sync::<ThinArc<A, B>>(); //~ E0277
}
fn f5<A: Send + Sync, B: Sync>() {
    is_send::<ThinArc<A, B>>(); //~ E0277
}
fn f6<A: Send + Sync, B: Sync>() {
    is_sync::<ThinArc<A, B>>(); //~ E0277
}
fn f7<A: Send + Sync, B: Send>() {
    is_send::<ThinArc<A, B>>(); //~ E0277
}
fn f8<A: Send + Sync, B: Send>() {
    is_sync::<ThinArc<A, B>>(); //~ E0277
}
fn control<A: Send + Sync, B: Send + Sync>() { is_send::<ThinArc<A, B>>(); is_sync::<ThinArc<A, B>>(); }
