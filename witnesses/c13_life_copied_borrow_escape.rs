//@ property: C13
//@ what: ArcBorrow is Copy, but a copy is still tied to the handle it was borrowed from
#![allow(unused, dead_code, deprecated)]
use triomphe::*;
fn is_send<T: ?Sized + Send>() {}
fn is_sync<T: ?Sized + Sync>() {}
fn copy_of_borrow() { let b2; { let a = Arc::new(1u32);
    b2 = { let b = a.borrow_arc(); let c = b; let _ = b; c }; //~ E0597 | b2 = (); let _ = &a;
    } let _ = &b2; drop(b2); }
fn with_arc_returns_inner_ref() -> usize { let t = ThinArc::from_header_and_slice(0u8, &[1u8, 2]);
    let s: &[u8] = t.with_arc(|a| &a.slice[..]); //~ LIFETIME | let s: &[u8] = &[];
    s.len() }
fn union_borrow_payload() { let r: &u32; { let u: ArcUnion<u32, u64> = ArcUnion::from_first(Arc::new(1u32));
    r = match u.borrow() { ArcUnionBorrow::First(b) => b.get(), ArcUnionBorrow::Second(_) => &0 }; //~ E0597 | r = &0; let _ = &u;
    } let _ = *r; }
