//@ property: C13
//@ what: for all Send+Sync payloads every shared handle kind is Send+Sync; UniqueArc follows Box
#![allow(unused, dead_code, deprecated)]
use triomphe::*;
fn is_send<T: ?Sized + Send>() {}
fn is_sync<T: ?Sized + Sync>() {}
trait Tr {}
fn arc<T: Send + Sync + 'static>() {
    is_send::<Arc<T>>(); is_sync::<Arc<T>>();
    is_send::<Arc<[T]>>(); is_sync::<Arc<[T]>>();
    is_send::<OffsetArc<T>>(); is_sync::<OffsetArc<T>>();
    is_send::<ArcBorrow<'static, T>>(); is_sync::<ArcBorrow<'static, T>>();
    is_send::<ArcBorrow<'static, [T]>>(); is_sync::<ArcBorrow<'static, [T]>>();
}
fn arc_unsized() {
    is_send::<Arc<str>>(); is_sync::<Arc<str>>();
    is_send::<Arc<dyn Tr + Send + Sync>>(); is_sync::<Arc<dyn Tr + Send + Sync>>();
}
fn two<A: Send + Sync + 'static, B: Send + Sync + 'static>() {
    is_send::<ThinArc<A, B>>(); is_sync::<ThinArc<A, B>>();
    is_send::<ArcUnion<A, B>>(); is_sync::<ArcUnion<A, B>>();
    is_send::<ArcUnionBorrow<'static, A, B>>(); is_sync::<ArcUnionBorrow<'static, A, B>>();
    is_send::<Arc<HeaderSlice<A, [B]>>>(); is_sync::<Arc<HeaderSlice<A, [B]>>>();
}
fn unique_send<T: Send>() { is_send::<UniqueArc<T>>(); is_send::<UniqueArc<[T]>>(); }
fn unique_sync<T: Sync>() { is_sync::<UniqueArc<T>>(); is_sync::<UniqueArc<[T]>>(); }
fn unique_concrete() {
    is_send::<UniqueArc<core::cell::Cell<u8>>>();            // Send, not Sync: enough for Send
    is_sync::<UniqueArc<std::sync::MutexGuard<'static, u8>>>(); // Sync, not Send: enough for Sync
}
