//@ property: C13
//@ what: ArcBorrow from Arc::borrow_arc cannot outlive the Arc
#![allow(unused, dead_code, deprecated)]
use triomphe::*;
fn is_send<T: ?Sized + Send>() {}
fn is_sync<T: ?Sized + Sync>() {}
fn f() -> ArcBorrow<'static, u32> {
    let a = Arc::new(1u32);
    let b = a.borrow_arc();
    b //~ E0515 | loop {}
}
