//@ property: C13
//@ what: Arc<T> is Send/Sync only if its payload is both Send and Sync
#![allow(unused, dead_code, deprecated)]
use triomphe::*;
fn is_send<T: ?Sized + Send>() {}
fn is_sync<T: ?Sized + Sync>() {}
fn send_without_sync<T: Send + 'static>() {
    is_send::<Arc<T>>(); //~ E0277
}
fn send_without_send<T: Sync + 'static>() {
    is_send::<Arc<T>>(); //~ E0277
}
fn sync_without_sync<T: Send + 'static>() {
    is_sync::<Arc<T>>(); //~ E0277
}
fn sync_without_send<T: Sync + 'static>() {
    is_sync::<Arc<T>>(); //~ E0277
}
fn control<T: Send + Sync + 'static>() { is_send::<Arc<T>>(); is_sync::<Arc<T>>(); }
