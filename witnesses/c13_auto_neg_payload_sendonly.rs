//@ property: C13
//@ what: witness payload core::cell::Cell<u8> (Send=True, Sync=False): no shared handle kind is Send or Sync
#![allow(unused, dead_code, deprecated)]
use triomphe::*;
fn is_send<T: ?Sized + Send>() {}
fn is_sync<T: ?Sized + Sync>() {}
type P = core::cell::Cell<u8>;
fn f() {
    is_send::<Arc<P>>(); //~ E0277 | is_send::<Arc<u8>>();
    is_sync::<Arc<P>>(); //~ E0277 | is_sync::<Arc<u8>>();
    is_send::<Arc<[P]>>(); //~ E0277 | is_send::<Arc<[u8]>>();
    is_sync::<Arc<[P]>>(); //~ E0277 | is_sync::<Arc<[u8]>>();
    is_send::<OffsetArc<P>>(); //~ E0277 | is_send::<OffsetArc<u8>>();
    is_sync::<OffsetArc<P>>(); //~ E0277 | is_sync::<OffsetArc<u8>>();
    is_send::<ArcBorrow<'static, P>>(); //~ E0277 | is_send::<ArcBorrow<'static, u8>>();
    is_sync::<ArcBorrow<'static, P>>(); //~ E0277 | is_sync::<ArcBorrow<'static, u8>>();
    is_send::<ThinArc<P, u8>>(); //~ E0277 | is_send::<ThinArc<u8, u8>>();
    is_sync::<ThinArc<P, u8>>(); //~ E0277 | is_sync::<ThinArc<u8, u8>>();
    is_send::<ThinArc<u8, P>>(); //~ E0277 | is_send::<ThinArc<u8, u8>>();
    is_sync::<ThinArc<u8, P>>(); //~ E0277 | is_sync::<ThinArc<u8, u8>>();
    is_send::<ArcUnion<P, u8>>(); //~ E0277 | is_send::<ArcUnion<u8, u8>>();
    is_sync::<ArcUnion<P, u8>>(); //~ E0277 | is_sync::<ArcUnion<u8, u8>>();
    is_send::<ArcUnion<u8, P>>(); //~ E0277 | is_send::<ArcUnion<u8, u8>>();
    is_sync::<ArcUnion<u8, P>>(); //~ E0277 | is_sync::<ArcUnion<u8, u8>>();
    is_send::<ArcUnionBorrow<'static, P, u8>>(); //~ E0277 | is_send::<ArcUnionBorrow<'static, u8, u8>>();
    is_sync::<ArcUnionBorrow<'static, P, u8>>(); //~ E0277 | is_sync::<ArcUnionBorrow<'static, u8, u8>>();
    is_send::<Arc<HeaderSlice<P, [u8]>>>(); //~ E0277 | is_send::<Arc<HeaderSlice<u8, [u8]>>>();
    is_sync::<Arc<HeaderSlice<P, [u8]>>>(); //~ E0277 | is_sync::<Arc<HeaderSlice<u8, [u8]>>>();
    is_sync::<UniqueArc<P>>(); //~ E0277 | is_sync::<UniqueArc<u8>>();
}
