//@ property: C13
//@ what: mutable access from get_mut/make_mut/get_unique/make_unique/deref_mut is exclusive
#![allow(unused, dead_code, deprecated)]
use triomphe::*;
fn is_send<T: ?Sized + Send>() {}
fn is_sync<T: ?Sized + Sync>() {}
fn get_mut() { let mut a = Arc::new(1u32);
    let m = Arc::get_mut(&mut a).unwrap();
    let n = Arc::get_mut(&mut a); //~ E0499 | let n = ();
    *m = 2; }
fn make_mut() { let mut a = Arc::new(1u32);
    let m = Arc::make_mut(&mut a);
    let n = a.clone(); //~ E0502 | let n = ();
    *m = 2; }
fn get_unique() { let mut a = Arc::new(1u32);
    let m = Arc::get_unique(&mut a).unwrap();
    let n = &*a; //~ E0502 | let n = ();
    **m = 2; }
fn make_unique() { let mut a = Arc::new(1u32);
    let m = Arc::make_unique(&mut a);
    let n = Arc::strong_count(&a); //~ E0502 | let n = ();
    **m = 2; }
fn deref_mut() { let mut a = UniqueArc::new(1u32);
    let m: &mut u32 = &mut *a;
    let n: &u32 = &*a; //~ E0502 | let n = ();
    *m = 2; }
fn offset_make_mut() { let mut a = Arc::into_raw_offset(Arc::new(1u32));
    let m = triomphe::OffsetArc::make_mut(&mut a);
    let n = a.clone(); //~ E0502 | let n = ();
    *m = 2; }
