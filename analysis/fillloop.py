"""Model of the iterator-constructor fill loop (C06 R-ITERLOOP / C07 R-RECHECK).

Accepted families (anything else is reported as UNSUPPORTED-SHAPE - fail closed, with the reason):
  F1  counted loop `for _ in 0..n`, one direct `items.next()` per iteration, the value passes a panicking
      `expect`/`unwrap`, one slot write, cursor +1 (or index taken from the counter);
  F2  loop driven by a std adaptor over the user iterator whose polling discipline is known:
      `(0..n).zip(&mut items)` (range polled first), `(&mut items).take(n)`, `.enumerate()` on those;
      the slot value is the pattern-matched `Some` payload; because such a loop can end early when the
      iterator runs dry, the handle's construction must be dominated by a `count == n` check.
Known-bad: `(&mut items).zip(0..n)` polls the user iterator *before* the range, so at exhaustion of the range one
item has been taken that no slot can hold.
"""
from . import atomics, cfg, symx
from .facts import operand_place

ZIP = "core::iter::adapters::zip::Zip"
TAKE = "core::iter::adapters::take::Take"
ENUM = "core::iter::adapters::enumerate::Enumerate"
RANGE = "core::ops::range::Range"
ITER = "core::iter::traits::iterator::Iterator"


USER_QUERIES = ("core::iter::traits::exact_size::ExactSizeIterator::len", "core::iter::traits::iterator::Iterator::size_hint")


def nobb(e):
    if not isinstance(e, tuple):
        return e
    if e and e[0] == "call":
        if e[1] in USER_QUERIES and len(e) > 5:
            # what a user iterator reports is not a pure getter: two calls are two (possibly different) answers
            return ("call", e[1], e[2], tuple(nobb(a) for a in e[3]), e[4], e[5])
        return ("call", e[1], e[2], tuple(nobb(a) for a in e[3]), e[4])
    if e and e[0] == "addr":
        return nobb(e[1])
    if e and e[0] == "cast":
        return nobb(e[2])
    if e and e[0] == "proj":
        r = nobb(e[1])
        names = tuple(n for n in e[2] if n != "*")
        return ("proj", r, names) if names else r
    return tuple(nobb(x) if isinstance(x, tuple) else x for x in e)


def user_iter_param(F, b):
    """(argument index, type-parameter name) of the user iterator."""
    for i, t in enumerate(b.get("inputs", []), 1):
        tt = F.ty(t)
        if tt["k"] == "param":
            for p in b["preds"]:
                if p.get("kind") == "trait" and p["trait"] == ITER and F.ty(p["self"])["k"] == "param" and F.ty(p["self"])["name"] == tt["name"]:
                    return i, tt["name"]
    return None, None


def mentions_param(F, ty_idx, name):
    return any(F.ty(x)["k"] == "param" and F.ty(x)["name"] == name for x in F.walk(ty_idx))


def classify_source(F, ty_idx, pname):
    """How does `next()` on a value of this type consume the user iterator `pname`?
    -> ('counter',) | ('direct',) | ('zip-range-first',) | ('take',) | ('leaky', why) | ('unknown', type string)"""
    i = F.strip_refs(ty_idx)
    t = F.ty(i)
    if not mentions_param(F, i, pname):
        return ("counter",)
    if t["k"] == "param" and t["name"] == pname:
        return ("direct",)
    if t["k"] == "adt":
        args = [a["t"] for a in t["args"] if "t" in a]
        if t["path"] == ZIP and len(args) == 2:
            a_user, b_user = mentions_param(F, args[0], pname), mentions_param(F, args[1], pname)
            if a_user:
                return ("leaky", "`%s` polls the user iterator before its second component: when that one is exhausted an item has already been taken and is dropped" % t["s"])
            inner = classify_source(F, args[1], pname)
            if b_user and inner[0] == "direct" and F.ty(F.strip_refs(args[0]))["k"] == "adt" and F.ty(F.strip_refs(args[0]))["path"] == RANGE:
                return ("zip-range-first",)
            return ("unknown", t["s"])
        if t["path"] == TAKE and len(args) == 1:
            inner = classify_source(F, args[0], pname)
            return ("take",) if inner[0] == "direct" else (inner if inner[0] == "leaky" else ("unknown", t["s"]))
        if t["path"] == ENUM and len(args) == 1:
            return classify_source(F, args[0], pname)
    return ("unknown", t["s"])


def find_calls(e, pred, out):
    if not isinstance(e, tuple):
        return
    if e and e[0] == "call" and pred(e):
        out.append(e)
    for x in e:
        if isinstance(x, tuple):
            find_calls(x, pred, out)


def helper_role(F, key):
    """Role of a private local helper that polls an iterator passed by `&mut`:
    'takes-checked-item'  - exactly one `next()` on the argument, the result goes through `expect`/`unwrap` and is returned;
    'asserts-exhausted'   - exactly one `next()` on the argument, and the function returns only along the edge on which that result
                            was `None` (the other edge diverges);
    None otherwise."""
    cache = F.__dict__.setdefault("_iter_helper_roles", {})
    if key in cache:
        return cache[key]
    cache[key] = None
    b = F.body(key) if key else None
    if b is None or b["kind"] not in ("Fn", "AssocFn") or not b.get("inputs"):
        return None
    it = F.ty(b["inputs"][0])
    if not (it["k"] == "ref" and it.get("mut")):
        return None
    B = cfg.Body(b)
    nx = [(bi, t) for bi, t in B.calls() if t.get("callee_trait") == ITER and t.get("callee_name") == "next"]
    users = [(bi, t) for bi, t in B.calls() if t.get("resolved") == "unresolved" or t.get("indirect")]
    if len(nx) != 1 or len(users) != 1:
        return None
    nbi, nt = nx[0]
    a0 = operand_place(nt["args"][0]) if nt["args"] else None
    if a0 is None or 1 not in _roots(B, a0["l"], set()):
        return None
    rets = [i for i, x in enumerate(b["blocks"]) if x["term"]["k"] == "return"]
    # takes-checked-item: _0 = expect/unwrap(next(..))
    o = B.origin_local(0)
    if o.get("kind") == "call" and atomics.callee_of(o["term"]) in ("<core::option::Option<T>>::expect", "<core::option::Option<T>>::unwrap"):
        o2 = B.origin(o["term"]["args"][0])
        if o2.get("kind") == "call" and o2["term"] is nt:
            cache[key] = "takes-checked-item"
            return cache[key]
    # asserts-exhausted: returns only through the None edge of a test on next()'s result
    for bi, bl in enumerate(b["blocks"]):
        tt = bl["term"]
        if tt["k"] != "switch":
            continue
        c = B.condition(tt["discr"])
        none_tgts = None
        if c and "call" in c and atomics.callee_of(c["call"]) in ("<core::option::Option<T>>::is_none", "<core::option::Option<T>>::is_some"):
            o3 = B.origin(c["call"]["args"][0], through_refs=True)
            if o3.get("kind") == "call" and o3["term"] is nt:
                want = atomics.callee_of(c["call"]).endswith("is_none")
                none_tgts = [tg for tg, tv in B.switch_truth(tt).items() if (tv != c["neg"]) == want]
        else:
            o3 = B.origin(tt["discr"])
            if o3.get("kind") == "rvalue" and o3["rv"]["k"] == "discr" and not o3["rv"]["place"]["p"]:
                o4 = B.origin_local(o3["rv"]["place"]["l"])
                if o4.get("kind") == "call" and o4["term"] is nt:
                    none_tgts = [tg for v, tg in tt["arms"] if v == 0]
        if none_tgts is None:
            continue
        other = [s_ for s_ in cfg.successors(tt, with_unwind=False) if s_ not in none_tgts]
        if rets and all(not (B.reach(o_, normal_only=True) & set(rets)) for o_ in other) and any(B.reach(n_, normal_only=True) & set(rets) for n_ in none_tgts):
            cache[key] = "asserts-exhausted"
            return cache[key]
    return None


MU_WRITE = "<core::mem::maybe_uninit::MaybeUninit<T>>::write"
PTR_WRITES = ("core::ptr::write", "<*mut T>::write")


def slot_iter_place(F, B, t):
    """For `slot.write(v)` (MaybeUninit::write) whose `slot` is the item of a slice iterator - `for slot in place.iter_mut()` -
    return the expression of `place` (the slice being walked), else None."""
    if atomics.callee_of(t) not in (MU_WRITE,) + PTR_WRITES or len(t["args"]) != 2:
        return None
    from . import balance as _bal

    priv = lambda k: not _bal.is_api(F, F.body(k))
    se = nobb(symx.normalize_calls(F, symx.expr(F, B, t["args"][0]), priv))
    if atomics.callee_of(t) in PTR_WRITES:
        # `ptr::write(slot.as_mut_ptr(), v)` / `slot.as_mut_ptr().write(v)`: the raw spelling of `slot.write(v)`
        if not (se[0] == "call" and se[1] == "<core::mem::maybe_uninit::MaybeUninit<T>>::as_mut_ptr" and se[3]):
            return None
        se = se[3][0]
    sn = []
    find_calls(se, lambda e: e[2] == "next" and "slice::iter::IterMut" in e[1], sn)
    if not sn:
        return None
    src = []
    find_calls(sn[0], lambda e: e[2] in ("into_iter", "iter_mut"), src)
    place = src[0][3][0] if src and src[0][3] else None
    while place is not None and place[0] == "call" and place[2] in ("into_iter", "iter_mut") and place[3]:
        place = place[3][0]  # `IntoIterator::into_iter(<[_]>::iter_mut(place))`
    return place


def slot_iter_parts(F, B, t):
    """(start, explicit length or None) of the slice a slot-driven loop walks: the slice place itself, or the pointer and length
    of `slice::from_raw_parts_mut(ptr, n)`."""
    place = slot_iter_place(F, B, t)
    if place is None:
        return None, None
    x = place
    while x[0] in ("addr", "bb") or (x[0] == "proj" and tuple(x[2]) == ("*",)):
        x = x[-1] if x[0] == "bb" else x[1]
    if x[0] == "call" and x[2] == "from_raw_parts_mut" and x[1].startswith("core::slice") and len(x[3]) == 2:
        return x[3][0], x[3][1]
    return place, None


def _roots(B, l, seen):
    """Argument indices a local derives from (moves, reborrows, casts)."""
    if l in seen:
        return set()
    seen.add(l)
    if B.is_arg(l) and not B.defs().get(l):
        return {l}
    out = set()
    for d in B.defs().get(l, []):
        if d[0] == "assign":
            rv = d[3]
            if rv["k"] in ("use", "cast"):
                pl = operand_place(rv["op"])
                if pl is not None:
                    out |= _roots(B, pl["l"], seen)
            elif rv["k"] in ("ref", "rawptr"):
                out |= _roots(B, rv["place"]["l"], seen)
    return out


def analyse(F, E, b, alloc_len_expr, make_bbs):
    """Returns (violations [(rule-suffix, msg, span)], unsupported [msg], info dict)."""
    B = cfg.Body(b)
    viol, unsup, info = [], [], {}
    argi, pname = user_iter_param(F, b)
    if pname is None:
        return viol, ["no iterator-typed parameter found"], info
    L = nobb(alloc_len_expr)
    loop = set()
    for i in range(B.n):
        for s in B._succ_normal[i]:
            if i in B.reach(s, normal_only=True):
                loop.add(i)
    data_name = F.data_field[1]

    def slot_dst(e):
        e = nobb(e)
        idx = None
        while True:
            if e[0] == "induction":
                e = nobb(e[1])
                idx = idx or ("induction",)
                continue
            if e[0] == "call" and e[2] in ("add", "offset", "wrapping_add") and len(e[3]) == 2:
                idx = ("index", e[3][1])
                e = e[3][0]
                continue
            if e[0] == "call" and e[2] in ("as_mut_ptr", "as_ptr") and e[3]:
                e = e[3][0]
                continue
            break
        if e[0] == "proj":
            names = tuple(e[2])
            r = e[1]
            while r[0] == "proj":  # a reference taken in between: `(&mut (*p).data).slice`
                names = tuple(n for n in r[2] if n != "*") + tuple(n for n in names if n != "*")
                r = r[1]
            if names[-2:] == (data_name, "slice") or (data_name in names and names[-1] == "slice"):
                return idx or ("fixed",)
        return None

    nexts = []
    helper_takes = set()
    for bi, t in B.calls():
        if bi in loop and t.get("callee_trait") == ITER and t.get("callee_name") == "next" and t.get("callee_self") is not None:
            nexts.append((bi, t, classify_source(F, t["callee_self"], pname)))
        elif bi in loop and helper_role(F, atomics.callee_of(t)) == "takes-checked-item" and t.get("arg_tys") and mentions_param(F, t["arg_tys"][0], pname):
            # `next_reported_item(&mut items)`: one checked `next()` on the user iterator
            nexts.append((bi, t, ("direct", "through helper")))
            helper_takes.add(atomics.callee_of(t))
    writes = []
    for bi, t in B.calls():
        if bi in loop and atomics.callee_of(t) in ("core::ptr::write", "<*mut T>::write"):
            d = slot_dst(symx.expr(F, B, t["args"][0]))
            if d is not None:
                writes.append((bi, t, d))
    if not writes:
        # the slot-driven family: `for slot in <the block's whole slice as &mut [MaybeUninit<T>]> { slot.write(item) }` - the
        # loop is driven by a slice iterator over the slots themselves, so it ends exactly when every slot has been visited
        for bi, t in B.calls():
            if bi in loop and atomics.callee_of(t) in (MU_WRITE,) + PTR_WRITES:
                place, explicit_len = slot_iter_parts(F, B, t)
                if place is None:
                    continue
                whole = slot_dst(place) == ("fixed",)
                if explicit_len is not None:
                    # `slice::from_raw_parts_mut(<start of the block's slice>, n)`: whole iff n is the length the block was sized for
                    from .props import c06 as _c06c

                    whole = whole and _c06c.norm_block_len(nobb(explicit_len), data_name) == L
                writes.append((bi, t, ("slotiter", whole)))
    info["loop_blocks"] = len(loop)
    info["sources"] = [c[0] for _b, _t, c in nexts]
    if not loop:
        return viol, ["no fill loop found"], info
    user = [(bi, t, c) for bi, t, c in nexts if c[0] != "counter"]
    counters = [(bi, t, c) for bi, t, c in nexts if c[0] == "counter"]
    for bi, t, c in user:
        if c[0] == "leaky":
            viol.append(("leaky-adaptor", "the fill loop consumes the user iterator through an adaptor that takes an item it cannot store: %s - an iterator yielding one more item than it reported would have that item silently destroyed and the length check would pass" % c[1], t["span"]))
        elif c[0] == "unknown":
            unsup.append("the fill loop consumes the user iterator through an adaptor whose polling discipline is not modelled: %s" % c[1])
    if viol or unsup:
        return viol, unsup, info
    if len(user) != 1:
        viol.append(("one-item-per-iteration", "each iteration of the fill loop must take exactly one item from the user iterator (found %d consumption sites in the loop)" % len(user), b["span"]))
        return viol, unsup, info
    if len(writes) != 1:
        viol.append(("one-write-per-iteration", "each iteration of the fill loop must write exactly one slot (found %d slot writes in the loop)" % len(writes), b["span"]))
        return viol, unsup, info
    (ubi, ut, uc), (wbi, wt, wd) = user[0], writes[0]
    # cursor discipline
    if wd[0] == "slotiter":
        if not wd[1]:
            unsup.append("the slots the loop iterates over are not visibly the block's whole slice")
    elif wd[0] == "induction":
        step = symx.expr(F, B, wt["args"][0])
        st = _find_induction(step)
        if st is None or st[2] != 1:
            viol.append(("cursor-step", "the slot cursor does not advance by exactly one element per iteration", wt["span"]))
    elif wd[0] == "index":
        ie = nobb(wd[1])
        rng = []
        find_calls(ie, lambda e: e[2] == "next", rng)
        dom_ = B.dominators()
        own_counter = ie[0] == "induction" and nobb(ie[1]) == ("const", 0) and ie[2] == 1 and ie[3] in loop and (wbi in dom_.get(ie[3], set()) or ie[3] in dom_.get(wbi, set()))
        if not rng and not own_counter:
            # (a counter kept next to the loop - `guard.initialized`, starting at 0 and stepped by one per iteration - is as good
            # as the range's own value)
            unsup.append("the slot index %s is not taken from the loop's own counter" % symx.show(wd[1]))
    else:
        viol.append(("cursor-step", "every iteration writes the same slot", wt["span"]))
    # bound of the loop
    bound_ok = False
    ranges = []
    for bl in b["blocks"]:
        for s in bl["stmts"]:
            if s["k"] == "assign" and s["rv"]["k"] == "agg" and s["rv"].get("adt") == RANGE:
                from .props import c06 as _c06

                ranges.append([_c06.norm_block_len(nobb(symx.expr(F, B, o)), data_name) for o in s["rv"]["ops"]])
    if wd[0] == "slotiter":
        bound_ok = bool(wd[1]) and uc[0] == "direct"  # one slot per iteration, all of them: the bound is the slice's own length
    elif uc[0] in ("direct",):
        if len(counters) == 1 and any(r[0] == ("const", 0) and r[1] == L for r in ranges):
            bound_ok = True
    elif uc[0] == "zip-range-first":
        if any(r[0] == ("const", 0) and r[1] == L for r in ranges):
            bound_ok = True
    elif uc[0] == "take":
        takes = []
        for bi, t in B.calls():
            if t.get("callee_name") == "take" and t.get("callee_trait") == ITER and len(t["args"]) == 2:
                takes.append(nobb(symx.expr(F, B, t["args"][1])))
        bound_ok = any(x == L for x in takes)
    if not bound_ok:
        viol.append(("bound", "the fill loop is not bounded by the length the block was allocated for (%s)" % symx.show(L), b["span"]))
    # provenance of the written value
    ve = nobb(symx.expr(F, B, wt["args"][1]))
    checked = []
    find_calls(ve, lambda e: e[2] in ("expect", "unwrap") and e[1].startswith("<core::option::Option"), checked)
    from_next = []
    find_calls(ve, lambda e: e[2] == "next", from_next)
    if helper_takes:
        find_calls(ve, lambda e: e[1] in helper_takes, checked)
        find_calls(ve, lambda e: e[1] in helper_takes, from_next)
    if not from_next:
        viol.append(("slot-provenance", "the value written into a slot does not come from the iterator's `next()`", wt["span"]))
        return viol, unsup, info
    early_exit = not checked or uc[0] != "direct"
    info["early_exit_possible"] = early_exit
    if early_exit:
        # the loop can end before n slots were written: construction must be behind `count == n`
        guard = None
        for bi, bl in enumerate(b["blocks"]):
            tt = bl["term"]
            if tt["k"] != "switch":
                continue
            c = B.condition(tt["discr"])
            if not c or c.get("op") not in ("Eq", "Ne"):
                continue
            x, y = nobb(symx.expr(F, B, c["a"])), nobb(symx.expr(F, B, c["b"]))
            if x == L or y == L:
                other = c["b"] if x == L else c["a"]
                for tgt, tv in B.switch_truth(tt).items():
                    eq = (tv != c["neg"]) == (c["op"] == "Eq")
                    if eq:
                        guard = (bi, tgt)
        dom = B.dominators()
        ok = guard is not None and all(guard[1] in dom.get(mb, set()) or guard[1] == mb for mb in make_bbs)
        if not ok:
            viol.append(("count-check", "the fill loop can end before every slot was written (the iterator ran dry), and the handle's construction is not guarded by a check that the number of written slots equals the allocated length: uninitialised slots would be exposed", b["span"]))
    return viol, unsup, info


def _find_induction(e):
    if not isinstance(e, tuple):
        return None
    if e and e[0] == "induction":
        return e
    for x in e:
        if isinstance(x, tuple):
            r = _find_induction(x)
            if r is not None:
                return r
    return None
