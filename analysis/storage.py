"""Which storage does a raw `dealloc` release?"""
from . import cfg as _cfg
from . import symx as _symx
from .facts import operand_place as _opl


def foreign_storage(f, body, op):
    """The pointer handed to `dealloc` provably never pointed at one of our blocks: following it back through casts and
    identity calls ends in a `Box::into_raw` / argument / call result whose pointee type is not the block type (e.g. the
    shell of a `Box<T>` whose contents were moved out)."""
    B = _cfg.Body(body)

    def pointee_is_block(ty_idx):
        t = f.ty(ty_idx)
        if t["k"] in ("ptr", "ref"):
            return f.is_adt(t["t"], f.inner_path)
        if t["k"] == "adt" and t["path"] == "core::ptr::non_null::NonNull":
            return any(f.is_adt(a["t"], f.inner_path) for a in t.get("args", []) if "t" in a)
        if t["k"] == "adt" and f.handle_name(ty_idx):
            return True
        return False

    pl = _opl(op)
    for _ in range(12):
        if pl is None:
            return False
        if "ty" in pl and pointee_is_block(pl["ty"]):
            return False
        if pl["p"]:
            return False
        l = pl["l"]
        if B.is_arg(l) and not B.defs().get(l):
            return not pointee_is_block(body["locals"][l]["ty"])
        d = B.single_def(l)
        if d is None:
            return False
        if d[0] == "call":
            t2 = d[2]
            r = t2.get("resolved")
            cpath = r["def"] if isinstance(r, dict) else (t2.get("callee") or "")
            if cpath in _symx.IDENTITY_CALLS and t2["args"]:
                pl = _opl(t2["args"][0])
                continue
            return False
        rv = d[3]
        if rv["k"] in ("use", "cast"):
            pl = _opl(rv["op"])
            continue
        return False
    return False
