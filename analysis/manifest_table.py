"""Rows of MANIFEST.json (one per claimed property)."""

TB = "Trusted base: rustc nightly's MIR construction, drop elaboration, type checking and trait resolution; the std model table in analysis/model.py; user callbacks are ownership-balanced; unsafe callers honour from_raw-style contracts."


def register(check, na):
    check("C04", "other",
          "Static path analysis of every API body: count and owners move in lock-step (R-BAL); per API named by the properties the set of count deltas over all normal paths equals the documented class (R-DELTA: +1 clone, -1 release, 0 borrow/move/compare/format, constructors, raw in/out, COW, unwrap); running deltas are zero at every callback call site inside a borrow (R-CBZERO); the seven count accessors forward the loaded count word of their receiver's block unmodified (R-FWD); unwind paths balanced (R-UNW); no use after a non-final release; count word addressed only as the typed header field (R-COUNT-ADDR).",
          TB + " API class table in analysis/props/c04.py.", "MIR balance analysis + per-API count-delta table + accessor forwarding dataflow", "DESIGN.md 4/C04")
    check("C07", "other",
          "Every unwind path (MIR cleanup edges) of every API body: no owner released twice, no live handle leaked when user code or a library assertion unwinds, only a half-built block may leak (R-UNW); handle minted after the last user call in constructors; iterator-length re-check guards construction (R-RECHECK); with_arc_mut's write-back guard runs on both exits (R-GUARD); allocator results are null-tested and failure reaches handle_alloc_error (R-NULL). Decides the structural conditions; does not inject faults.",
          TB + " Which std calls may unwind is read from MIR unwind edges and the model table; panic-while-unwinding aborts.", "MIR unwind-path balance analysis + dominance/def-use rules", "DESIGN.md 4/C07")
    check("C08", "other",
          "Path-set shape of Arc::make_mut, Arc::make_unique, OffsetArc::make_mut: sole-owner path has no clone/alloc/count event; shared path is test -> one Clone::clone -> one fresh block -> release of one old owner -> mutable borrow from the new pointer; clone confined to the not-unique branch; OffsetArc read-out/park/write-back order and no change when Clone unwinds. Decides where the write can land (solely owned or fresh); the run-time invisibility through other handles follows with C02/C03.",
          TB, "MIR path-set shape and event-order rules on the copy-on-write functions", "DESIGN.md 4/C08")
    check("C09", "other",
          "Path-set shape of try_unique, TryFrom, try_unwrap, into_inner, unwrap_or_clone: sole-owner path moves the payload field out with no destructor call and frees the block once as typed sole owner; decline path has zero events and returns the parameter itself (unwrap_or_clone: one clone then one release); every way these functions come to hold a UniqueArc sits behind the Acquire `count == 1` gate (a Relaxed observation does not count). The race clause reduces to C02/C03. Premises: the count equals the number of owners on every path (R-BAL/R-UNW), including owners held by an ArcUnion (c12.union_dispatch) and owners lent by arc-swap (R-REFCNT-PAIR: RefCnt::as_ptr and into_ptr yield the same word).",
          TB, "MIR path-set shape, move/def-use rules on the unwrap family", "DESIGN.md 4/C09")


def _more(check, na):
    check("C02", "other",
          "Premises of the release/acquire reference-counting lemma checked on all atomic sites: decrement Release-or-stronger; acquire load/fence on the count word between the decrement that observed 1 and the free; the free is guarded by `value returned by the decrement == 1`; no non-atomic or store/swap/CAS access to the count field after initialisation; nothing touched after the free; all handle kinds funnel through Arc's single increment and decrement; a body that gave its count back without being last touches the block no more; the count word is only addressed as the typed header field (no pointer re-typed as atomic except a block start). The memory model is the trusted lemma; no schedule is explored.",
          TB + " The C++11/Rust release-acquire counting lemma.", "ordering-discipline and def-use rules over MIR atomic call sites", "DESIGN.md 4/C02")
    check("C03", "other",
          "Every producer of exclusive access (payload `&mut` through a handle, `&mut Arc`->`&mut UniqueArc` cast, UniqueArc construction; unsafe constructors at their call sites) is, on every CFG path from entry, behind the true edge of the `Acquire load(count) == 1` gate on the same handle, behind an assignment of a fresh handle, or typed sole owner; decline paths are event-free and return the same value; deprecated writers go through the panicking check; payload borrows through value-pointer handles (OffsetArc/ArcBorrow) are producers too; no use of a block after a non-final release; count word addressed only as the typed header field.",
          TB + " Release/acquire lemma; C04 (count = owners). One frozen exemption listed in the evidence.", "gate-dominance (cut-set reachability) over MIR + role inference of the gate", "DESIGN.md 4/C03")
    check("C16", "other",
          "One increment site adding the constant 1; the value it returns is compared with a rustc-evaluated constant equal to isize::MAX (> or equivalent >=), whose defining expression also evaluates to isize::MAX for 16- and 32-bit targets; every path through the tripped edge neither returns nor unwinds; the handle is built only behind the other edge; the abort callee is std::process::abort (std) or a local routine whose computed summary has no returning and no unwinding path (no_std); six clone entry points increment exactly once. Both std and no_std configurations.",
          TB + " Panic-while-panicking aborts.", "guard-after-increment dataflow, divergence summaries, const evaluation by rustc", "DESIGN.md 4/C16")


def _more2(check, na):
    check("C14", "other",
          "Where the answer comes from, decided on the type-resolved call graph: every comparison/hash/format method on a handle or public header-slice type reaches the same trait method on the payload, never on the pointer, never on a part of the value, never another method, and on every returning path (no early return that skips the delegate); the single pointer-identity shortcut has the licensed shape; Borrow/AsRef return the Deref target; eq, ordering and hash of each payload struct read the same leaf fields at the same instantiation. Two genuine defects found by these rules were repaired in /repo (fix: commits, see known_findings.json). Concrete results on values are not decided. Key comparisons are oriented (self, other) (R-ORIENT). Premise for ArcUnion: its eq/Debug act on what borrow() lends, so the variant test and the tag strip are exact (R-TAG of C12, evaluated over sample words and payload alignments).",
          TB + " Parametricity of one-call delegation.", "call-graph delegation analysis + comparison-footprint agreement", "DESIGN.md 4/C14, 6")


def _more3(check, na):
    check("C12", "other",
          "Tag discipline decided by extracting the integer expressions of from_first/from_second/is_first/borrow from MIR def-use chains and evaluating them on feasible payload addresses (store ptr / ptr|1, test word&1==0, strip only the tag, each typed at its own parameter); variant arms of Clone/Drop/as_first/as_second/PartialEq use their own type and constructor; the payload address parity lemma from repr(C) layout. Width and niche are checked by C11's compile-time witnesses.",
          TB + " Expression evaluator analysis/symx.py.", "symbolic expression extraction from MIR + evaluation on a finite address set; variant-arm rules", "DESIGN.md 4/C12")
    check("C13", "proof",
          "rustc is the oracle: impl-table exactness of the twelve manual Send/Sync impls (for all payload types at once) and a witness corpus compiled against an rlib of the current tree in each configuration - generic positives, generic negatives with exactly one bound missing (E0277 on the marked line), witness payloads of each auto-trait class, every borrow-escape and aliasing route, drop-check per handle kind - each negative witness with exact (line, code) expectations and a compiling twin; plus two signature rules over the type-checked crate: no safe function's output carries a lifetime that none of its inputs carries or outlives (R-LIFETIME), and owning handles own their #[may_dangle] parameters through a marker in an owning position (R-PHANTOM). obligations = expected rejections + twins + accepts + impl facts, all discharged by rustc.",
          "Trusted base: rustc nightly's type, borrow and drop checkers; witnesses cover the routes listed in the property (a route nobody wrote down is covered only by R-LIFETIME/R-AUTO/R-PHANTOM).", "compile-pass / compile-fail witnesses with twins + impl-predicate exactness + signature-region lint over the type-checked crate", "DESIGN.md 4/C13, 2/E-B")
    check("C17", "other",
          "Linear-use shape of the four serde methods from MIR def-use: one user call on the handle's whole Deref target, serializer/deserializer moved into it exactly once, result returned unchanged (serialize) or consumed only by Result::map with a fresh-sole-owner constructor (deserialize); nothing allocated before the payload's deserializer returns; path set {nothing, one fresh sole owner}; any further method of these impls (e.g. deserialize_in_place) never writes into a possibly shared value; the impl headers are bounded by exactly `T: Serialize` / `T: Deserialize<'de>`. By parametricity the serializer sees the payload's call sequence. Decided in every serde-enabled configuration, including serde without std.",
          TB + " Result::map semantics; parametricity.", "def-use linearity and path-set rules on the serde impls", "DESIGN.md 4/C17")


def _more4(check, na):
    check("C05", "translation_validation",
          "The Layout expression reaching every raw alloc call is extracted from MIR (across the helper chain, parameters substituted per caller) and evaluated on the property's (header, element, length) shape matrix against the repr(C) layout of the block type the allocation is handed out and later freed as (Box<INNER<X>>); overflow must panic; same for the data offset used by from_raw; repr(C)/transparent facts; every block-pointer re-typing is between equal layouts on the matrix; free sites use the handle's own pointer; fabricated fat block pointers take their length from the allocation length or the stored length, and the stored length is only ever written through the length-checked conversion; null-checked allocation. A disagreement comes with a concrete (H, T, len) witness. programs = allocation chains and re-typing casts; disagreements_checked = matrix cells evaluated.",
          "Trusted base: std's documented Layout arithmetic and the repr(C) algorithm as re-implemented in analysis/layout.py; rustc MIR def-use; Box frees with the layout of its pointee type. The allocator's behaviour is not decided.", "layout-expression extraction from MIR + exhaustive evaluation on a shape matrix", "DESIGN.md 4/C05")
    check("C11", "other",
          "Each raw accessor is reduced (inlining resolved callees over MIR def-use) to a normal form over the handle's stored pointer; algebraic checks: as_ptr/into_raw denote the address Deref yields, agree with each other and with the arc-swap glue, compose with from_raw/from_raw_slice/from_raw_offset to the original block pointer via the offset lemma (validated on the layout matrix), OffsetArc/ArcBorrow store the value address (ArcUnion's borrow strips exactly the tag bit for every pair of payload alignments), heap_ptr is the block start; data pointers are formed without going through &T; repr(transparent) facts and compile-time width/niche witnesses. One known finding listed in known_findings.json (ThinArc::as_ptr/into_raw return the block start).",
          TB, "pointer normal-form analysis + compile-time layout witnesses", "DESIGN.md 4/C11, 6")


def _more5(check, na):
    check("C06", "other",
          "Decides the structural clauses of constructor correctness (each a necessary condition) from expressions extracted out of MIR: every payload field written (ptr::write/copy, never a dropping assignment) before the first owning handle exists; one length expression sizes the allocation, counts the copy / bounds the fill loop and is recorded by ThinArc constructors; sources disarmed exactly once (Vec set_len(0) then dropped, Box re-typed to ManuallyDrop, T: Copy for borrowed slices); loop shape; slot provenance and exhaustion re-check; exact-size fast path guard; delegating constructors make one constructor call. Element-for-element equality of the delivered contents is NOT decided (a value property). A private partial-initialisation guard (destructor destroying the elements written so far) is never dropped after the handle owns the elements and never counts a slot before it is written (R-PGUARD-OWNER/COUNT).",
          TB + " Expression extractor analysis/symx.py.", "def-use expression extraction, dominance and cut-set rules on the constructors", "DESIGN.md 4/C06")
    check("C10", "other",
          "The length invariant is carried by a type; the check shows nothing forges or disturbs it: typestate-introducing casts only in unsafe constructors whose safe call sites are dominated by `stored length == slice.len()` on the converted value; mutable access into the protected payload ends in the user header or the slice only, private field, no DerefMut; the single re-fattening helper reads the length from the same allocation and all users reach it; thin<->fat conversions keep the block pointer and the count; the refusing path of into_thin releases the Arc; with_arc_mut's guard (C07).",
          TB, "typestate-by-type rules: cast/aggregate enumeration, dominance, projection whitelist, pointer normal forms", "DESIGN.md 4/C10")
    check("C15", "other",
          "Uninitialised constructors return payload types whose element parameters all sit under MaybeUninit (so modelled drop glue runs no element destructor whatever was written), the header is written before the handle exists, a caller-supplied value parked in ManuallyDrop is handed over before anything can unwind, the five assume_init functions are event-free casts around the same block pointer between types equal up to MaybeUninit erasure, no safe function calls them, and the deprecated writers go through the panicking uniqueness check. Whether clients initialise every slot is their unsafe obligation.",
          TB + " MaybeUninit has no drop glue (language guarantee).", "type walk of resolved signatures + balance engine + pointer normal forms", "DESIGN.md 4/C15")


_reg0 = register


def register(check, na):  # noqa: F811
    _reg0(check, na)
    _more(check, na)
    _more2(check, na)
    _more3(check, na)
    _more4(check, na)
    _more5(check, na)
