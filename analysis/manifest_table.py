"""Rows of MANIFEST.json (one per claimed property)."""

TB = "Trusted base: rustc nightly's MIR construction, drop elaboration, type checking and trait resolution; the std model table in analysis/model.py; user callbacks are ownership-balanced; unsafe callers honour from_raw-style contracts."


def register(check, na):
    check("C04", "other",
          "Static path analysis of every API body: count and owners move in lock-step (R-BAL); per API named by the properties the set of count deltas over all normal paths equals the documented class (R-DELTA: +1 clone, -1 release, 0 borrow/move/compare/format, constructors, raw in/out, COW, unwrap); running deltas are zero at every callback call site inside a borrow (R-CBZERO); the seven count accessors forward the loaded count word of their receiver's block unmodified (R-FWD).",
          TB + " API class table in analysis/props/c04.py.", "MIR balance analysis + per-API count-delta table + accessor forwarding dataflow", "DESIGN.md 4/C04")
    check("C07", "other",
          "Every unwind path (MIR cleanup edges) of every API body: no owner released twice, no live handle leaked when user code or a library assertion unwinds, only a half-built block may leak (R-UNW); handle minted after the last user call in constructors; iterator-length re-check guards construction (R-RECHECK); with_arc_mut's write-back guard runs on both exits (R-GUARD); allocator results are null-tested and failure reaches handle_alloc_error (R-NULL). Decides the structural conditions; does not inject faults.",
          TB + " Which std calls may unwind is read from MIR unwind edges and the model table; panic-while-unwinding aborts.", "MIR unwind-path balance analysis + dominance/def-use rules", "DESIGN.md 4/C07")
    check("C08", "other",
          "Path-set shape of Arc::make_mut, Arc::make_unique, OffsetArc::make_mut: sole-owner path has no clone/alloc/count event; shared path is test -> one Clone::clone -> one fresh block -> release of one old owner -> mutable borrow from the new pointer; clone confined to the not-unique branch; OffsetArc read-out/park/write-back order and no change when Clone unwinds. Decides where the write can land (solely owned or fresh); the run-time invisibility through other handles follows with C02/C03.",
          TB, "MIR path-set shape and event-order rules on the copy-on-write functions", "DESIGN.md 4/C08")
    check("C09", "other",
          "Path-set shape of try_unique, TryFrom, try_unwrap, into_inner, unwrap_or_clone: sole-owner path moves the payload field out with no destructor call and frees the block once as typed sole owner; decline path has zero events and returns the parameter itself (unwrap_or_clone: one clone then one release). The race clause reduces to C02/C03.",
          TB, "MIR path-set shape, move/def-use rules on the unwrap family", "DESIGN.md 4/C09")
