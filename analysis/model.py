"""Frozen model table of std/core/alloc callees (DESIGN.md section 2).

Every entry has a one-line reason. A callee under a *sensitive prefix* (ownership,
atomics, allocation) that is not listed is reported as UNMODELLED-PRIMITIVE: the
analysis fails closed instead of assuming the call is neutral.
"""
import re

# class names
DIVERGE = "diverge"  # never returns, never unwinds
PANIC = "panic"  # never returns, always unwinds
NEUTRAL = "neutral"  # no ownership/count effect, cannot unwind
MAYPANIC = "maypanic"  # no effect, may unwind
HO = "higher_order"  # calls its callable argument(s) zero or one time
HIDE = "hide"  # consumes a value without running its destructor: owners -= tokens(X)
MAKE = "make"  # conjures a value from memory: owners += tokens(X)
DROPV = "drop_value"  # runs the destructor of a value passed by value
DROPP = "drop_in_place"  # runs the destructor of a pointee (value conjured, then dropped)
ALLOC = "alloc"
DEALLOC = "dealloc"
BOXNEW = "box_new"
BOXDROP = "box_drop"
ATOMIC_NEW = "atomic_new"
ATOMIC_RMW_ADD = "atomic_add"
ATOMIC_RMW_SUB = "atomic_sub"
ATOMIC_LOAD = "atomic_load"
ATOMIC_CAS = "atomic_cas"
ATOMIC_OTHER = "atomic_other"  # any other access to an atomic (store, swap, CAS, get_mut, ...)
FENCE = "fence"
FROM_RESIDUAL = "from_residual"
TRY_BRANCH = "try_branch"
INTO = "into"  # <T as Into<U>>::into == <U as From<T>>::from (resolved by the driver)
UNSUPPORTED = "unsupported"  # known primitive whose effect the algebra cannot express

TABLE = [
    # --- divergence --------------------------------------------------------------------
    (r"^std::process::abort$", DIVERGE, "process abort: no return, no unwinding"),
    (r"^core::intrinsics::abort$", DIVERGE, "abort intrinsic"),
    (r"^alloc::alloc::handle_alloc_error$", DIVERGE, "allocation-error hook: aborts (default) — never returns to the caller"),
    (r"^core::panicking::(panic|panic_fmt|panic_nounwind|panic_display|panic_str|assert_failed|assert_failed_inner|unreachable_display|panic_explicit|panic_const::.*|panic_bounds_check|panic_misaligned_pointer_dereference|panic_null_pointer_dereference|panic_invalid_enum_construction)$", PANIC, "panic entry point"),
    (r"^std::panicking::begin_panic$", PANIC, "panic entry point"),
    (r"^std::rt::begin_panic$", PANIC, "panic entry point"),
    (r"^core::option::(unwrap_failed|expect_failed)$", PANIC, "panic entry point"),
    (r"^core::result::unwrap_failed$", PANIC, "panic entry point"),
    # --- ownership primitives ----------------------------------------------------------
    (r"^<core::mem::manually_drop::ManuallyDrop<T>>::new$", HIDE, "wraps a value so that its destructor does not run"),
    (r"^<core::mem::manually_drop::ManuallyDrop<T>>::(into_inner|take)$", MAKE, "re-arms the destructor of the wrapped value"),
    (r"^<core::mem::manually_drop::ManuallyDrop<T>>::drop$", DROPP, "runs the wrapped value's destructor in place"),
    (r"^<core::mem::manually_drop::ManuallyDrop<T> as core::ops::deref::Deref(Mut)?>::deref(_mut)?$", NEUTRAL, "reference to the wrapped value"),
    (r"^core::mem::forget$", HIDE, "consumes without running the destructor"),
    (r"^core::mem::drop$", DROPV, "runs the destructor"),
    (r"^core::ptr::(read|read_unaligned|read_volatile)$", MAKE, "bitwise copy out of memory: a new owned value"),
    (r"^<\*(const|mut) T>::(read|read_unaligned|read_volatile)$", MAKE, "bitwise copy out of memory: a new owned value"),
    (r"^<core::ptr::non_null::NonNull<T>>::(read|read_unaligned|read_volatile)$", MAKE, "bitwise copy out of memory"),
    (r"^core::ptr::(write|write_unaligned|write_volatile)$", HIDE, "moves a value into memory without dropping"),
    (r"^<\*mut T>::(write|write_unaligned|write_volatile)$", HIDE, "moves a value into memory without dropping"),
    (r"^<core::ptr::non_null::NonNull<T>>::(write|write_unaligned|write_volatile)$", HIDE, "moves a value into memory"),
    (r"^core::ptr::drop_in_place$", DROPP, "runs the pointee's destructor"),
    (r"^<\*mut T>::drop_in_place$", DROPP, "runs the pointee's destructor"),
    (r"^core::mem::(replace|swap|take)$", NEUTRAL, "exchanges values: token count unchanged"),
    (r"^core::ptr::(replace|swap|swap_nonoverlapping)$", NEUTRAL, "exchanges values: token count unchanged"),
    (r"^core::mem::transmute_copy$", MAKE, "bitwise copy typed as the target"),
    (r"^core::mem::(zeroed|uninitialized)$", UNSUPPORTED, "conjures a value"),
    (r"^core::ptr::(copy|copy_nonoverlapping)$", "copy", "bitwise copy of n elements (duplicates tokens if the element type holds any)"),
    (r"^<\*(const|mut) T>::(copy_to|copy_to_nonoverlapping|copy_from|copy_from_nonoverlapping)$", "copy", "bitwise copy of n elements"),
    (r"^core::mem::(size_of|align_of|size_of_val|align_of_val|needs_drop|discriminant)$", NEUTRAL, "type/layout query"),
    (r"^core::mem::maybe_uninit::.*$|^<core::mem::maybe_uninit::MaybeUninit<T>>::(uninit|uninit_array|as_ptr|as_mut_ptr|zeroed|new|write)$", NEUTRAL, "MaybeUninit bookkeeping, no destructor involved"),
    (r"^<core::mem::maybe_uninit::MaybeUninit<T>>::(assume_init|assume_init_read)$", MAKE, "re-arms the destructor of the contained value"),
    (r"^<core::mem::maybe_uninit::MaybeUninit<T>>::assume_init_drop$", DROPP, "runs the contained value's destructor"),
    # --- allocation ------------------------------------------------------------------------
    (r"^alloc::alloc::(alloc|alloc_zeroed)$", ALLOC, "global allocator request"),
    (r"^alloc::alloc::dealloc$", DEALLOC, "global allocator release"),
    (r"^alloc::alloc::realloc$", UNSUPPORTED, "resizes a block"),
    (r"^<alloc::boxed::Box<T, alloc::alloc::Global>>::new$", BOXNEW, "allocates a box for the value (type-derived layout)"),
    (r"^<alloc::boxed::Box<T, A>>::(from_raw|into_raw|from_raw_in|into_raw_with_allocator)$|^<alloc::boxed::Box<T, alloc::alloc::Global>>::(from_raw|into_raw)$", NEUTRAL, "box <-> raw pointer, contents travel with it"),
    (r"^<alloc::boxed::Box<T, A>>::leak$|^<alloc::boxed::Box<T, alloc::alloc::Global>>::leak$", NEUTRAL, "box -> &'static mut: the allocation persists, contents travel with the reference (like into_raw)"),
    (r"^<alloc::boxed::Box<T, A>>::(into_pin|into_inner|into_boxed_slice)$|^<alloc::boxed::Box<T, alloc::alloc::Global>>::pin$", UNSUPPORTED, "box conversion not used by the crate"),
    (r"^<alloc::boxed::Box<T, A> as core::ops::drop::Drop>::drop$", BOXDROP, "frees the box allocation with the layout of its (possibly fat) pointee"),
    # --- atomics ---------------------------------------------------------------------------
    (r"^<core::sync::atomic::Atomic<\w+>>::new$", ATOMIC_NEW, "initial value of an atomic"),
    (r"^<core::sync::atomic::Atomic<\w+>>::fetch_add$", ATOMIC_RMW_ADD, "atomic increment, returns the old value"),
    (r"^<core::sync::atomic::Atomic<\w+>>::fetch_sub$", ATOMIC_RMW_SUB, "atomic decrement, returns the old value"),
    (r"^<core::sync::atomic::Atomic<\w+>>::load$", ATOMIC_LOAD, "atomic load"),
    (r"^<core::sync::atomic::Atomic<\w+>>::compare_exchange(_weak)?$", ATOMIC_CAS, "compare-and-swap: Ok(old) if the word held `current` and now holds `new`, Err(seen) and no change otherwise"),
    (r"^<core::sync::atomic::Atomic<.*>>::\w+$", ATOMIC_OTHER, "any other atomic access"),
    (r"^core::sync::atomic::(fence|compiler_fence)$", FENCE, "memory fence"),
    # --- control ---------------------------------------------------------------------------
    (r"^<core::result::Result<T, F> as core::ops::try_trait::FromResidual<.*>>::from_residual$", FROM_RESIDUAL, "`?` early return: Err"),
    (r"^<core::option::Option<T> as core::ops::try_trait::FromResidual<.*>>::from_residual$", FROM_RESIDUAL, "`?` early return: None"),
    (r"^<core::(result::Result<T, E>|option::Option<T>) as core::ops::try_trait::Try>::branch$", TRY_BRANCH, "`?` scrutinee"),
    (r"^<T as core::convert::Into<U>>::into$", INTO, "blanket Into: forwards to U::from"),
    (r"^<T as core::convert::From<T>>::from$", NEUTRAL, "identity conversion"),
    # --- higher order (Option/Result combinators used or plausible) ---------------------------
    (r"^<bool>::(then|then_some)$", HO, "`cond.then(f)`: calls f zero or one time; Some iff cond"),
    (r"^<core::(result::Result<T, E>|option::Option<T>)>::(map|map_err|map_or|map_or_else|and_then|or_else|unwrap_or_else|ok_or_else|is_some_and|is_ok_and|is_err_and|inspect|inspect_err|filter|then|then_some|get_or_insert_with)$", HO, "calls its callable zero or one time"),
    # --- neutral, cannot unwind -------------------------------------------------------------
    (r"^<(\*mut T|core::ptr::non_null::NonNull<T>) as unsize::CoerciblePtr<U>>::\w+$", NEUTRAL, "unsize crate: re-tags a raw pointer with new metadata, no user code involved"),
    (r"^<\*(const|mut) T>::\w+$", NEUTRAL, "raw-pointer arithmetic/cast"),
    (r"^<\*(const|mut) \[T\]>::\w+$", NEUTRAL, "raw-slice pointer op"),
    (r"^<core::ptr::non_null::NonNull<T>>::\w+$", NEUTRAL, "NonNull wrapper op"),
    (r"^<core::ptr::non_null::NonNull<T> as core::convert::From<&(mut )?T>>::from$", NEUTRAL, "NonNull from a reference"),
    (r"^<core::ptr::non_null::NonNull<\[T\]>>::\w+$", NEUTRAL, "NonNull slice op"),
    (r"^core::ptr::(addr_eq|eq|null|null_mut|slice_from_raw_parts|slice_from_raw_parts_mut|from_ref|from_mut|without_provenance|without_provenance_mut|dangling|dangling_mut|metadata|from_raw_parts|from_raw_parts_mut)$", NEUTRAL, "pointer construction/comparison"),
    (r"^core::(ptr|intrinsics)::write_bytes$", NEUTRAL, "fills memory with a byte pattern: creates and destroys no value (what may be overwritten is R-GATE's / R-PAYLOAD-GAP's question)"),
    (r"^<\[T\]>::(len|as_ptr|as_mut_ptr|is_empty|as_ptr_range|as_mut_ptr_range)$", NEUTRAL, "slice metadata"),
    (r"^<str>::(as_bytes|len|as_ptr|is_empty)$", NEUTRAL, "str metadata"),
    (r"^<alloc::vec::Vec<T, A>>::(as_mut_ptr|as_ptr|len|set_len|capacity|is_empty)$", NEUTRAL, "Vec metadata (set_len changes what the Vec will drop; see C06)"),
    (r"^<alloc::string::String>::(len|as_ptr|as_bytes|as_str|is_empty|capacity)$", NEUTRAL, "String metadata"),
    (r"^<core::alloc::layout::Layout>::\w+$", NEUTRAL, "layout algebra: returns Result on overflow, never unwinds"),
    (r"^<core::fmt::Arguments<'a>>::\w+$", NEUTRAL, "format_args! plumbing"),
    (r"^<core::fmt::rt::Argument<'_>>::\w+$", NEUTRAL, "format_args! plumbing"),
    (r"^<core::option::Option<T>>::(is_none|is_some|ok_or|as_ref|as_mut|take|is_none_or)$", NEUTRAL, "Option inspection/rewrap"),
    (r"^<core::result::Result<T, E>>::(ok|err|is_ok|is_err|as_ref|as_mut)$", NEUTRAL, "Result inspection/rewrap"),
    (r"^<core::marker::PhantomData<T> as .*$", NEUTRAL, "zero-sized marker"),
    (r"^<usize as core::clone::Clone>::clone$", NEUTRAL, "integer copy"),
    (r"^core::hint::\w+$|^core::intrinsics::(assume|likely|unlikely|cold_path|black_box)$", NEUTRAL, "optimizer hint"),
    # --- may panic -----------------------------------------------------------------------------
    (r"^<core::option::Option<T>>::(expect|unwrap)$", MAYPANIC, "panics on None"),
    (r"^<core::result::Result<T, E>>::(expect|unwrap|expect_err|unwrap_err)$", MAYPANIC, "panics on the other variant (formats E: user Debug)"),
]

_COMPILED = [(re.compile(rx), cls, why) for rx, cls, why in TABLE]

# Anything under these prefixes that no table row matches is an unmodelled primitive.
SENSITIVE = re.compile(
    r"core::sync::atomic|core::mem::manually_drop|core::mem::(forget|drop|transmute|replace|swap|take|zeroed|uninitialized)|^core::ptr::(read|write|copy|drop_in_place|replace|swap)|alloc::alloc::|alloc::boxed::Box<|alloc::rc::|alloc::sync::|core::cell::UnsafeCell|core::intrinsics::(transmute|atomic|copy|write_bytes|volatile)"
)

_cache = {}


def classify(path):
    """Return (class, reason) for a canonical non-local callee path, or (None, None)."""
    if not path:
        return (None, None)  # an indirect call (function pointer): no canonical path
    if path in _cache:
        return _cache[path]
    res = (None, None)
    for rx, cls, why in _COMPILED:
        if rx.search(path):
            res = (cls, why)
            break
    if res[0] is None and SENSITIVE.search(path.replace("alloc::alloc::Global", "Global")):  # the default allocator *type argument* is not a call into the allocator
        res = ("UNMODELLED", "sensitive prefix, no model row")
    _cache[path] = res
    return res


ORDERINGS = ("Relaxed", "Release", "Acquire", "AcqRel", "SeqCst")
