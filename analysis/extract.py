"""Runs the rustc_private driver over $VERIF_REPO (default /repo) and caches fact bases by content hash.

Nothing of the analysed crate is executed: `cargo +nightly check` with the driver as
RUSTC_WORKSPACE_WRAPPER type-checks the crate and dumps MIR facts.
"""
import fcntl
import hashlib
import json
import os
import shutil
import subprocess
import sys
import time

VERIF = os.path.dirname(os.path.dirname(os.path.abspath(__file__)))
CACHE = os.path.join(VERIF, ".cache")
DRIVER_SRC = os.path.join(VERIF, "driver")
DRIVER_BIN = os.path.join(CACHE, "driver", "triomphe-facts")

CONFIGS = {
    "default": [],
    "nodefault": ["--no-default-features"],
    "all": ["--all-features"],
    "minext": ["--no-default-features", "--features", "unsize,arc-swap"],
    "optnostd": ["--no-default-features", "--features", "serde,stable_deref_trait"],  # the optional integrations without std
    # a 32-bit, non-x86 target (core and alloc built from the installed rust-src, offline): the arms of `cfg(target_pointer_width)`
    # / `cfg(target_arch)` that the host build never compiles
    "arm32": ["--no-default-features", "--target", "armv7-unknown-linux-gnueabihf", "-Zbuild-std=core,alloc"],
}
TARGET_OF = {"arm32": "armv7-unknown-linux-gnueabihf"}


def repo():
    return os.environ.get("VERIF_REPO", "/repo")


def _run(cmd, env=None, cwd=None):
    e = dict(os.environ)
    e["CARGO_NET_OFFLINE"] = "true"
    if env:
        e.update(env)
    return subprocess.run(cmd, env=e, cwd=cwd, stdout=subprocess.PIPE, stderr=subprocess.STDOUT, text=True)


_sysroot = None


def sysroot():
    global _sysroot
    if _sysroot is None:
        _sysroot = subprocess.check_output(["rustc", "+nightly", "--print", "sysroot"], text=True).strip()
    return _sysroot


def _hash_files(paths):
    h = hashlib.sha256()
    for p in sorted(paths):
        h.update(p.encode())
        h.update(b"\0")
        with open(p, "rb") as f:
            h.update(f.read())
        h.update(b"\0")
    return h.hexdigest()[:20]


def driver_hash():
    files = []
    for root, _d, fs in os.walk(os.path.join(DRIVER_SRC, "src")):
        files += [os.path.join(root, f) for f in fs]
    files += [os.path.join(DRIVER_SRC, "Cargo.toml")]
    return _hash_files(files)


class Lock:
    def __init__(self, name):
        os.makedirs(os.path.join(CACHE, "locks"), exist_ok=True)
        self.path = os.path.join(CACHE, "locks", name)

    def __enter__(self):
        self.f = open(self.path, "w")
        fcntl.flock(self.f, fcntl.LOCK_EX)
        return self

    def __exit__(self, *a):
        fcntl.flock(self.f, fcntl.LOCK_UN)
        self.f.close()


def ensure_driver(verbose=False):
    stamp = DRIVER_BIN + ".hash"
    want = driver_hash()
    if os.path.exists(DRIVER_BIN) and os.path.exists(stamp) and open(stamp).read() == want:
        return DRIVER_BIN
    with Lock("driver"):
        if os.path.exists(DRIVER_BIN) and os.path.exists(stamp) and open(stamp).read() == want:
            return DRIVER_BIN
        tdir = os.path.join(CACHE, "driver-target")
        r = _run(["cargo", "+nightly", "build", "--release", "--offline"], env={"CARGO_TARGET_DIR": tdir}, cwd=DRIVER_SRC)
        if r.returncode != 0:
            sys.stderr.write(r.stdout)
            raise SystemExit("driver build failed")
        os.makedirs(os.path.dirname(DRIVER_BIN), exist_ok=True)
        shutil.copy2(os.path.join(tdir, "release", "triomphe-facts"), DRIVER_BIN + ".tmp")
        os.replace(DRIVER_BIN + ".tmp", DRIVER_BIN)
        with open(stamp, "w") as f:
            f.write(want)
    return DRIVER_BIN


def repo_files():
    r = repo()
    files = [os.path.join(r, "Cargo.toml")]
    lock = os.path.join(r, "Cargo.lock")
    if os.path.exists(lock):
        files.append(lock)
    for root, _d, fs in os.walk(os.path.join(r, "src")):
        files += [os.path.join(root, f) for f in fs if f.endswith(".rs")]
    return files


def repo_hash():
    return _hash_files(repo_files())


class BuildError(Exception):
    pass


def facts_path(config, da=False):
    """Extract (or reuse by content hash) the fact base of one configuration; returns the file path."""
    assert config in CONFIGS
    drv = ensure_driver()
    tag = config + ("+da" if da else "")
    key = "%s-%s-%s-%s" % (tag, repo_hash(), driver_hash(), hashlib.sha256(" ".join(CONFIGS[config]).encode()).hexdigest()[:8])
    out = os.path.join(CACHE, "facts", key + ".json")
    if os.path.exists(out):
        return out
    with Lock("facts-" + tag):
        if os.path.exists(out):
            return out
        os.makedirs(os.path.dirname(out), exist_ok=True)
        tdir = os.path.join(CACHE, "target", tag)
        # cargo's freshness cache would skip the wrapper: forget triomphe's own fingerprints
        fp = os.path.join(tdir, TARGET_OF[config], "debug", ".fingerprint") if config in TARGET_OF else os.path.join(tdir, "debug", ".fingerprint")
        if os.path.isdir(fp):
            for d in os.listdir(fp):
                if d.startswith("triomphe-"):
                    shutil.rmtree(os.path.join(fp, d), ignore_errors=True)
        tmp = out + ".tmp%d" % os.getpid()
        if os.path.exists(tmp):
            os.remove(tmp)
        env = {
            "LD_LIBRARY_PATH": os.path.join(sysroot(), "lib"),
            "TRIOMPHE_FACTS_OUT": tmp,
            "CARGO_PROFILE_DEV_DEBUG_ASSERTIONS": "true" if da else "false",
            "RUSTFLAGS": "-Zmir-opt-level=0 -Awarnings",
            "RUSTC_WORKSPACE_WRAPPER": drv,
            "CARGO_TARGET_DIR": tdir,
        }
        cmd = ["cargo", "+nightly", "check", "--offline", "--lib", "--manifest-path", os.path.join(repo(), "Cargo.toml")] + CONFIGS[config]
        r = _run(cmd, env=env)
        if r.returncode != 0 or not os.path.exists(tmp):
            raise BuildError("fact extraction failed for config %s (exit %d):\n%s" % (tag, r.returncode, r.stdout[-4000:]))
        os.replace(tmp, out)
        # keep the cache bounded: drop fact files of other tree hashes for this tag (older than 1 day)
        try:
            for f in os.listdir(os.path.dirname(out)):
                p = os.path.join(os.path.dirname(out), f)
                if f.startswith(tag + "-") and p != out and time.time() - os.path.getmtime(p) > 86400:
                    os.remove(p)
        except OSError:
            pass
    return out


_loaded = {}


def facts(config, da=False):
    p = facts_path(config, da)
    if p not in _loaded:
        with open(p) as f:
            _loaded[p] = json.load(f)
        _loaded[p]["_path"] = p
        _loaded[p]["_config"] = config + ("+da" if da else "")
    return _loaded[p]


def extract_many(tags):
    """Extract several (config, da) pairs in parallel processes; returns {tag: path}."""
    from concurrent.futures import ThreadPoolExecutor

    ensure_driver()
    with ThreadPoolExecutor(max_workers=8) as ex:
        futs = {t: ex.submit(facts_path, t[0], t[1]) for t in tags}
        return {t: f.result() for t, f in futs.items()}


if __name__ == "__main__":
    t0 = time.time()
    tags = [(c, False) for c in CONFIGS] + [(c, True) for c in CONFIGS]
    res = extract_many(tags)
    for t, p in res.items():
        print(t, p, os.path.getsize(p))
    print("%.1fs" % (time.time() - t0))
