"""Pointer normal forms: which function of the handle's stored pointer does an accessor return?

Normal forms:
  ('arg', i)                       the i-th argument (a handle, or a raw pointer)
  ('stored', H, field)             the pointer stored in handle H
  ('data', P, how)                 address of the payload field of the block P points to (how = 'raw' | 'ref')
  ('sub_off', P)                   P minus offset_of_data(P): the block a payload pointer belongs to
  ('mk', HandleName, P)            a handle built around pointer P
  ('opaque', text)                 anything else
"""
from . import cfg, symx

MD_IDENT = (
    "<core::mem::manually_drop::ManuallyDrop<T>>::new",
    "<core::mem::manually_drop::ManuallyDrop<T>>::into_inner",
    "<core::mem::manually_drop::ManuallyDrop<T> as core::ops::deref::Deref>::deref",
    "<core::mem::manually_drop::ManuallyDrop<T> as core::ops::deref::DerefMut>::deref_mut",
    "core::ptr::slice_from_raw_parts_mut",
    "core::ptr::slice_from_raw_parts",
    "<core::ptr::non_null::NonNull<[T]>>::slice_from_raw_parts",
    "<core::ptr::non_null::NonNull<T> as unsize::CoerciblePtr<U>>::replace_ptr",
    "<*mut T as unsize::CoerciblePtr<U>>::replace_ptr",
    "core::ptr::read",
    "<core::mem::manually_drop::ManuallyDrop<T>>::take",
)


def offset_fns(F):
    """Role: the function(s) mapping a payload pointer to the payload's offset inside its block - identified by use (its result is
    what `byte_sub` takes off a raw payload pointer), wherever it lives (method of the block type or a free function)."""
    c = F.__dict__.get("_offset_fns")
    if c is not None:
        return c
    out = set()
    for b in F.body_list:
        imp = b.get("impl") or {}
        if imp and not imp.get("trait") and F.is_adt(imp["self_ty"], F.inner_path) and "output" in b and F.ts(b["output"]) == "usize" and b.get("inputs") and F.ty(b["inputs"][0])["k"] == "ptr":
            out.add(b["key"])
        B = None
        for bl in b["blocks"]:
            t = bl["term"]
            if t["k"] != "call" or len(t.get("args", [])) != 2:
                continue
            r = t.get("resolved")
            path = r["def"] if isinstance(r, dict) else (t.get("callee") or "")
            if path not in ("<*const T>::byte_sub", "<*mut T>::byte_sub", "<*const T>::wrapping_byte_sub", "<*mut T>::wrapping_byte_sub"):
                continue
            if B is None:
                B = cfg.Body(b)
            o = B.origin(t["args"][1])
            if o.get("kind") == "call":
                r2 = o["term"].get("resolved")
                k2 = r2["def"] if isinstance(r2, dict) else o["term"].get("callee")
                b2 = F.body(k2) if k2 else None
                if b2 is not None and "output" in b2 and F.ts(b2["output"]) == "usize" and len(b2.get("inputs", [])) == 1 and F.ty(b2["inputs"][0])["k"] in ("ptr", "ref") and not F.handle_name(F.strip_refs(b2["inputs"][0])):
                    # (not a handle's own accessor - `ArcUnion::tag(&self)` taken off the tagged word is not a data offset)
                    out.add(k2)
    F.__dict__["_offset_fns"] = out
    return out


class Norm:
    def __init__(self, F):
        self.F = F
        self._bodies = {}
        self.handle_ptr_fields = {}
        self.wrapper_fields = set()
        for hn, hp in F.handle_paths.items():
            adt = F.adts.get(hp)
            if adt and adt["kind"] == "Struct":
                for f in adt["variants"][0]["fields"]:
                    t = F.ty(f["ty"])
                    if t["k"] == "adt" and t["path"] == "core::ptr::non_null::NonNull":
                        self.handle_ptr_fields[hn] = f["name"]
                    elif F.handle_name(f["ty"]) is not None:
                        self.wrapper_fields.add(f["name"])  # e.g. UniqueArc's inner Arc

    def B(self, key):
        if key not in self._bodies:
            self._bodies[key] = cfg.Body(self.F.body(key))
        return self._bodies[key]

    def ret(self, key, argmap=None, depth=0, gmap=None):
        """Normal form of the value returned by local body `key`. `gmap` maps the body's generic parameter names to
        type indices of the call site (used to see through `f(&transient)` when f is a closure given as a generic argument)."""
        F = self.F
        B = self.B(key)
        ds = B.defs().get(0, [])
        if len(ds) != 1:
            # a checked conversion answering through its variant (`try_unique(this) -> Result<UniqueArc, Arc>`): one normal form
            # per variant, if every path that returns that variant returns the same thing
            cs = symx.path_cases(F, F.body(key)) if depth < 22 else None
            by_variant = {}
            if cs:
                old = getattr(self, "_gmap", None)
                self._gmap = gmap or {}
                try:
                    for _c, v in cs:
                        if not (v[0] == "agg" and v[1] == "adt" and v[3] is not None):
                            by_variant = None
                            break
                        by_variant.setdefault(str(v[3]), set()).add(self.norm(v, argmap or {}, depth + 1))
                finally:
                    self._gmap = old
            if by_variant and all(len(x) == 1 for x in by_variant.values()):
                return ("multi", tuple(sorted((k, next(iter(x))) for k, x in by_variant.items())))
            return ("opaque", "%s returns one of %d values" % (key, len(ds)))
        e = symx.local_expr(F, B, 0, 0)
        old = getattr(self, "_gmap", None)
        self._gmap = gmap or {}
        try:
            return self.norm(e, argmap or {}, depth)
        finally:
            self._gmap = old

    def _gmap_for(self, callee_key, e):
        b = self.F.body(callee_key)
        if b is None or len(e) < 8:
            return {}
        names = [g["name"] for g in b["generics"]]
        out = {}
        for n, a in zip(names, e[7]):
            if a[0] == "t":
                out[n] = a[1]
        # arguments that are still the caller's own parameters: resolve through the caller's map
        cur = getattr(self, "_gmap", None) or {}
        for n, ti in list(out.items()):
            t = self.F.ty(ti)
            if t["k"] == "param" and t["name"] in cur:
                out[n] = cur[t["name"]]
        return out

    def norm(self, e, argmap, depth=0):
        F = self.F
        if depth > 25:
            return ("opaque", "depth")
        k = e[0]
        if k == "arg":
            return argmap.get(e[1], ("arg", e[1]))
        if k == "cast":
            return self.norm(e[2], argmap, depth + 1)
        if k == "const":
            return ("const", e[1])
        if k == "agg" and e[1] == "closure" and not e[4] and e[2] in F.bodies:
            return ("fnval", e[2])  # a capture-free closure used as a value (coerced to a function pointer)
        if k == "addr":
            n = self.norm(e[1], argmap, depth + 1)
            if n[0] == "dataplace":
                how = e[3] if len(e) > 3 else "ref"
                if len(n) > 2 and n[2] == "ref":
                    how = "ref"  # re-borrowing a place reached through `&T` cannot widen its provenance again
                return ("data", n[1], how)
            return n
        if k == "proj":
            r = self.norm(e[1], argmap, depth + 1)
            for name in e[2]:
                if r[0] == "multi" and getattr(name, "variant", None) is not None:
                    hit = [nf for vn, nf in r[1] if vn == name.variant]
                    r = hit[0] if hit else ("opaque", "variant %s of %s" % (name.variant, r))
                    continue
                if name == "*":
                    if r[0] == "data":
                        r = ("dataplace", r[1], r[2])  # deref of a payload pointer is the payload place
                    continue
                if r[0] == "struct" and name in r[2]:
                    r = r[3][r[2].index(name)]
                    continue
                if name == (F.data_field[1] if F.data_field else None) and r[0] in ("stored", "arg", "sub_off", "opaque", "mk"):
                    r = ("dataplace", r, None)
                elif name in self.handle_ptr_fields.values() or name in self.wrapper_fields:
                    if r[0] == "mk":
                        r = r[2]
                    else:
                        r = ("stored", r, name)
                else:
                    r = ("field", r, name)
            return r
        if k == "agg":
            if e[1] == "adt":
                hn = F.path_to_handle.get(e[2])
                ops = e[4]
                if hn and ops:
                    return ("mk", hn, self.norm(ops[0], argmap, depth + 1))
                if len(e) > 5 and e[5] and len(e[5]) == len(ops):
                    # a private wrapper struct built on the spot (`Transient(ManuallyDrop::new(arc), PhantomData)`): remember its
                    # fields so that a later `.0` finds what was put in
                    return ("struct", e[2], tuple(e[5]), tuple(self.norm(o, argmap, depth + 1) for o in ops))
            return ("opaque", symx.show(e))
        if k == "call":
            path, name, args = e[1], e[2], e[3]
            if path in MD_IDENT and args:
                return self.norm(args[0], argmap, depth + 1)
            if path in ("<*const T>::byte_sub", "<*mut T>::byte_sub") and len(args) == 2:
                x = self.norm(args[0], argmap, depth + 1)
                o = self.norm(args[1], argmap, depth + 1)
                if o == ("offset_of", x):
                    return ("sub_off", x)
                return ("opaque", "byte_sub(%s, %s)" % (x, o))
            if path == "core::ops::function::FnOnce::call_once" and len(args) == 2 and not (len(e) > 6 and e[6]) and args[1][0] == "agg" and args[1][1] == "tuple":
                # a call through a function pointer: the pointer's value, in normal form, is a closure body of this crate
                fv = self.norm(args[0], argmap, depth + 1)
                if fv[0] == "fnval" and fv[1] in F.bodies:
                    am = {2 + i: self.norm(a, argmap, depth + 1) for i, a in enumerate(args[1][4])}
                    return self.ret(fv[1], am, depth + 1, getattr(self, "_gmap", None))
                return ("opaque", "%s(..)" % name)
            if path in ("core::ops::function::FnOnce::call_once", "core::ops::function::FnMut::call_mut", "core::ops::function::Fn::call") and len(args) == 2 and len(e) > 6 and e[6]:
                # calling a callable of generic type: if the call site supplied a capture-free closure / fn item, inline it
                ft = F.ty(F.strip_refs(e[6][0]))
                if ft["k"] == "param" and ft["name"] in (getattr(self, "_gmap", None) or {}):
                    ft = F.ty(F.strip_refs(self._gmap[ft["name"]]))
                tup = args[1]
                fdef = ft.get("def")
                if ft["k"] == "fndef" and fdef not in F.bodies:
                    from . import implsel

                    # a trait method named through the trait (`Arc::clone`): the local impl's method
                    tyi = F.strip_refs(e[6][0])
                    if F.ty(tyi)["k"] == "param" and F.ty(tyi)["name"] in (getattr(self, "_gmap", None) or {}):
                        tyi = F.strip_refs(self._gmap[F.ty(tyi)["name"]])
                    fdef = implsel.fn_item(F, tyi)[0]
                if ft["k"] in ("closure", "fndef") and fdef in F.bodies and tup[0] == "agg" and tup[1] == "tuple":
                    first = 2 if ft["k"] == "closure" else 1
                    am = {first + i: self.norm(a, argmap, depth + 1) for i, a in enumerate(tup[4])}
                    return self.ret(fdef, am, depth + 1, getattr(self, "_gmap", None))
                return ("opaque", "%s(..)" % name)
            b = F.body(path)
            if b is not None:
                if path in offset_fns(F) and args:
                    return ("offset_of", self.norm(args[0], argmap, depth + 1))
                am = {i + 1: self.norm(a, argmap, depth + 1) for i, a in enumerate(args)}
                return self.ret(path, am, depth + 1, self._gmap_for(path, e))
            return ("opaque", "%s(..)" % name)
        if k == "bin":
            return ("bin", e[1], self.norm(e[2], argmap, depth + 1), self.norm(e[3], argmap, depth + 1))
        return ("opaque", symx.show(e))


def show(n):
    k = n[0]
    if k == "arg":
        return "arg%d" % n[1]
    if k == "stored":
        return "%s.%s" % (show(n[1]), n[2])
    if k == "data":
        return "%s(%s).data" % ("&raw " if n[2] == "raw" else "&", show(n[1]))
    if k == "dataplace":
        return "(*%s).data" % show(n[1])
    if k == "sub_off":
        return "(%s - offset_of_data)" % show(n[1])
    if k == "mk":
        return "%s{%s}" % (n[1], show(n[2]))
    if k == "offset_of":
        return "offset_of_data(%s)" % show(n[1])
    if k == "field":
        return "%s.%s" % (show(n[1]), n[2])
    if k == "bin":
        return "(%s %s %s)" % (show(n[2]), n[1], show(n[3]))
    return str(n[1]) if len(n) > 1 else str(n)
