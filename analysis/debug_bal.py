import sys, time
from . import facts, effects
from .effects import imbalance, dcount, vget, VK

def main():
    cfg = sys.argv[1] if len(sys.argv)>1 else 'default'
    da = len(sys.argv)>2 and sys.argv[2]=='da'
    F = facts.load(cfg, da)
    E = effects.Engine(F)
    t0=time.time()
    tot=0
    for b in F.body_list:
        try:
            effs = E.summary(b['key'])
        except effects.TooManyPaths as e:
            print("TOOMANY", b['key']); continue
        tot+=len(effs)
        bad=[e for e in effs if imbalance(e.vec)!=0 or e.notes]
        if bad or (len(sys.argv)>3 and sys.argv[3] in b['key']):
            print(b['key'])
            for e in effs:
                print("   ", e.exit, e.tag, {k:v for k,v in zip(VK,e.vec) if v}, 'I=%d'%imbalance(e.vec), e.pcalls, set(e.notes) or '')
    print("bodies",len(F.body_list),"effects",tot,"%.2fs"%(time.time()-t0), "unmodelled", E.unmodelled, "rec", E.recursion)
main()
