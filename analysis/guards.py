"""Partial-initialisation guards.

A constructor that fills a block element by element may keep a private guard object whose destructor destroys "the elements written
so far" if filling unwinds (`struct PartialSlice { start, initialized }`, `SliceFill { inner, filled }`). Such a guard is a second
party that destroys payload values, next to the handle: two structural obligations keep "every value is destroyed exactly once".

  R-PGUARD-OWNER  once a handle that owns the *initialised* payload exists (a handle value whose payload type no longer mentions
                  MaybeUninit is made or returned by a call), the guard must be disarmed (forgotten / consumed) before anything
                  drops it: on no path - unwinding included - is the guard's destructor run after that point, or guard and handle
                  both destroy the elements.
  R-PGUARD-COUNT  the guard's element count never runs ahead of the writes at a point where the guard can be dropped: with
                  d = (increments of the count field) - (slot writes), no call that can unwind into the guard's destructor is made
                  while d > 0 (the destructor would destroy a slot nobody wrote).

Both are decided on MIR: the first on the enumerated paths of the function that owns the guard, the second by a forward dataflow
(d clipped to [-3, 3]) over the body with private helpers inlined (`next_slot()`, `finish()`).
"""
from . import balance, inline, model

MAYBE_UNINIT = "core::mem::maybe_uninit::MaybeUninit"
SLOT_WRITES = (
    "core::ptr::write",
    "<*mut T>::write",
    "<core::ptr::non_null::NonNull<T>>::write",
    "<core::mem::maybe_uninit::MaybeUninit<T>>::write",
)


def callee_of(t):
    r = t.get("resolved")
    return r["def"] if isinstance(r, dict) else (t.get("callee") or "")


def _targs(t):
    r = t.get("resolved")
    return [a["t"] for a in (r["args"] if isinstance(r, dict) else t.get("callee_args") or []) if "t" in a]


def payload_guards(F):
    """{adt path: {'drop': key of the Drop body, 'counts': names of usize fields}} for local non-handle types whose destructor runs
    destructors of caller-typed values in place."""
    cache = F.__dict__.get("_payload_guards")
    if cache is not None:
        return cache
    out = {}
    for adt, gk in F.drop_impls.items():
        if F.path_to_handle.get(adt) is not None:
            continue
        gb = inline.inlined(F, gk) or F.body(gk)
        a = F.adts.get(adt)
        if gb is None or not a or not a.get("variants"):
            continue
        destroys = False
        elems = set()
        for bl in gb["blocks"]:
            t = bl["term"]
            if t["k"] == "call" and model.classify(callee_of(t))[0] == model.DROPP and any(F.mentions_param(x) for x in _targs(t)):
                destroys = True
                for x in _targs(t):
                    if F.ty(x)["k"] == "slice":
                        elems.add(F.ts(F.ty(x)["t"]))  # `drop_in_place::<[T]>`: the counted elements are of type T
        if destroys:
            out[adt] = {"drop": gk, "counts": {f["name"] for f in a["variants"][0]["fields"] if F.ts(f["ty"]) == "usize"}, "elems": elems}
    F.__dict__["_payload_guards"] = out
    return out


def _guard_locals(F, b, G):
    return {i for i, lc in enumerate(b["locals"]) if F.ty(lc["ty"])["k"] == "adt" and F.ty(lc["ty"])["path"] in G}


def _initialised_owner(F, ty):
    return ty is not None and F.tokens(ty)[0] > 0 and not F.mentions_adt(ty, MAYBE_UNINIT)


def rule_owner(ctx, rep, rule="R-PGUARD-OWNER"):
    n = 0
    for tag, F, E in ctx.each():
        G = payload_guards(F)
        if not G:
            continue
        A = balance.analysis(tag, F, E)
        for b in F.body_list:
            if b["kind"] not in ("Fn", "AssocFn") or b["key"] in A.errors or not _guard_locals(F, b, G):
                continue
            if (b.get("impl") or {}).get("trait") == "core::ops::drop::Drop":
                continue
            n += 1
            ik = "%s/guard-vs-owner" % b["key"]
            bad = None
            for p in A.paths.get(b["key"], []):
                owner = None
                for e in p.events:
                    d = e["detail"] if isinstance(e["detail"], dict) else {}
                    if owner is None:
                        t = b["blocks"][e["bb"]]["term"] if isinstance(e.get("bb"), int) and e["bb"] < len(b["blocks"]) else None
                        if e["kind"] == "MAKE" and d.get("handle") and "MaybeUninit" not in str(d.get("ty")):
                            owner = e
                        elif e["kind"] == "CALL" and d.get("outcome") is None and t is not None and t["k"] == "call" and _initialised_owner(F, t["dest"].get("ty")):
                            owner = e
                    elif e["kind"] == "DROP" and d.get("adt") in G:
                        bad = (p, owner, e)
                        break
                if bad:
                    break
            if bad:
                p, o, e = bad
                rep.bad(rule, ik, balance.path_report(F, b, p, "the partial-initialisation guard %s is dropped (line %s) after a handle owning the initialised elements exists (line %s): its destructor and the handle's both destroy the elements - every payload value is destroyed twice%s" % (e["detail"].get("adt"), e["span"]["line"], o["span"]["line"], " when this path unwinds" if p.exit == "unw" else "")), F.loc(b, e["span"]), tag)
            else:
                rep.ok(rule, ik, cfg=tag)
    return n


def _count_assign(F, s, G):
    """Is the statement an assignment to a count field of a guard?"""
    if s["k"] != "assign" or not s["lhs"]["p"]:
        return False
    pe = s["lhs"]["p"][-1]
    if not (isinstance(pe, dict) and pe.get("adt") in G and pe.get("f") is not None):
        return False
    a = F.adts.get(pe["adt"])
    fields = a["variants"][0]["fields"]
    name = fields[pe["f"]]["name"] if isinstance(pe["f"], int) and pe["f"] < len(fields) else pe.get("name")
    return name in G[pe["adt"]]["counts"]


def _can_unwind_into_guard(F, b, t, G):
    u = t.get("unwind")
    if not isinstance(u, int):
        return False
    seen, todo = set(), [u]
    while todo:
        x = todo.pop()
        if x in seen or x >= len(b["blocks"]):
            continue
        seen.add(x)
        tt = b["blocks"][x]["term"]
        if tt["k"] == "drop":
            ty = F.ty(tt["ty"]) if "ty" in tt else F.ty(tt["place"].get("ty", 0))
            if ty["k"] == "adt" and ty["path"] in G:
                return True
        for k in ("target", "unwind"):
            if isinstance(tt.get(k), int):
                todo.append(tt[k])
        if tt["k"] == "switch":
            todo += [tg for _v, tg in tt["arms"]] + [tt["otherwise"]]
    return False


def _user_unwind(t):
    c = callee_of(t)
    cls = model.classify(c)[0]
    return t.get("resolved") == "unresolved" or bool(t.get("indirect")) or cls in (model.PANIC, model.MAYPANIC, model.HO)


def rule_count(ctx, rep, rule="R-PGUARD-COUNT"):
    n = 0
    for tag, F, E in ctx.each():
        G = payload_guards(F)
        if not G:
            continue
        for b0 in F.body_list:
            if b0["kind"] not in ("Fn", "AssocFn") or not _guard_locals(F, b0, G) or (b0.get("impl") or {}).get("trait") == "core::ops::drop::Drop":
                continue
            if not balance.is_api(F, b0) and any(F.ty(i)["k"] in ("ref", "adt") and F.ty(F.strip_refs(i)).get("path") in G for i in b0.get("inputs", [])):
                continue  # a method of the guard itself: judged inlined into its users
            b = inline.inlined(F, b0["key"]) or b0
            n += 1
            ik = "%s/count-vs-writes" % b0["key"]
            blocks = b["blocks"]
            elems = set()
            for li in _guard_locals(F, b0, G):
                elems |= G[F.ty(b0["locals"][li]["ty"])["path"]]["elems"]
            IN = {0: {0}}
            todo = [0]
            bad = None
            while todo and bad is None:
                bi = todo.pop()
                bl = blocks[bi]
                t = bl["term"]
                outs = {}

                def flow(tg, vals):
                    if isinstance(tg, int) and tg < len(blocks):
                        outs.setdefault(tg, set()).update(vals)

                cur = set(IN[bi])
                for s in bl["stmts"]:
                    if s["k"] == "assign" and s["rv"]["k"] == "agg" and s["rv"].get("adt") in G:
                        cur = {0}  # the guard starts here, with nothing counted and nothing owed
                    if _count_assign(F, s, G) and not (s["rv"]["k"] == "use" and "c" in s["rv"]["op"]):
                        cur = {min(3, v + 1) for v in cur}
                k = t["k"]
                if k == "call":
                    c = callee_of(t)
                    is_write = c in SLOT_WRITES and any(F.mentions_param(x) and (not elems or F.ts(x) in elems) for x in _targs(t))
                    if not is_write and max(cur) > 0 and _user_unwind(t) and _can_unwind_into_guard(F, b, t, G):
                        bad = (bi, t)
                        break
                    flow(t.get("target"), {max(-3, v - 1) for v in cur} if is_write else cur)
                    flow(t.get("unwind"), cur)
                elif k == "switch":
                    for _v, tg in t["arms"]:
                        flow(tg, cur)
                    flow(t["otherwise"], cur)
                elif k in ("goto", "drop", "assert"):
                    flow(t.get("target"), cur)
                    flow(t.get("unwind"), cur)
                for tg, vals in outs.items():
                    if not vals <= IN.get(tg, set()):
                        IN.setdefault(tg, set()).update(vals)
                        todo.append(tg)
            if bad:
                bi, t = bad
                rep.bad(rule, ik, "the guard's element count has been incremented for a slot that is not yet written when %s is called (line %s); if that call unwinds, the guard's destructor destroys a slot nobody wrote (a destructor run on uninitialised memory)" % (callee_of(t) or "a callable", t["span"]["line"]), F.loc(b0, t["span"]), tag)
            else:
                rep.ok(rule, ik, cfg=tag)
    return n


def rules(ctx, rep):
    """Both rules; vacuous (0 instances) on a tree without partial-initialisation guards."""
    return rule_owner(ctx, rep) + rule_count(ctx, rep)
