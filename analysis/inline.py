"""Virtual inlining of private helper functions at the MIR level.

Many rules are intra-procedural (dominance, loops, def-use expressions inside one constructor). Extracting a private helper
(`fn write_header(..)`, `struct Allocation` with `header_ptr()`, a `finish()` tail) must not change their verdict, so they run on
a synthetic body in which calls of private, non-recursive local functions instantiated at the caller's own type parameters are
replaced by the callee's blocks (locals and blocks renumbered, arguments assigned, `return` turned into an assignment of the
destination and a jump to the call's target, unwinding redirected to the call's unwind target).
"""
import copy

from . import balance


def _is_place(d):
    return isinstance(d, dict) and "l" in d and "p" in d and isinstance(d["l"], int) and isinstance(d["p"], list)


def _remap(x, lo):
    """Deep copy with every local index shifted by `lo`."""
    if isinstance(x, dict):
        if _is_place(x):
            y = {k: (_remap(v, lo) if k not in ("l", "p") else v) for k, v in x.items()}
            y["l"] = x["l"] + lo
            y["p"] = [({"index": pe["index"] + lo} if isinstance(pe, dict) and "index" in pe and len(pe) == 1 else _remap(pe, 0) if isinstance(pe, dict) else pe) for pe in x["p"]]
            return y
        return {k: _remap(v, lo) for k, v in x.items()}
    if isinstance(x, list):
        return [_remap(v, lo) for v in x]
    return x


TYPE_KEYS = ("ty", "discr_ty", "callee_self", "callee_impl_self", "impl_self", "self", "t")
TYPE_LIST_KEYS = ("arg_tys",)


def subst_type(F, idx, env, memo=None):
    """Type `idx` with type parameters replaced per env (name -> type index); interned into the fact base's type table."""
    import re

    if memo is None:
        memo = {}
    if idx in memo:
        return memo[idx]
    t = F.types[idx]
    k = t["k"]
    if k == "param":
        memo[idx] = env.get(t["name"], idx)
        return memo[idx]
    if not any(F.types[x]["k"] == "param" and F.types[x]["name"] in env for x in F.walk(idx)):
        memo[idx] = idx
        return idx
    by_s = F.__dict__.get("_types_by_s")
    if by_s is None:
        by_s = F.__dict__["_types_by_s"] = {tt["s"]: i for i, tt in enumerate(F.types)}
    pat = re.compile(r"(?<![A-Za-z0-9_:'])(" + "|".join(re.escape(n) for n in sorted(env, key=len, reverse=True)) + r")(?![A-Za-z0-9_])")
    new_s = pat.sub(lambda m: F.types[env[m.group(1)]]["s"], t["s"])
    if new_s in by_s:
        memo[idx] = by_s[new_s]
        return memo[idx]
    n = dict(t)
    n["s"] = new_s
    ni = len(F.types)
    F.types.append(n)
    by_s[new_s] = ni
    memo[idx] = ni
    if "t" in t and isinstance(t["t"], int):
        n["t"] = subst_type(F, t["t"], env, memo)
    if "ts" in t:
        n["ts"] = [subst_type(F, x, env, memo) for x in t["ts"]]
    if "args" in t:
        n["args"] = [({**a, "t": subst_type(F, a["t"], env, memo)} if "t" in a else a) for a in t["args"]]
    if "upvars" in t:
        n["upvars"] = [subst_type(F, x, env, memo) for x in t["upvars"]]
    if "params" in t:
        n["params"] = [subst_type(F, x, env, memo) for x in t["params"]]
    return ni


def _subst_types(x, F, env, memo):
    if isinstance(x, dict):
        out = {}
        for k, v in x.items():
            if k in TYPE_KEYS and isinstance(v, int) and not isinstance(v, bool):
                out[k] = subst_type(F, v, env, memo)
            elif k in TYPE_LIST_KEYS and isinstance(v, list):
                out[k] = [subst_type(F, i, env, memo) if isinstance(i, int) else i for i in v]
            else:
                out[k] = _subst_types(v, F, env, memo)
        return out
    if isinstance(x, list):
        return [_subst_types(v, F, env, memo) for v in x]
    return x


def _instantiation_env(F, t, cb):
    """{callee type parameter name: type index at the call site} for a non-identity instantiation, or None if it cannot be told."""
    r = t.get("resolved")
    gargs = r["args"] if isinstance(r, dict) else (t.get("callee_args") or [])
    tys = [a["t"] for a in gargs if "t" in a]
    names = [g["name"] for g in cb.get("generics", []) if g["kind"] == "type"]
    if len(tys) != len(names):
        return None
    return {n: ti for n, ti in zip(names, tys) if not (F.ty(ti)["k"] == "param" and F.ty(ti)["name"] == n)}


def _identity_instantiation(F, t, cb):
    """The call instantiates the callee's type parameters with the caller's parameters of the same names (so the callee's types
    can be used verbatim in the caller)."""
    r = t.get("resolved")
    gargs = r["args"] if isinstance(r, dict) else (t.get("callee_args") or [])
    tys = [a["t"] for a in gargs if "t" in a]
    names = [g["name"] for g in cb.get("generics", []) if g["kind"] == "type"]
    if len(tys) != len(names):
        return False
    for ti, n in zip(tys, names):
        tt = F.ty(ti)
        if tt["k"] != "param" or tt["name"] != n:
            return False
    return True


def _returns_typed_block(F, cb):
    """The function hands back a typed block pointer `NonNull<INNER<..>>`: an allocation helper proper - the root of an
    allocation-to-handle region, which the constructor rules want to see as a call (`allocate_for_header_and_slice(len)`)."""
    if "output" not in cb:
        return False
    t = F.ty(cb["output"])
    if t["k"] == "adt" and t["path"] == "core::ptr::non_null::NonNull" and any(F.is_adt(a["t"], F.inner_path) for a in t.get("args", []) if "t" in a):
        # ... and is told nothing but how much to allocate (a length or a Layout, possibly a re-typing callable): a wrapper that
        # also takes data to put into the block (`allocate_with_copied_slice(src, len)`) is inlined like any other helper
        for i in cb.get("inputs", []):
            it = F.ty(i)
            if F.ts(i) == "usize" or (it["k"] == "adt" and it["path"] == "core::alloc::layout::Layout") or it["k"] in ("closure", "fndef", "param", "fnptr"):
                continue
            return False
        return True
    return False


def default_pred(F):
    def pred(key):
        cb = F.body(key)
        return cb is not None and cb["kind"] in ("Fn", "AssocFn") and not balance.is_api(F, cb) and not _returns_typed_block(F, cb)

    return pred


def inline_body(F, b, pred=None, depth=3, stack=(), max_blocks=600):
    """Synthetic copy of body b with qualifying calls inlined (or b itself if there is nothing to inline)."""
    if pred is None:
        pred = default_pred(F)
    if depth <= 0:
        return b
    nb = None
    i = 0
    skip = set()
    inlined = []
    blocks = b["blocks"]
    while i < len(blocks):
        bl = blocks[i]
        t = bl["term"]
        if i in skip or t["k"] != "call":
            i += 1
            continue
        r = t.get("resolved")
        key = r["def"] if isinstance(r, dict) else t.get("callee")
        cb = F.body(key) if key else None
        if cb is None or key in stack or key == b["key"] or not pred(key) or len(blocks) + len(cb["blocks"]) > max_blocks:
            i += 1
            continue
        env = _instantiation_env(F, t, cb)
        if env is None or len(t["args"]) != cb["arg_count"]:
            i += 1
            continue
        cbi = inline_body(F, cb, pred, depth - 1, stack + (b["key"],), max_blocks)
        if env:
            # the callee is instantiated at other types than its own parameters (`Allocation::<H, MaybeUninit<T>>::new`):
            # rewrite every type it mentions
            memo = {}
            cbi = {**cbi, "locals": _subst_types(cbi["locals"], F, env, memo), "blocks": _subst_types(cbi["blocks"], F, env, memo)}
        if nb is None:
            nb = copy.deepcopy(b)
            blocks = nb["blocks"]
            bl = blocks[i]
            t = bl["term"]
        lo = len(nb["locals"])
        bo = len(blocks)
        for lc in cbi["locals"]:
            nb["locals"].append(dict(lc))
        dest, target, unwind = t["dest"], t.get("target"), t.get("unwind")
        in_cleanup = bool(bl.get("cleanup"))
        # arguments
        for j, a in enumerate(t["args"]):
            lj = lo + 1 + j
            bl["stmts"].append({"k": "assign", "lhs": {"l": lj, "p": [], "ty": nb["locals"][lj]["ty"]}, "rv": {"k": "use", "op": copy.deepcopy(a)}, "span": t["span"], "inlined_arg": key})
        for cbl in cbi["blocks"]:
            nbl = {"stmts": _remap(cbl["stmts"], lo), "cleanup": bool(cbl.get("cleanup")) or in_cleanup}
            ct = _remap(cbl["term"], lo)
            k = ct["k"]
            if k == "goto":
                ct["target"] += bo
            elif k == "switch":
                ct["arms"] = [[v, tg + bo] for v, tg in ct["arms"]]
                ct["otherwise"] += bo
            elif k in ("drop", "call", "assert"):
                if ct.get("target") is not None:
                    ct["target"] += bo
                u = ct.get("unwind")
                if isinstance(u, int):
                    ct["unwind"] = u + bo
                elif u == "continue":
                    ct["unwind"] = unwind if isinstance(unwind, int) else "continue"
            elif k == "return":
                nbl["stmts"].append({"k": "assign", "lhs": copy.deepcopy(dest), "rv": {"k": "use", "op": {"mv": {"l": lo, "p": [], "ty": nb["locals"][lo]["ty"]}}}, "span": t["span"], "inlined_ret": key})
                ct = {"k": "goto", "target": target, "span": t["span"]} if target is not None else {"k": "unreachable", "span": t["span"]}
            elif k == "resume":
                ct = {"k": "goto", "target": unwind, "span": t["span"]} if isinstance(unwind, int) else ct
            nbl["term"] = ct
            blocks.append(nbl)
        bl["term"] = {"k": "goto", "target": bo, "span": t["span"], "inlined_call": key}
        skip.update(range(bo, len(blocks)))
        inlined.append(key)
        inlined += cbi.get("inlined", [])
        i += 1
    if nb is None:
        return b
    nb["inlined"] = inlined
    return nb


def inlined(F, key, pred=None):
    cache = F.__dict__.setdefault("_inlined_bodies", {})
    ck = (key, id(pred) if pred else None)
    if ck not in cache:
        b = F.body(key)
        cache[ck] = inline_body(F, b, pred) if b is not None else None
    return cache[ck]


def handle_make_blocks(F, b, handles=("Arc",)):
    """Blocks of (an inlined) body in which an owning handle is constructed by an aggregate."""
    out = set()
    for bi, bl in enumerate(b["blocks"]):
        for s in bl["stmts"]:
            if s["k"] == "assign" and s["rv"]["k"] == "agg" and s["rv"].get("agg") == "adt" and F.path_to_handle.get(s["rv"].get("adt")) in handles:
                out.add(bi)
    return out
