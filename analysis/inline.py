"""Virtual inlining of private helper functions at the MIR level.

Many rules are intra-procedural (dominance, loops, def-use expressions inside one constructor). Extracting a private helper
(`fn write_header(..)`, `struct Allocation` with `header_ptr()`, a `finish()` tail) must not change their verdict, so they run on
a synthetic body in which calls of private, non-recursive local functions instantiated at the caller's own type parameters are
replaced by the callee's blocks (locals and blocks renumbered, arguments assigned, `return` turned into an assignment of the
destination and a jump to the call's target, unwinding redirected to the call's unwind target).
"""
import copy

from . import balance


def _is_place(d):
    return isinstance(d, dict) and "l" in d and "p" in d and isinstance(d["l"], int) and isinstance(d["p"], list)


def _remap(x, lo):
    """Deep copy with every local index shifted by `lo`."""
    if isinstance(x, dict):
        if _is_place(x):
            y = {k: (_remap(v, lo) if k not in ("l", "p") else v) for k, v in x.items()}
            y["l"] = x["l"] + lo
            y["p"] = [({"index": pe["index"] + lo} if isinstance(pe, dict) and "index" in pe and len(pe) == 1 else _remap(pe, 0) if isinstance(pe, dict) else pe) for pe in x["p"]]
            return y
        return {k: _remap(v, lo) for k, v in x.items()}
    if isinstance(x, list):
        return [_remap(v, lo) for v in x]
    return x


TYPE_KEYS = ("ty", "discr_ty", "callee_self", "callee_impl_self", "impl_self", "self", "t")
TYPE_LIST_KEYS = ("arg_tys",)


def subst_type(F, idx, env, memo=None):
    """Type `idx` with type parameters replaced per env (name -> type index); interned into the fact base's type table."""
    import re

    if memo is None:
        memo = {}
    if idx in memo:
        return memo[idx]
    t = F.types[idx]
    k = t["k"]
    if k == "param":
        memo[idx] = env.get(t["name"], idx)
        return memo[idx]
    if not any(F.types[x]["k"] == "param" and F.types[x]["name"] in env for x in F.walk(idx)):
        memo[idx] = idx
        return idx
    by_s = F.__dict__.get("_types_by_s")
    if by_s is None:
        by_s = F.__dict__["_types_by_s"] = {tt["s"]: i for i, tt in enumerate(F.types)}
    pat = re.compile(r"(?<![A-Za-z0-9_:'])(" + "|".join(re.escape(n) for n in sorted(env, key=len, reverse=True)) + r")(?![A-Za-z0-9_])")
    new_s = pat.sub(lambda m: F.types[env[m.group(1)]]["s"], t["s"])
    if new_s in by_s:
        memo[idx] = by_s[new_s]
        return memo[idx]
    if k == "alias":
        na = _normalize_deref_alias(F, new_s, by_s)
        if na is not None:
            memo[idx] = na
            return na
    n = dict(t)
    n["s"] = new_s
    ni = len(F.types)
    F.types.append(n)
    by_s[new_s] = ni
    memo[idx] = ni
    if "t" in t and isinstance(t["t"], int):
        n["t"] = subst_type(F, t["t"], env, memo)
    if "ts" in t:
        n["ts"] = [subst_type(F, x, env, memo) for x in t["ts"]]
    if "args" in t:
        n["args"] = [({**a, "t": subst_type(F, a["t"], env, memo)} if "t" in a else a) for a in t["args"]]
    if "upvars" in t:
        n["upvars"] = [subst_type(F, x, env, memo) for x in t["upvars"]]
    if "params" in t:
        n["params"] = [subst_type(F, x, env, memo) for x in t["params"]]
    return ni


def _normalize_deref_alias(F, s, by_s):
    """`<Handle<..> as Deref>::Target` with a local Deref impl for the handle is that impl's target type (what the compiler's
    normalisation yields at the instantiation)."""
    import re

    from . import implsel

    m = re.fullmatch(r"<(.+) as (?:std|core)::ops::Deref>::Target", s)
    if not m or m.group(1) not in by_s:
        return None
    self_idx = by_s[m.group(1)]
    st = F.types[self_idx]
    if st["k"] != "adt" or st["path"] not in F.adts:
        return None
    best = implsel.find_impl(F, "core::ops::deref::Deref", (self_idx, {}))
    if best is None:
        return None
    _sp, im, bind = best
    key = next((it["key"] for it in im["items"] if it["name"] == "deref" and it["key"] in F.bodies), None)
    if key is None or any(e for (_i, e) in bind.values()):
        return None
    out = F.strip_refs(F.body(key)["output"])
    return subst_type(F, out, {n: i for n, (i, _e) in bind.items()})


def _subst_types(x, F, env, memo):
    if isinstance(x, dict):
        out = {}
        for k, v in x.items():
            if k in TYPE_KEYS and isinstance(v, int) and not isinstance(v, bool):
                out[k] = subst_type(F, v, env, memo)
            elif k in TYPE_LIST_KEYS and isinstance(v, list):
                out[k] = [subst_type(F, i, env, memo) if isinstance(i, int) else i for i in v]
            else:
                out[k] = _subst_types(v, F, env, memo)
        return out
    if isinstance(x, list):
        return [_subst_types(v, F, env, memo) for v in x]
    return x


def _instantiation_env(F, t, cb):
    """{callee type parameter name: type index at the call site} for a non-identity instantiation, or None if it cannot be told."""
    r = t.get("resolved")
    gargs = r["args"] if isinstance(r, dict) else (t.get("callee_args") or [])
    tys = [a["t"] for a in gargs if "t" in a]
    names = [g["name"] for g in cb.get("generics", []) if g["kind"] == "type"]
    if len(tys) != len(names):
        return None
    return {n: ti for n, ti in zip(names, tys) if not (F.ty(ti)["k"] == "param" and F.ty(ti)["name"] == n)}


def _identity_instantiation(F, t, cb):
    """The call instantiates the callee's type parameters with the caller's parameters of the same names (so the callee's types
    can be used verbatim in the caller)."""
    r = t.get("resolved")
    gargs = r["args"] if isinstance(r, dict) else (t.get("callee_args") or [])
    tys = [a["t"] for a in gargs if "t" in a]
    names = [g["name"] for g in cb.get("generics", []) if g["kind"] == "type"]
    if len(tys) != len(names):
        return False
    for ti, n in zip(tys, names):
        tt = F.ty(ti)
        if tt["k"] != "param" or tt["name"] != n:
            return False
    return True


def _reresolve(F, blocks):
    """After type substitution a trait-method call on a type parameter (`<P as Deref>::deref`) may have become a call on a local
    type (`P = Arc<T>`): select the local impl, as the compiler does at the instantiation."""
    from . import implsel

    for bl in blocks:
        t = bl["term"]
        if t["k"] != "call" or t.get("resolved") != "unresolved" or not t.get("callee_trait") or not isinstance(t.get("callee_self"), int):
            continue
        st = F.ty(t["callee_self"])
        if st["k"] != "adt" or st["path"] not in F.adts:
            continue
        best = implsel.find_impl(F, t["callee_trait"], (t["callee_self"], {}))
        if best is None:
            continue
        _sp, im, bind = best
        key = next((it["key"] for it in im["items"] if it["name"] == t.get("callee_name") and it["key"] in F.bodies), None)
        if key is None:
            continue
        names = [g["name"] for g in F.body(key).get("generics", []) if g["kind"] == "type"]
        if any(n not in bind or bind[n][1] for n in names):
            continue  # the method has type parameters of its own: leave the call as it is
        t["resolved"] = {"kind": "Item", "def": key, "local": True, "args": [{"t": bind[n][0]} for n in names], "impl_self": t["callee_self"], "impl_trait": t["callee_trait"], "reresolved": True}


def _returns_typed_block(F, cb):
    """The function hands back a typed block pointer `NonNull<INNER<..>>`: an allocation helper proper - the root of an
    allocation-to-handle region, which the constructor rules want to see as a call (`allocate_for_header_and_slice(len)`)."""
    if "output" not in cb:
        return False
    t = F.ty(cb["output"])
    if t["k"] == "adt" and t["path"] == "core::ptr::non_null::NonNull" and any(F.is_adt(a["t"], F.inner_path) for a in t.get("args", []) if "t" in a):
        # ... and is told nothing but how much to allocate (a length or a Layout, possibly a re-typing callable): a wrapper that
        # also takes data to put into the block (`allocate_with_copied_slice(src, len)`) is inlined like any other helper
        for i in cb.get("inputs", []):
            it = F.ty(i)
            if F.ts(i) == "usize" or (it["k"] == "adt" and it["path"] == "core::alloc::layout::Layout") or it["k"] in ("closure", "fndef", "param", "fnptr"):
                continue
            return False
        return True
    return False


def default_pred(F):
    def pred(key):
        cb = F.body(key)
        return cb is not None and cb["kind"] in ("Fn", "AssocFn") and not balance.is_api(F, cb) and not _returns_typed_block(F, cb)

    return pred


MAYBE_UNINIT = "core::mem::maybe_uninit::MaybeUninit"


def ctor_pred(F):
    """Predicate for the constructor rules: private helpers as usual, and in addition the crate's own uninitialised-handle API
    when a constructor is built on top of it (`UniqueArc::from_header_and_uninit_slice(header, len)`, `DerefMut` of the unique
    handle to reach the slots, `assume_init*`, `shareable`): the allocation, the header write and the re-typing are then judged in
    the constructor that uses them, exactly as if they were written out there."""
    p = F.__dict__.get("_ctor_pred")
    if p is not None:
        return p
    dp = default_pred(F)

    def pred(key):
        if dp(key):
            return True
        cb = F.body(key)
        if cb is None or cb["kind"] not in ("Fn", "AssocFn") or _returns_typed_block(F, cb):
            return False
        tys = [cb.get("output")] + list(cb.get("inputs", []))
        if any(t is not None and F.tokens(F.strip_refs(t))[0] > 0 and F.mentions_adt(t, MAYBE_UNINIT) for t in tys):
            return True
        imp = cb.get("impl") or {}
        if imp.get("trait") in ("core::ops::deref::DerefMut", "core::ops::deref::Deref") and F.handle_name(imp["self_ty"]) == "UniqueArc":
            return True
        if cb.get("name") == "shareable" and F.handle_name(imp.get("self_ty", -1)) == "UniqueArc":
            return True
        return False

    F.__dict__["_ctor_pred"] = pred
    return pred


def inlined_ctor(F, key):
    cache = F.__dict__.setdefault("_inlined_ctor_bodies", {})
    if key not in cache:
        b = F.body(key)
        cache[key] = inline_body(F, b, ctor_pred(F), depth=4) if b is not None else None
    return cache[key]


def _guard_drop(F, t):
    """For a `drop` terminator of a value of a private local non-handle type with a Drop impl whose fields need no drop glue of
    their own (raw pointers, integers, Layout, references, ManuallyDrop, PhantomData): (key of the Drop body, type-parameter
    environment); else None."""
    ty = F.ty(t.get("ty", 0))
    if ty["k"] != "adt" or not ty.get("local") or ty["path"] not in F.drop_impls or F.path_to_handle.get(ty["path"]) is not None:
        return None
    adt = F.adts.get(ty["path"])
    if not adt or adt.get("reachable", True) or not adt.get("variants"):
        return None
    for f in adt["variants"][0]["fields"]:
        ft = F.ty(f["ty"])
        trivial = ft["k"] in ("ptr", "ref", "prim", "fnptr") or (ft["k"] == "adt" and ft["path"] in ("core::alloc::layout::Layout", "core::marker::PhantomData", "core::mem::manually_drop::ManuallyDrop", "core::ptr::non_null::NonNull"))
        if not trivial:
            return None
    key = F.drop_impls[ty["path"]]
    cb = F.body(key)
    if cb is None or cb["arg_count"] != 1:
        return None
    st = F.ty(cb["impl"]["self_ty"])
    iargs = [F.ty(a["t"]) for a in st["args"] if "t" in a]
    targs = [a["t"] for a in ty["args"] if "t" in a]
    if len(iargs) != len(targs) or not all(a["k"] == "param" for a in iargs):
        return None
    env = {a["name"]: ti for a, ti in zip(iargs, targs) if not (F.ty(ti)["k"] == "param" and F.ty(ti)["name"] == a["name"])}
    return key, env


FN_TRAITS = ("core::ops::function::FnOnce", "core::ops::function::FnMut", "core::ops::function::Fn")


def inline_body(F, b, pred=None, depth=3, stack=(), max_blocks=600, drops=False, closures=False):
    """Synthetic copy of body b with qualifying calls inlined (or b itself if there is nothing to inline).
    drops=True: the destructor of a private guard value is inlined where the value is dropped (`let _g = FreeOnDrop::new(p); ..`)."""
    if pred is None:
        pred = default_pred(F)
    if depth <= 0:
        return b
    nb = None
    i = 0
    skip = set()
    inlined = []
    blocks = b["blocks"]
    while i < len(blocks):
        bl = blocks[i]
        t = bl["term"]
        gd = _guard_drop(F, t) if (drops and t["k"] == "drop" and i not in skip) else None
        if gd is not None and gd[0] not in stack and gd[0] != b["key"]:
            # rewrite `drop(place)` into `tmp = &mut place; <Drop::drop>(tmp)` and let the ordinary call inlining take over
            key, env0 = gd
            cb = F.body(key)
            if nb is None:
                nb = copy.deepcopy(b)
                blocks = nb["blocks"]
                bl = blocks[i]
                t = bl["term"]
            memo0 = {}
            rty = subst_type(F, cb["locals"][1]["ty"], env0, memo0) if env0 else cb["locals"][1]["ty"]
            tl = len(nb["locals"])
            nb["locals"].append({**cb["locals"][1], "ty": rty})
            dl = len(nb["locals"])
            nb["locals"].append({**cb["locals"][0]})
            bl["stmts"].append({"k": "assign", "lhs": {"l": tl, "p": [], "ty": rty}, "rv": {"k": "ref", "mut": True, "bk": "Mut", "place": copy.deepcopy(t["place"])}, "span": t["span"], "inlined_arg": key})
            gnames = [g["name"] for g in cb.get("generics", []) if g["kind"] == "type"]
            pidx = {F.types[x]["name"]: x for x in range(len(F.types)) if F.types[x]["k"] == "param"}
            gargs = [{"t": env0.get(n, pidx.get(n))} for n in gnames]
            bl["term"] = {"k": "call", "args": [{"mv": {"l": tl, "p": [], "ty": rty}}], "arg_tys": [rty], "dest": {"l": dl, "p": [], "ty": cb["locals"][0]["ty"]}, "target": t.get("target"), "unwind": t.get("unwind"), "callee": key, "callee_local": True, "callee_args": gargs, "callee_name": "drop",
                          "resolved": {"kind": "Item", "def": key, "local": True, "args": gargs}, "span": t["span"], "guard_drop": True}
            t = bl["term"]
        if t["k"] != "call":
            i += 1
            continue
        r = t.get("resolved")
        key = r["def"] if isinstance(r, dict) else t.get("callee")
        closure_call = False
        if closures and t.get("callee_trait") in FN_TRAITS and isinstance(t.get("callee_self"), int) and F.ty(t["callee_self"])["k"] == "closure" and len(t["args"]) == 2:
            # `f(x)` where f's type is (after substitution) a closure of this crate: the closure body, its environment = the
            # callable value, its parameters = the fields of the argument tuple
            ck = F.ty(t["callee_self"]).get("def")
            if ck in F.bodies and ck not in stack and ck != b["key"]:
                key, closure_call = ck, True
        if i in skip and not closure_call:
            i += 1  # blocks that came from an inlined callee were scanned when that callee was inlined - except for calls of
            continue  # its callable parameters, which only now (after type substitution) are known to be closures of this crate
        cb = F.body(key) if key else None
        if cb is None or key in stack or key == b["key"] or not (closure_call or pred(key) or t.get("guard_drop")) or len(blocks) + len(cb["blocks"]) > max_blocks:
            i += 1
            continue
        env = {} if closure_call else _instantiation_env(F, t, cb)
        if env is None or (not closure_call and len(t["args"]) != cb["arg_count"]):
            i += 1
            continue
        cbi = inline_body(F, cb, pred, depth - 1, stack + (b["key"],), max_blocks, drops, closures)
        if env:
            # the callee is instantiated at other types than its own parameters (`Allocation::<H, MaybeUninit<T>>::new`):
            # rewrite every type it mentions
            memo = {}
            cbi = {**cbi, "locals": _subst_types(cbi["locals"], F, env, memo), "blocks": _subst_types(cbi["blocks"], F, env, memo)}
            _reresolve(F, cbi["blocks"])
        if nb is None:
            nb = copy.deepcopy(b)
            blocks = nb["blocks"]
            bl = blocks[i]
            t = bl["term"]
        lo = len(nb["locals"])
        bo = len(blocks)
        for lc in cbi["locals"]:
            nb["locals"].append(dict(lc))
        dest, target, unwind = t["dest"], t.get("target"), t.get("unwind")
        in_cleanup = bool(bl.get("cleanup"))
        # arguments
        if closure_call:
            envl = lo + 1
            envt = nb["locals"][envl]["ty"]
            a0 = copy.deepcopy(t["args"][0])
            pl0 = a0.get("mv") or a0.get("cp")
            if F.ty(envt)["k"] == "ref" and pl0 is not None and F.ty(pl0.get("ty", envt))["k"] != "ref":
                bl["stmts"].append({"k": "assign", "lhs": {"l": envl, "p": [], "ty": envt}, "rv": {"k": "ref", "mut": bool(F.ty(envt).get("mut")), "bk": "Shared", "place": pl0}, "span": t["span"], "inlined_arg": key})
            else:
                bl["stmts"].append({"k": "assign", "lhs": {"l": envl, "p": [], "ty": envt}, "rv": {"k": "use", "op": a0}, "span": t["span"], "inlined_arg": key})
            tup = t["args"][1].get("mv") or t["args"][1].get("cp")
            for j in range(cbi["arg_count"] - 1):
                lj = lo + 2 + j
                lty = nb["locals"][lj]["ty"]
                if tup is not None:
                    src = {"mv": {"l": tup["l"], "p": list(tup["p"]) + [{"f": j, "ty": lty, "adt": "(tuple)"}], "ty": lty}}
                    bl["stmts"].append({"k": "assign", "lhs": {"l": lj, "p": [], "ty": lty}, "rv": {"k": "use", "op": src}, "span": t["span"], "inlined_arg": key})
        else:
            for j, a in enumerate(t["args"]):
                lj = lo + 1 + j
                bl["stmts"].append({"k": "assign", "lhs": {"l": lj, "p": [], "ty": nb["locals"][lj]["ty"]}, "rv": {"k": "use", "op": copy.deepcopy(a)}, "span": t["span"], "inlined_arg": key})
        for cbl in cbi["blocks"]:
            nbl = {"stmts": _remap(cbl["stmts"], lo), "cleanup": bool(cbl.get("cleanup")) or in_cleanup}
            ct = _remap(cbl["term"], lo)
            k = ct["k"]
            if k == "goto":
                ct["target"] += bo
            elif k == "switch":
                ct["arms"] = [[v, tg + bo] for v, tg in ct["arms"]]
                ct["otherwise"] += bo
            elif k in ("drop", "call", "assert"):
                if ct.get("target") is not None:
                    ct["target"] += bo
                u = ct.get("unwind")
                if isinstance(u, int):
                    ct["unwind"] = u + bo
                elif u == "continue":
                    ct["unwind"] = unwind if isinstance(unwind, int) else "continue"
            elif k == "return":
                nbl["stmts"].append({"k": "assign", "lhs": copy.deepcopy(dest), "rv": {"k": "use", "op": {"mv": {"l": lo, "p": [], "ty": nb["locals"][lo]["ty"]}}}, "span": t["span"], "inlined_ret": key})
                ct = {"k": "goto", "target": target, "span": t["span"]} if target is not None else {"k": "unreachable", "span": t["span"]}
            elif k == "resume":
                ct = {"k": "goto", "target": unwind, "span": t["span"]} if isinstance(unwind, int) else ct
            nbl["term"] = ct
            blocks.append(nbl)
        bl["term"] = {"k": "goto", "target": bo, "span": t["span"], "inlined_call": key}
        skip.update(range(bo, len(blocks)))
        inlined.append(key)
        inlined += cbi.get("inlined", [])
        i += 1
    if nb is None:
        return b
    nb["inlined"] = inlined
    return nb


def lending_pred(F):
    """default_pred, plus the crate's functions that lend something to a callable parameter (`with_arc(&self, f: impl FnOnce(&Arc<T>)
    -> U)`), public or not: with the closures handed to them inlined as well, `a.with_arc(|x| b.with_arc(|y| x.cmp(y)))` is straight
    code."""
    p = F.__dict__.get("_lending_pred")
    if p is not None:
        return p
    dp = default_pred(F)

    def pred(key):
        if dp(key):
            return True
        cb = F.body(key)
        if cb is None or cb["kind"] not in ("Fn", "AssocFn") or _returns_typed_block(F, cb):
            return False
        return any(pr.get("kind") == "trait" and pr.get("trait") in FN_TRAITS and F.ty(pr.get("self", 0))["k"] == "param" for pr in cb.get("preds", []))

    F.__dict__["_lending_pred"] = pred
    return pred


def inlined_lending(F, key):
    cache = F.__dict__.setdefault("_inlined_lending_bodies", {})
    if key not in cache:
        b = F.body(key)
        cache[key] = inline_body(F, b, lending_pred(F), depth=5, closures=True) if b is not None else None
    return cache[key]


def inlined_full(F, key):
    """Private helpers and the closures handed to them, inlined (a visitor `with_arc(|x| .., |y| ..)` becomes straight code)."""
    cache = F.__dict__.setdefault("_inlined_full_bodies", {})
    if key not in cache:
        b = F.body(key)
        cache[key] = inline_body(F, b, None, depth=5, closures=True) if b is not None else None
    return cache[key]


def inlined_with_drops(F, key):
    cache = F.__dict__.setdefault("_inlined_drop_bodies", {})
    if key not in cache:
        b = F.body(key)
        cache[key] = inline_body(F, b, None, depth=4, drops=True) if b is not None else None
    return cache[key]


def inlined(F, key, pred=None):
    cache = F.__dict__.setdefault("_inlined_bodies", {})
    ck = (key, id(pred) if pred else None)
    if ck not in cache:
        b = F.body(key)
        cache[ck] = inline_body(F, b, pred) if b is not None else None
    return cache[ck]


def handle_make_blocks(F, b, handles=("Arc",)):
    """Blocks of (an inlined) body in which an owning handle is constructed by an aggregate."""
    out = set()
    for bi, bl in enumerate(b["blocks"]):
        for s in bl["stmts"]:
            if s["k"] == "assign" and s["rv"]["k"] == "agg" and s["rv"].get("agg") == "adt" and F.path_to_handle.get(s["rv"].get("adt")) in handles:
                out.add(bi)
    return out
