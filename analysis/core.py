"""Check runner: tiers, rule instances, floors, known findings, reports, evidence."""
import hashlib
import json
import os
import re
import sys
import time

from . import effects, extract, facts

VERIF = extract.VERIF
EVIDENCE = os.environ.get("VERIF_EVIDENCE_DIR") or os.path.join(VERIF, "evidence")
REPORTS = os.environ.get("VERIF_REPORTS_DIR") or os.path.join(VERIF, "reports")
KNOWN = os.path.join(VERIF, "known_findings.json")

# ("default", True) = the default features with debug assertions on: what `cargo test` runs, and the build in which a
# `debug_assert!` is code with exits of its own
QUICK = [("default", False), ("all", False), ("nodefault", False), ("default", True)]
THOROUGH = QUICK + [("minext", False), ("all", True), ("nodefault", True), ("minext", True)]
# properties about optional integrations are also decided with those features on and `std` off (a cfg predicate that ties an
# integration to `std` changes nothing in the other configurations)
# ... and properties whose code may differ by pointer width or architecture (orderings, layout arithmetic, the overflow limit) are
# also decided on a 32-bit non-x86 target
ARM32 = [("arm32", False)]
PROP_EXTRA_CONFIGS = {"C17": [("optnostd", False)], "C11": [("optnostd", False)], "C01": ARM32, "C02": ARM32, "C03": ARM32, "C05": ARM32, "C06": ARM32, "C07": ARM32, "C10": ARM32, "C16": ARM32}


class Ctx:
    def __init__(self, tier, seed):
        self.tier = tier
        self.seed = seed
        self.configs = QUICK if tier == "quick" else THOROUGH
        self._facts = {}
        self._engines = {}
        self.build_errors = []

    def prefetch(self):
        # the cross-target configuration needs core and alloc built from rust-src (-Zbuild-std): if that tooling is not usable
        # where the check runs although the same tree type-checks for the host without std, the configuration is skipped with a
        # note - an environment limitation must not be reported as a property violation
        self.skipped_configs = []
        cross = [c for c in self.configs if c[0] in extract.TARGET_OF]
        host = [c for c in self.configs if c[0] not in extract.TARGET_OF]
        try:
            extract.extract_many(host)
        except extract.BuildError as e:
            self.build_errors.append(str(e))
            return
        for c in cross:
            try:
                extract.facts_path(c[0], c[1])
            except extract.BuildError as e:
                msg = str(e)
                # a failure that points into the analysed crate's own sources is the tree's; anything else (no rust-src, no
                # vendored dependency of the standard library, no disk space ...) is the environment's
                in_tree = ("--> src/" in msg) or ("--> " + extract.repo() in msg) or ("could not compile `triomphe`" in msg)
                toolchain = not in_tree
                if toolchain:
                    self.skipped_configs.append((c, msg[-400:]))
                    self.configs = [x for x in self.configs if x != c]
                else:
                    self.build_errors.append(msg)

    def facts(self, cfg, da=False):
        k = (cfg, da)
        if k not in self._facts:
            self._facts[k] = facts.load(cfg, da)
        return self._facts[k]

    def engine(self, cfg, da=False):
        k = (cfg, da)
        if k not in self._engines:
            self._engines[k] = effects.Engine(self.facts(cfg, da))
        return self._engines[k]

    def each(self, da=None):
        """Iterate (tag, Facts, Engine) over the tier's configurations."""
        for cfg, d in self.configs:
            if da is not None and d != da:
                continue
            tag = cfg + ("+da" if d else "")
            yield tag, self.facts(cfg, d), self.engine(cfg, d)


class Report:
    """Collects rule instances for one property."""

    def __init__(self, prop):
        self.prop = prop
        self.instances = {}  # (rule, key) -> dict
        self.order = []
        self.floors = {}  # rule -> (floor, what)
        self.samples = []
        self.notes = []
        self.exempt = []
        self.unclassified = []
        self.evaluations = 0

    def _put(self, rule, key, ok, msg, loc, cfg, detail, nontrivial):
        k = (rule, key)
        if k not in self.instances:
            self.instances[k] = {"rule": rule, "key": key, "ok": True, "msgs": [], "locs": [], "configs": [], "detail": None, "nontrivial": False}
            self.order.append(k)
        inst = self.instances[k]
        if cfg and cfg not in inst["configs"]:
            inst["configs"].append(cfg)
        inst["nontrivial"] |= bool(nontrivial)
        if not ok:
            inst["ok"] = False
            if msg and msg not in inst["msgs"]:
                inst["msgs"].append(msg)
            if loc and loc not in inst["locs"]:
                inst["locs"].append(loc)
            if detail is not None and inst["detail"] is None:
                inst["detail"] = detail
        elif msg and not inst["msgs"] and inst["ok"]:
            inst.setdefault("okmsg", msg)

    def ok(self, rule, key, msg=None, cfg=None, nontrivial=True):
        self._put(rule, key, True, msg, None, cfg, None, nontrivial)

    def bad(self, rule, key, msg, loc=None, cfg=None, detail=None):
        self._put(rule, key, False, msg, loc, cfg, detail, True)

    def floor(self, rule, n, what):
        self.floors[rule] = (n, what)

    def sample(self, s):
        if len(self.samples) < 12:
            self.samples.append(s)

    def count(self, rule):
        return sum(1 for (r, _k) in self.instances if r == rule)

    def auto_samples(self):
        """If a module recorded few samples, add actual instances (one per rule first) so the evidence shows what was examined."""
        if len(self.samples) >= 6:
            return
        seen_rules = set(s.get("rule") for s in self.samples if isinstance(s, dict))
        for k in self.order:
            inst = self.instances[k]
            if inst["rule"] in seen_rules or inst["rule"] in ("ANCHOR-LOST", "BUILD"):
                continue
            seen_rules.add(inst["rule"])
            self.samples.append({"rule": inst["rule"], "instance": inst["key"], "verdict": "holds" if inst["ok"] else "violated", "note": inst.get("okmsg") or (inst["msgs"][0][:300] if inst["msgs"] else ""), "configurations": inst["configs"]})
            if len(self.samples) >= 12:
                break

    def finalize(self):
        self.auto_samples()
        for rule, (n, what) in self.floors.items():
            c = self.count(rule)
            if c < n:
                self.bad("ANCHOR-LOST", rule, "rule %s matched %d instances, fewer than the %d confirmed by hand (%s): a rule that matches nothing passes vacuously" % (rule, c, n, what))


def load_known():
    if not os.path.exists(KNOWN):
        return {"known": [], "fixed": []}
    with open(KNOWN) as f:
        return json.load(f)


def safe_name(s):
    h = hashlib.sha1(s.encode()).hexdigest()[:8]
    return re.sub(r"[^A-Za-z0-9_.-]+", "_", s)[:80] + "-" + h


def run_property(prop, level, fn, argv, explanation, rule_text, trusted_base, assumptions):
    tier = os.environ.get("VERIF_TIER", "quick")
    explain = None
    i = 0
    while i < len(argv):
        if argv[i] == "--tier" and i + 1 < len(argv):
            tier = argv[i + 1]
            i += 1
        elif argv[i] == "--explain" and i + 1 < len(argv):
            explain = argv[i + 1]
            i += 1
        i += 1
    if tier not in ("quick", "thorough"):
        tier = "quick"
    try:
        seed = int(os.environ.get("VERIF_SEED", "0"))
    except ValueError:
        seed = 0
    t0 = time.time()
    ctx = Ctx(tier, seed)
    ctx.configs = ctx.configs + PROP_EXTRA_CONFIGS.get(prop, [])
    rep = Report(prop)
    ctx.prefetch()
    if ctx.build_errors:
        for e in ctx.build_errors:
            rep.bad("BUILD", "fact-extraction", "the repository does not type-check in a required configuration, nothing can be decided:\n" + e)
    else:
        try:
            fn(ctx, rep)
        except extract.BuildError as e:
            rep.bad("BUILD", "fact-extraction", str(e))
        except Exception:  # fail closed, but diagnosably: a rule met a construct it cannot handle
            import traceback

            tb = traceback.format_exc()
            rep.bad("ANALYSIS-ERROR", "internal", "the analysis could not be completed on this tree (fail closed): " + tb.strip().splitlines()[-1], None, None, detail=tb)
    for c, why in getattr(ctx, "skipped_configs", []):
        rep.notes.append("configuration %s could not be built in this environment (cross-target std sources unavailable) and was skipped: %s" % (c[0], why.replace("\n", " ")[:300]))
    rep.finalize()

    known = load_known()
    known_keys = {k["key"]: k for k in known.get("known", []) if k.get("property") == prop}
    violations = []
    known_hits = []
    for k in rep.order:
        inst = rep.instances[k]
        if inst["ok"]:
            continue
        full = "%s/%s/%s" % (prop, inst["rule"], inst["key"])
        if full in known_keys:
            known_hits.append((full, known_keys[full]))
        else:
            violations.append((full, inst))

    os.makedirs(os.path.join(REPORTS, prop), exist_ok=True)
    lines = []
    for full, kf in known_hits:
        lines.append("KNOWN-FINDING: property=%s %s" % (prop, kf["what"]))
    for full, inst in violations:
        path = os.path.join(REPORTS, prop, safe_name(full) + ".txt")
        with open(path, "w") as f:
            f.write("property: %s\nrule: %s\ninstance: %s\nkey: %s\nconfigurations: %s\n" % (prop, inst["rule"], inst["key"], full, ", ".join(inst["configs"])))
            for loc in inst["locs"]:
                f.write("at: %s\n" % loc)
            for m in inst["msgs"]:
                f.write("\n%s\n" % m)
            if inst["detail"] is not None:
                f.write("\ndetail:\n%s\n" % (inst["detail"] if isinstance(inst["detail"], str) else json.dumps(inst["detail"], indent=1, default=str)))
        loc = inst["locs"][0] if inst["locs"] else ""
        sys.stderr.write("[%s] %s %s %s: %s\n" % (prop, inst["rule"], inst["key"], loc, (inst["msgs"][0] if inst["msgs"] else "").split("\n")[0]))
        lines.append("VIOLATION property=%s replay=%s" % (prop, path))

    obligations = len(rep.instances)
    discharged = sum(1 for i in rep.instances.values() if i["ok"])
    nontrivial = sum(1 for i in rep.instances.values() if i["nontrivial"])
    per_rule = {}
    for (r, _k), inst in rep.instances.items():
        d = per_rule.setdefault(r, {"instances": 0, "violations": 0})
        d["instances"] += 1
        if not inst["ok"]:
            d["violations"] += 1
    for r, (n, what) in rep.floors.items():
        per_rule.setdefault(r, {"instances": 0, "violations": 0})["floor"] = n
    cov = {
        "explanation": explanation,
        "rule": rule_text,
        "evaluations": max(rep.evaluations, obligations, 1),
        "distinct_nontrivial": nontrivial,
        "obligations": obligations,
        "discharged": discharged,
        "programs": obligations,
        "disagreements_checked": max(rep.evaluations, obligations),
        "checker_cmd": "./check %s --tier %s" % (prop, tier),
        "trusted_base": trusted_base,
        "samples": rep.samples or [{"note": "no instance recorded"}],
        "exhaustive": True,
        "configurations": [c + ("+da" if d else "") for c, d in ctx.configs],
        "per_rule": per_rule,
        "exempt": rep.exempt,
        "unclassified": rep.unclassified,
        "notes": rep.notes,
        "known_findings_present": [k for k, _ in known_hits],
        "repo": extract.repo(),
        "tree_hash": extract.repo_hash() if not ctx.build_errors else None,
    }
    ev = {
        "property_id": prop,
        "tier": tier,
        "seed": seed,
        "level": level,
        "coverage": cov,
        "assumptions": assumptions,
        "wall_s": round(time.time() - t0, 2),
        "violations": len(violations),
    }
    os.makedirs(EVIDENCE, exist_ok=True)
    tmp = os.path.join(EVIDENCE, ".%s.json.tmp%d" % (prop, os.getpid()))
    with open(tmp, "w") as f:
        json.dump(ev, f, indent=1, default=str)
    os.replace(tmp, os.path.join(EVIDENCE, prop + ".json"))

    for l in lines:
        print(l)
    print("%s tier=%s configs=%d instances=%d discharged=%d violations=%d known=%d wall=%.1fs" % (prop, tier, len(ctx.configs), obligations, discharged, len(violations), len(known_hits), time.time() - t0))
    if explain:
        try:
            print(open(explain).read())
        except OSError as e:
            print("cannot read %s: %s" % (explain, e))
    return 1 if violations else 0
