"""C12 - an ArcUnion remembers which variant it holds and treats it as that type."""
from .. import inline, atomics, balance, cfg, core, symx
from ..effects import vget
from ..facts import operand_place

PROP = "C12"
# feasible payload addresses: the block is aligned to the count word and the payload offset is a multiple of it (R-LOWBIT),
# so every payload address is a multiple of the pointer size
SAMPLES = [8, 16, 24, 40, 0x1000, 0x7FFF_FFFF_FFF8, (1 << 63) + 8, (1 << 64) - 8]


ALIGNS = (1, 2, 4, 8, 16, 64)


PRIM_ALIGN = {"u8": 1, "i8": 1, "bool": 1, "()": 1, "u16": 2, "i16": 2, "u32": 4, "i32": 4, "f32": 4, "char": 4, "u64": 8, "i64": 8, "f64": 8, "usize": 8, "isize": 8, "u128": 16, "i128": 16}


def union_word_leaf(word, align_of=None):
    """Leaf values for expressions over the union's stored word; `align_of` maps a type-parameter name to an assumed alignment
    (for alignment-dependent tests such as `ptr.is_aligned()`)."""

    def leaf(e):
        if e[0] == "proj" and e[2]:
            names = [n for n in e[2] if n != "*"]
            while len(names) > 1 and names[-1] == "0":
                names = names[:-1]  # the word inside a private newtype (`self.p.0`)
            if names and names[-1] == "p":
                return word
            if e[1][0] == "proj":  # `(arg.p).0` written as a projection of a projection
                return leaf(("proj", e[1][1], tuple(e[1][2]) + tuple(e[2])))
        if e[0] == "call" and e[2] == "is_aligned" and e[3] and align_of is not None:
            a = align_of.get(e[4][0] if e[4] else None) or PRIM_ALIGN.get(e[4][0] if e[4] else None)
            v = symx.eval_int(e[3][0], leaf)
            if a is None or v is None:
                return None
            return int(v % a == 0)
        if e[0] == "call" and e[2] in ("align_of",) and align_of is not None and e[4]:
            return align_of.get(e[4][0])
        return None

    return leaf


INBOUNDS_PTR_ARITH = ("add", "sub", "offset", "byte_add", "byte_sub", "byte_offset")


def tag_rules(F, rep, tag, gen, rule="R-TAG"):
    """Constructors store `into_raw | tag`, the test reads bit 0, `borrow` strips exactly the tag: evaluated on sample words."""
    bits = F.pointer_bits
    SAMPLES = [P for P in globals()["SAMPLES"] if P < (1 << bits)]  # (addresses of the target's width)
    symx.set_facts(F)
    # ------------------------------------------------------------- R-TAG: the tag byte is not stepped over with in-bounds arithmetic
    # "including ... zero-sized types": the value pointer of a zero-sized payload is the one-past-the-end address of its block, so
    # `ptr.byte_add(1)` / `add` / `offset` (which require the result to stay inside the allocation) are undefined behaviour there;
    # the integer round trip or the `wrapping_*` methods are not
    up = F.handle_paths.get("ArcUnion")
    nsite = 0
    for b in F.body_list:
        if b["kind"] not in ("Fn", "AssocFn", "Closure"):
            continue
        owner = (F.body(b.get("owner")) or b) if b["kind"] == "Closure" else b
        st = (owner.get("impl") or {}).get("self_ty")
        tys = list(owner.get("inputs", [])) + ([owner["output"]] if "output" in owner else []) + ([st] if st is not None else [])
        if not any(F.mentions_adt(t, up) for t in tys):
            continue
        for bl in b["blocks"]:
            t = bl["term"]
            if t["k"] != "call":
                continue
            path = atomics.callee_of(t) or ""
            if path.split("::")[-1] in INBOUNDS_PTR_ARITH and (path.startswith("<*const T>::") or path.startswith("<*mut T>::") or path.startswith("<core::ptr::non_null::NonNull<T>>::")):
                nsite += 1
                rep.bad(rule, "%s/in-bounds-arithmetic:%s" % (b["key"], path.split("::")[-1]), "the union's word / a payload pointer is moved with `%s`, which requires the result to stay inside the allocation: the value pointer of a zero-sized payload already is the one-past-the-end address of its block, so stepping over the tag byte is undefined behaviour for such payloads (use the integer form or `wrapping_*`)" % path.split("::")[-1], F.loc(b, t["span"]), tag)
    if not nsite:
        rep.ok(rule, "no in-bounds pointer arithmetic in the union's code", cfg=tag)
    # ------------------------------------------------------------- R-TAG: constructors
    for name, idx in (("from_first", 0), ("from_second", 1)):
        for b in F.method("ArcUnion", name):
            B = cfg.Body(b)
            o = B.origin_local(0)
            ik = b["key"] + "/tag"
            if o.get("kind") != "call":
                rep.bad(rule, ik, "the union is not built by a call taking the tagged word", F.loc(b), tag)
                continue
            e = symx.expr(F, B, o["term"]["args"][0])
            # (a private constructor that applies the tag itself - `Self::new(untagged, TAG)` - is judged by the word it stores)
            ck = atomics.callee_of(o["term"])
            if ck in F.bodies and not balance.is_api(F, F.body(ck)) and len(o["term"]["args"]) > 1:
                whole = symx.normalize_calls(F, symx.fn_value(F, b), lambda k: not balance.is_api(F, F.body(k)))
                while whole[0] in ("bb", "addr"):
                    whole = whole[-1] if whole[0] == "bb" else whole[1]
                if whole[0] == "agg" and whole[1] == "adt" and whole[2] == F.handle_paths.get("ArcUnion") and whole[4]:
                    e = whole[4][0]
            # find the into_raw leaf
            leaves = []
            _collect_calls(e, leaves)
            raws = [l for l in leaves if l[2] == "into_raw"]
            if len(raws) != 1:
                rep.bad(rule, ik, "the stored word is not computed from exactly one `Arc::into_raw` of the argument: %s" % symx.show(e), F.loc(b), tag)
                continue
            ty_ok = raws[0][4] and raws[0][4][0] == gen[idx]
            vals = []
            for P in SAMPLES:
                vals.append(symx.eval_int(e, lambda x, P=P: P if x[0] == "call" and x[2] == "into_raw" else None, bits))
            want = [(P | idx) & ((1 << bits) - 1) for P in SAMPLES]
            if vals != want:
                rep.bad(rule, ik, "%s must store `ptr%s`; the stored word is %s (e.g. for ptr=%#x it is %s, expected %#x)" % (name, " | 1" if idx else "", symx.show(e), SAMPLES[0], vals[0], want[0]), F.loc(b), tag)
            elif not ty_ok:
                rep.bad(rule, ik, "%s consumes an Arc of type parameter %s instead of %s" % (name, raws[0][4], gen[idx]), F.loc(b), tag)
            else:
                rep.ok(rule, ik, symx.show(e), cfg=tag)
                rep.sample({"rule": rule, "function": b["key"], "stored_word": symx.show(e)}) if tag == "default" else None
    # ------------------------------------------------------------- R-TAG: test (evaluated, whatever the control flow looks like)
    def judge_pred(b, want_first, label):
        e = symx.fn_value(F, b)
        wit = None
        for aa in ALIGNS:
            for ab in ALIGNS:
                al = {gen[0]: aa, gen[1]: ab}
                for P in SAMPLES:
                    if P % max(aa, ab, 8):
                        continue
                    for tagbit in (0, 1):
                        w = P | tagbit
                        v = symx.eval_int(e, union_word_leaf(w, al), bits)
                        if (v is None or bool(v) != ((tagbit == 0) == want_first)) and wit is None:
                            wit = (aa, ab, w, v)
        ik = b["key"] + "/test"
        if wit is None:
            rep.ok(rule, ik, symx.show(e)[:200], cfg=tag)
        else:
            aa, ab, w, v = wit
            rep.bad(rule, ik, "%s must answer `word & 1 %s 0` for every pair of payload types; it computes %s, which for payload alignments (%s: %d, %s: %d) and the stored word %#x answers %s" % (label, "==" if want_first else "!=", symx.show(e)[:300], gen[0], aa, gen[1], ab, w, "cannot be evaluated" if v is None else bool(v)), F.loc(b), tag)

    for b in F.method("ArcUnion", "is_first"):
        judge_pred(b, True, "is_first")
    for b in F.method("ArcUnion", "is_second"):
        judge_pred(b, False, "is_second")
    # ------------------------------------------------------------- R-TAG: borrow (variant chosen by the tag, tag stripped)
    for b in F.method("ArcUnion", "borrow"):
        # (a private helper shared by the two arms - `unsafe fn borrow_as<T>(&self)` - is judged in place)
        e = symx.normalize_calls(F, symx.fn_value(F, b), lambda k: not balance.is_api(F, F.body(k)))
        good = True
        why = None
        ub = F.handle_paths.get("ArcUnionBorrow")
        for aa in ALIGNS:
            for ab in ALIGNS:
                al = {gen[0]: aa, gen[1]: ab}
                for P in SAMPLES:
                    if P % max(aa, ab, 8):
                        continue
                    for tagbit in (0, 1):
                        if not good:
                            continue
                        w = P | tagbit
                        leaf = union_word_leaf(w, al)
                        val = _select(e, leaf, bits)
                        want = "First" if tagbit == 0 else "Second"
                        if val is None or val[0] != "agg" or val[2] != ub:
                            good, why = False, "for the stored word %#x the result cannot be determined (%s)" % (w, symx.show(e)[:200])
                            continue
                        if val[3] != want:
                            good, why = False, "for the stored word %#x (tag bit %d) the borrow is built as variant %s instead of %s" % (w, tagbit, val[3], want)
                            continue
                        calls = []
                        _collect_calls(val[4][0], calls)
                        fp = [x for x in calls if x[2] == "from_ptr"]
                        if len(fp) != 1:
                            good, why = False, "the borrow is not built by ArcBorrow::from_ptr"
                            continue
                        want_ty = gen[0] if want == "First" else gen[1]
                        if not fp[0][4] or fp[0][4][0] != want_ty:
                            good, why = False, "variant %s borrows as type %s instead of %s" % (want, fp[0][4], want_ty)
                            continue
                        pe = fp[0][3][0]
                        v = symx.eval_int(pe, leaf, bits)
                        if v != P:
                            good, why = False, "variant %s: the pointer handed to from_ptr is %s; for payload alignments (%s: %d, %s: %d) and the stored word %#x it yields %s instead of the payload address %#x (the tag bit must be stripped, and only it): the ArcBorrow's bits are then not the value's address" % (want, symx.show(pe)[:200], gen[0], aa, gen[1], ab, w, hex(v) if v is not None else None, P)
        if good:
            rep.ok(rule, b["key"] + "/strip", cfg=tag)
        else:
            rep.bad(rule, b["key"] + "/strip", why, F.loc(b), tag)


def _select(e, leaf, bits):
    """The value expression a `cases` summary selects for a leaf valuation (the expression itself if it is no summary)."""
    for _ in range(6):
        if e[0] != "cases":
            return e
        nxt = None
        for conds, val in e[1]:
            ok = True
            for d, rel, v in conds:
                x = symx.eval_int(d, leaf, bits)
                if x is None:
                    return None
                if (rel == "eq" and x != v) or (rel == "notin" and x in v):
                    ok = False
                    break
            if ok:
                nxt = val
                break
        if nxt is None:
            return None
        e = nxt
    return e


def run(ctx, rep):
    # "the count moves by one on the right allocation" - and by nothing on every other path, unwinding included, of the union's
    # own operations and of what they are built from (the balance rules of C01/C04/C07)
    def scope(F):
        up = (F.handle_paths.get("ArcUnion"), F.handle_paths.get("ArcUnionBorrow"))
        return balance.scope_closure(F, [b for b in F.body_list if b["kind"] in ("Fn", "AssocFn") and F.ty((b.get("impl") or {}).get("self_ty", 0)).get("path") in up])

    balance.rule_bal(ctx, rep, scope=scope)
    balance.rule_unw(ctx, rep, scope=scope)
    from . import c01 as _c01

    from . import c05 as _c05

    _c05.rule_data_offset(ctx, rep)  # "the count moves by one on the right allocation ... whatever their size or alignment": the union reaches the count through `Arc::from_raw`, which subtracts the payload's offset - that offset must be the field's, for every payload shape
    balance.rule_zst_div(ctx, rep)  # "including ... zero-sized types"
    _c01.rule_destroy(ctx, rep)  # "the right destructor and layout are used": whichever code releases the union's last reference destroys the payload once and gives the block back on every exit
    from . import c13

    class _OnlyUnionAuto:
        """Forwards the R-AUTO instances about ArcUnion only (the rest of that rule group is C13's)."""

        def __init__(self, rep):
            self._rep = rep

        def __getattr__(self, name):
            return getattr(self._rep, name)

        def ok(self, rule, key, *a, **k):
            if rule == "R-AUTO" and key.startswith("ArcUnion:"):
                self._rep.ok(rule, key, *a, **k)

        def bad(self, rule, key, *a, **k):
            if rule == "R-AUTO" and key.startswith("ArcUnion:"):
                self._rep.bad(rule, key, *a, **k)

        def floor(self, *a, **k):
            pass

        def sample(self, *a, **k):
            pass

    c13.rule_auto(ctx, _OnlyUnionAuto(rep), only=("ArcUnion",))  # "as a handle of that type": the union is Send/Sync exactly when Arc<A> and Arc<B> both are (C13's impl table)
    from . import c14 as _c14

    class _OnlyUnionCmp:
        """Forwards C14's equality instances about ArcUnion only ("two unions holding different variants never compare equal": `ne`
        is `eq` negated case by case, the mixed-variant arm included)."""

        def __init__(self, rep):
            self._rep = rep
            self.notes = rep.notes
            self.exempt = rep.exempt
            self.samples = rep.samples

        def __getattr__(self, name):
            return getattr(self._rep, name)

        def ok(self, rule, key, *a, **k):
            if rule in ("R-EQ-NE", "R-NE-NEG") and "ArcUnion" in key:
                self._rep.ok(rule, key, *a, **k)

        def bad(self, rule, key, *a, **k):
            if rule in ("R-EQ-NE", "R-NE-NEG") and "ArcUnion" in key:
                self._rep.bad(rule, key, *a, **k)

        def floor(self, *a, **k):
            pass

        def sample(self, *a, **k):
            pass

    _c14.rule_deleg(ctx, _OnlyUnionCmp(rep))
    from . import c11 as _c11

    _c11.rule_refcnt_pair(ctx, rep, only=("ArcUnion",))  # (if the union is given arc-swap glue: the tagged word, not the payload address, is what goes in and out)
    balance.rule_count_addr(ctx, rep)  # the union reaches the count only through typed handles, never as "the word before the payload"
    balance.rule_release_retarget(ctx, rep)  # release-then-store through `&mut Handle` must store on unwinding exits too
    for tag, F, E in ctx.each():
        A = balance.analysis(tag, F, E)
        bits = F.pointer_bits
        gen = None
        u = F.adts.get(F.handle_paths.get("ArcUnion", ""))
        if not u:
            rep.bad("ANCHOR-LOST", "ArcUnion", "ArcUnion type is missing", None, tag)
            continue
        gen = [g["name"] for g in u["generics"] if g["kind"] == "type"]
        tag_rules(F, rep, tag, gen)
        # ------------------------------------------------------------- R-ARMS
        _arms(F, A, rep, tag, gen)
        # ------------------------------------------------------------- R-LOWBIT
        inner = F.adts.get(F.inner_path or "")
        ok = bool(inner and inner["repr_c"] and F.count_field and F.count_field[0] == 0)
        word = bits // 8
        bad = None
        if ok:
            for a in (1, 2, 4, 8, 16, 32, 64, 128, 4096):
                off = (word + a - 1) // a * a
                balign = max(word, a)
                for base in (balign, 3 * balign, 5 * balign):
                    if (base + off) & 1:
                        bad = (a, off, base)
        if ok and bad is None and word >= 2:
            rep.ok("R-LOWBIT", "payload-address-parity", "repr(C) block, %d-byte aligned count word first: payload address is even for every payload alignment" % word, cfg=tag)
        else:
            rep.bad("R-LOWBIT", "payload-address-parity", "bit 0 of a payload address is not guaranteed free (block not repr(C) with the count word first, or %s)" % (bad,), None, tag)
    rep.floor("R-AUTO", 2, "Send and Sync of ArcUnion")
    rep.floor("R-TAG", 5, "2 constructors, is_first, is_second, strip (both variants in one instance)")
    rep.floor("R-ARMS", 5, "Clone, Drop, as_first, as_second, PartialEq")
    rep.floor("R-LOWBIT", 1, "parity lemma")


def _collect_calls(e, out):
    if not isinstance(e, tuple):
        return
    if e and e[0] == "call":
        out.append(e)
        for a in e[3]:
            _collect_calls(a, out)
        return
    for x in e[1:]:
        if isinstance(x, tuple):
            _collect_calls(x, out)


def _variant_arms(F, B, b):
    """Find `switch(discriminant(borrow()))` - or a branch on the union's own `is_first()` / `is_second()` (judged by R-TAG) -:
    returns {variant name: exclusive block set}."""
    for bi, bl in enumerate(b["blocks"]):
        tt = bl["term"]
        if tt["k"] != "switch":
            continue
        c = B.condition(tt["discr"])
        if c and "call" in c:
            cb = F.body(atomics.callee_of(c["call"]) or "")
            if cb is not None and cb.get("name") in ("is_first", "is_second") and F.handle_name((cb.get("impl") or {}).get("self_ty", -1)) == "ArcUnion" and c["call"]["args"]:
                a0 = operand_place(c["call"]["args"][0])
                from . import c03

                if a0 is not None and 1 in c03.root_args(B, a0["l"]):
                    arms = {}
                    for tgt, tv in B.switch_truth(tt).items():
                        holds = tv != c["neg"]
                        first = holds if cb["name"] == "is_first" else not holds
                        arms["First" if first else "Second"] = tgt
                    if len(arms) == 2:
                        r = {k: B.reach(t, normal_only=True) for k, t in arms.items()}
                        return {"First": r["First"] - r["Second"], "Second": r["Second"] - r["First"]}
        if c and c.get("op") in ("Eq", "Ne"):
            # the tag test written out: `(word as usize) & 1 == 0` (what `is_first` itself is, judged by R-TAG)
            ea, eb = symx.expr(F, B, c["a"]), symx.expr(F, B, c["b"])
            for x, y in ((ea, eb), (eb, ea)):
                if y[0] == "const" and y[1] in (0, 1) and x[0] == "bin" and x[1] == "BitAnd" and ((x[3] == ("const", 1) and _mentions_union_word(x[2])) or (x[2] == ("const", 1) and _mentions_union_word(x[3]))):
                    arms = {}
                    for tgt, tv in B.switch_truth(tt).items():
                        holds = (tv != c["neg"]) == (c["op"] == "Eq")  # `tag == y` holds on this edge
                        tag_is_zero = holds if y[1] == 0 else not holds
                        arms["First" if tag_is_zero else "Second"] = tgt
                    if len(arms) == 2:
                        r = {k: B.reach(t, normal_only=True) for k, t in arms.items()}
                        base = {"First": r["First"] - r["Second"], "Second": r["Second"] - r["First"]}
                        via = _through_private_enum(F, B, b, base)
                        return via or base
        l = operand_place(tt["discr"])
        if l is None:
            continue
        d = B.single_def(l["l"])
        if not d or d[0] != "assign" or d[3]["k"] != "discr":
            continue
        src = d[3]["place"]
        o = B.origin_local(src["l"]) if not src["p"] else {"kind": "?"}
        # `match self.borrow()` or `match *this` (ArcUnionBorrow parameter)
        ty = F.ty(F.strip_refs(b["locals"][src["l"]]["ty"]))
        if ty["k"] != "adt" or ty["path"] != F.handle_paths.get("ArcUnionBorrow"):
            continue
        tgts = {}
        for v, t2 in tt["arms"]:
            tgts[v] = t2
        other = tt["otherwise"]
        names = {0: "First", 1: "Second"}
        arms = {}
        for v in (0, 1):
            arms[names[v]] = tgts.get(v, other)
        r = {k: B.reach(t, normal_only=True) for k, t in arms.items()}
        excl = {"First": r["First"] - r["Second"], "Second": r["Second"] - r["First"]}
        return excl
    return None


def _through_private_enum(F, B, b, base):
    """`match self.variant()` with a private fieldless enum decoded from the tag: the enum value is assigned one constant variant in
    each arm of the tag test and switched on later; the later switch's arms inherit the variant names. Returns the arm map of that
    later switch, or None."""
    for bi, bl in enumerate(b["blocks"]):
        tt = bl["term"]
        if tt["k"] != "switch":
            continue
        l = operand_place(tt["discr"])
        if l is None:
            continue
        d = B.single_def(l["l"])
        if not d or d[0] != "assign" or d[3]["k"] != "discr" or d[3]["place"]["p"]:
            continue
        cur = d[3]["place"]["l"]
        ty = F.ty(b["locals"][cur]["ty"])
        if ty["k"] != "adt" or not ty.get("local") or ty["path"] in F.path_to_handle or ty["path"] == F.handle_paths.get("ArcUnionBorrow"):
            continue
        for _ in range(8):
            ds = B.defs().get(cur, [])
            if len(ds) == 1 and ds[0][0] == "assign" and ds[0][3]["k"] == "use" and operand_place(ds[0][3]["op"]) is not None and not operand_place(ds[0][3]["op"])["p"]:
                cur = operand_place(ds[0][3]["op"])["l"]
            else:
                break
        ds = B.defs().get(cur, [])
        names = {}
        ok = len(ds) >= 2
        for dd in ds:
            if dd[0] != "assign" or dd[3]["k"] != "agg" or dd[3].get("ops"):
                ok = False
                break
            where = [k for k in ("First", "Second") if dd[1] in base[k]]
            if len(where) != 1 or names.get(dd[3].get("vi"), where[0]) != where[0]:
                ok = False
                break
            names[dd[3].get("vi")] = where[0]
        if not ok or sorted(names.values()) != ["First", "Second"]:
            continue
        tgts = {v: t2 for v, t2 in tt["arms"]}
        arms = {}
        for vi, nm in names.items():
            arms[nm] = tgts.get(vi, tt["otherwise"])
        r = {k: B.reach(t, normal_only=True) for k, t in arms.items()}
        return {"First": (r["First"] - r["Second"]) | base["First"], "Second": (r["Second"] - r["First"]) | base["Second"]}
    return None


def _mentions_union_word(e, depth=0):
    """The expression reads the union's pointer field (`.p`, possibly inside a private newtype)."""
    if not isinstance(e, tuple) or depth > 60:
        return False
    if e and e[0] == "proj" and any(n == "p" for n in e[2]):
        return True
    return any(_mentions_union_word(x, depth + 1) for x in e if isinstance(x, tuple))


def _decrements(F, key):
    eng = F.__dict__.get("_c12_engine")
    if eng is None:
        from .. import effects as _eff

        eng = F.__dict__["_c12_engine"] = _eff.Engine(F)
    try:
        return any(e.exit == "ret" and vget(e.vec, "dec") > 0 for e in eng.summary(key))
    except Exception:
        return False


def _released_types(F, b, blocks, gmap, depth):
    """Type arguments (as written in terms of the outermost caller's parameters) at which `Arc::from_raw` is called in the given
    blocks of body b, following calls of private local helpers with their generic arguments substituted."""
    out = []
    for bi in blocks:
        t = b["blocks"][bi]["term"]
        if t["k"] != "call":
            continue
        c = atomics.callee_of(t)
        cb = F.body(c) if c else None
        r = t.get("resolved")
        ga = [F.ts(a["t"]) for a in (r["args"] if isinstance(r, dict) else t.get("callee_args") or []) if "t" in a]
        ga = [gmap.get(x, x) for x in ga]
        if cb is not None and cb.get("name") == "from_raw" and F.handle_name((cb.get("impl") or {}).get("self_ty", -1)) == "Arc":
            # (an Arc rebuilt only to be parked - `ManuallyDrop::new(Arc::from_raw(p))`, the transient of a lending helper - releases nothing)
            dl = t["dest"]["l"] if not t["dest"]["p"] else None
            parked = False
            for bl2 in b["blocks"]:
                t2 = bl2["term"]
                if t2["k"] == "call" and atomics.callee_of(t2) == "<core::mem::manually_drop::ManuallyDrop<T>>::new" and t2["args"]:
                    pl2 = operand_place(t2["args"][0])
                    if pl2 is not None and not pl2["p"] and pl2["l"] == dl:
                        parked = True
            if not parked:
                out.append(ga[0] if ga else "?")
            else:
                # ... unless the arm then lowers the count through that transient itself (the release routine written out:
                # `if a.release() { acquire; a.drop_slow() }` - the decrement is Arc<X>'s, at the address the transient gives)
                from .. import model as _model

                if any(b["blocks"][bj]["term"]["k"] == "call" and atomics.atomic_class(b["blocks"][bj]["term"]) == _model.ATOMIC_RMW_SUB for bj in blocks):
                    out.append(ga[0] if ga else "?")
        elif c in ("core::ptr::read", "<*const T>::read", "<*mut T>::read") and isinstance(r, dict):
            # `let _ = ptr::read(arc)` with `arc: &Arc<X>`: an `Arc<X>` materialised bitwise and dropped - the same release
            for a in r["args"]:
                if "t" in a and F.handle_name(a["t"]) == "Arc":
                    inner = [x["t"] for x in F.ty(a["t"]).get("args", []) if "t" in x]
                    if inner:
                        x = F.ts(inner[0])
                        out.append(gmap.get(x, x))
        elif cb is not None and not balance.is_api(F, cb) and F.handle_name((cb.get("impl") or {}).get("self_ty", -1)) == "Arc" and _decrements(F, c) and ga:
            # `a.release()` - the private decrement of `Arc<X>` - applied to the transient of the arm's type
            out.append(ga[0])
        elif cb is not None and depth < 3 and not balance.is_api(F, cb):
            names = [g["name"] for g in cb.get("generics", []) if g["kind"] == "type"]
            sub = dict(zip(names, ga))
            out += _released_types(F, cb, range(len(cb["blocks"])), sub, depth + 1)
    return out


def _returns_same_word(F, key):
    """`Self::new(self.p.as_ptr())` / `ArcUnion { p: self.p, .. }`: the returned union stores the receiver's word unchanged (evaluated)."""
    b = F.body(key)
    symx.set_facts(F)
    e = symx.normalize_calls(F, symx.fn_value(F, b), lambda k: not balance.is_api(F, F.body(k)))
    for _ in range(4):
        while e[0] in ("bb", "addr"):
            e = e[-1] if e[0] == "bb" else e[1]
        if e[0] == "call" and (F.body(e[1]) or {}).get("name") == "new" and F.handle_name((F.body(e[1]).get("impl") or {}).get("self_ty", -1)) == "ArcUnion" and e[3]:
            if len(e[3]) > 1:
                # a private constructor that assembles the word from several parts (`new(untagged, tag)`): what it stores
                r = symx.inline_call(F, e)
                if r is not None:
                    e = r
                    continue
                return False
            e = e[3][0]
            break
        if e[0] == "agg" and e[1] == "adt" and e[2] == F.handle_paths.get("ArcUnion") and e[4]:
            e = e[4][0]
            break
        return False
    bits = F.pointer_bits
    for P in SAMPLES:
        if P >= (1 << bits):
            continue
        for tagbit in (0, 1):
            w = P | tagbit
            if symx.eval_int(e, union_word_leaf(w), bits) != w:
                return False
    return True


def union_tag_premise(ctx, rep):
    """Premise of C14 for `ArcUnion`: its PartialEq and Debug impls compare / print what `borrow()` lends, so they see the value the
    union holds only if the variant test reads exactly the tag the constructors stored and `borrow` strips exactly that tag (R-TAG,
    evaluated over sample words and payload alignments). Clone/Drop arms (R-ARMS) are not needed for that and are not included."""
    for tag, F, E in ctx.each():
        u = F.adts.get(F.handle_paths.get("ArcUnion", ""))
        if not u:
            continue
        gen = [g["name"] for g in u["generics"] if g["kind"] == "type"]
        tag_rules(F, rep, tag, gen)
    rep.floor("R-TAG", 5, "2 constructors, is_first, is_second, strip")


def union_dispatch(ctx, rep):
    """Premise of every count argument that includes `ArcUnion` owners (C01/C03/C04): the union finds the block - and so the count
    word - of the `Arc` it was made from. The constructors store `into_raw | tag`, the test reads exactly the tag, `borrow` strips
    exactly the tag (R-TAG, evaluated over sample words and payload alignments), and Clone/Drop act at the type of their own
    variant (R-ARMS): a count bumped or released at the other variant's type lands `offset_of_data` of the wrong type before the
    payload."""
    for tag, F, E in ctx.each():
        A = balance.analysis(tag, F, E)
        u = F.adts.get(F.handle_paths.get("ArcUnion", ""))
        if not u:
            continue
        gen = [g["name"] for g in u["generics"] if g["kind"] == "type"]
        tag_rules(F, rep, tag, gen)
        _arms(F, A, rep, tag, gen, only_count=True)
    rep.floor("R-TAG", 5, "2 constructors, is_first, is_second, strip")
    rep.floor("R-ARMS", 2, "Clone, Drop")


def _arms(F, A, rep, tag, gen, only_count=False):
    spec = {
        # (the bump: `x.clone_arc()`, `Arc::clone`, or the borrow's lending helper applied to a cloning closure - `x.with_arc(|a|
        # mem::forget(a.clone()))` - at the arm's own type; that it is exactly one increment is R-BAL / the CLONE class)
        ("ArcUnion", "clone", "Clone"): {"First": [(("clone_arc", "clone", "with_arc"), gen[0]), ("from_first", None)], "Second": [(("clone_arc", "clone", "with_arc"), gen[1]), ("from_second", None)]},
        ("ArcUnion", "drop", "Drop"): {"First": [("from_raw", gen[0])], "Second": [("from_raw", gen[1])]},
    }
    for (h, m, tr), want in spec.items():
        for b in F.method(h, m, tr):
            ik = b["key"]
            B = cfg.Body(b)
            excl = _variant_arms(F, B, b)
            if excl is None:
                # the dispatch may sit in a private visitor (`self.with_arc(|a| .., |b| ..)`, `either(..)`): judge the body with
                # private helpers and the closures handed to them inlined
                fb = inline.inlined_full(F, b["key"])
                if fb is not None and fb is not b:
                    FB = cfg.Body(fb)
                    e1 = _variant_arms(F, FB, fb)
                    if e1 is not None:
                        b, B, excl = fb, FB, e1
            if excl is None:
                # the body may live in a private helper taking `self` (`unsafe fn release(&mut self)` shared with other callers)
                for _bi, t0 in B.calls():
                    k0 = atomics.callee_of(t0)
                    b0 = F.body(k0) if k0 else None
                    if b0 is not None and not balance.is_api(F, b0) and b0["kind"] in ("Fn", "AssocFn"):
                        B0 = cfg.Body(b0)
                        e0 = _variant_arms(F, B0, b0)
                        if e0 is not None:
                            b, B, excl = b0, B0, e0
                            break
            if excl is None:
                rep.bad("R-ARMS", ik, "no `match` on the variant of the borrow found", F.loc(b), tag)
                continue
            good = True
            why = None
            for variant, calls in want.items():
                got = []
                for bi in excl[variant]:
                    t = b["blocks"][bi]["term"]
                    if t["k"] == "call":
                        c = atomics.callee_of(t)
                        nm = (F.body(c) or {}).get("name")
                        r = t.get("resolved")
                        ga = [F.ts(a["t"]) for a in (r["args"] if isinstance(r, dict) else []) if "t" in a]
                        got.append((nm, ga))
                if m == "drop":
                    # what matters: the arm gives up exactly an `Arc` of its own type - directly or inside a private helper
                    rel = _released_types(F, b, excl[variant], {}, 0)
                    want_ty = calls[0][1]
                    if not rel:
                        # ... or inside a closure handed to the borrow's lending helper (`x.with_arc(|arc| drop(ptr::read(arc)))`)
                        fb2 = inline.inlined_lending(F, ik)  # (lending functions - `with_arc` - and the closures they are given, inlined)
                        if fb2 is not None:
                            e2 = _variant_arms(F, cfg.Body(fb2), fb2)
                            if e2 is not None:
                                rel = _released_types(F, fb2, e2[variant], {}, 0)
                    if rel != [want_ty]:
                        good, why = False, "the %s arm must rebuild (and so release) exactly one Arc<%s>; it rebuilds %s" % (variant, want_ty, rel or "nothing")
                    continue
                for nm, ty in calls:
                    names = nm if isinstance(nm, tuple) else (nm,)
                    hits = [g for g in got if g[0] in names and (ty is None or g[1])]
                    nm = "/".join(names)
                    if not hits and m == "clone" and ty is None and _returns_same_word(F, ik):
                        continue  # the clone hands out the very word it holds (tag included) instead of re-tagging per variant
                    if not hits:
                        good, why = False, "the %s arm does not call %s" % (variant, nm)
                    elif ty is not None and not any(g[1] and g[1][0] == ty for g in hits):
                        good, why = False, "the %s arm calls %s at type %s instead of %s" % (variant, nm, hits[0][1], ty)
                wrong = {"First": "from_second", "Second": "from_first"}[variant]
                if any(g[0] == wrong for g in got):
                    good, why = False, "the %s arm re-wraps with %s" % (variant, wrong)
            if good:
                rep.ok("R-ARMS", ik, cfg=tag)
            else:
                rep.bad("R-ARMS", ik, why, F.loc(b), tag)
    # typed access anywhere: a borrow or handle typed at one of the union's payload types and built from the union's word
    # (`ArcBorrow::<A>::from_ptr(word & !1)`, `Arc::<B>::from_raw(..)`) sits in the arm of that variant - wherever the code lives
    # (arc-swap glue written for the union, a private helper): typed at the other variant it finds the count at the wrong offset
    for b in F.body_list:
        if b["kind"] not in ("Fn", "AssocFn"):
            continue
        if not any(F.handle_name(F.strip_refs(t)) == "ArcUnion" for t in b.get("inputs", [])):
            continue
        fb = inline.inlined_full(F, b["key"]) or b
        FB = cfg.Body(fb)
        sites = []
        for bi, t in FB.calls():
            c = atomics.callee_of(t)
            cb = F.body(c) if c else None
            if cb is None or cb.get("name") not in ("from_ptr", "from_raw") or F.handle_name((cb.get("impl") or {}).get("self_ty", -1)) not in ("ArcBorrow", "Arc"):
                continue
            r = t.get("resolved")
            ga = [F.ts(a["t"]) for a in (r["args"] if isinstance(r, dict) else []) if "t" in a]
            if not ga or ga[0] not in gen or not t["args"]:
                continue
            e = symx.expr(F, FB, t["args"][0])
            if not _mentions_union_word(e):
                continue
            sites.append((bi, t, ga[0]))
        if not sites:
            continue
        excl = _variant_arms(F, FB, fb)
        for si, (bi, t, ty) in enumerate(sites):
            ik2 = "%s/typed-access:%s#%d" % (b["key"], ty, si)
            want = "First" if ty == gen[0] else "Second"
            if gen[0] == gen[1]:
                rep.ok("R-ARMS", ik2, cfg=tag)
            elif excl is None:
                rep.bad("R-ARMS", ik2, "%s is built from the union's word at type %s without a test of the variant: for a union holding the other variant the count is looked for at the wrong offset (the data offset depends on the payload's alignment)" % ((F.body(atomics.callee_of(t)) or {}).get("name"), ty), F.loc(b, t["span"]), tag)
            elif bi not in excl[want]:
                rep.bad("R-ARMS", ik2, "the access typed at %s is not confined to the %s arm" % (ty, want), F.loc(b, t["span"]), tag)
            else:
                # (a) the pointer handed over is the payload address: the stored word with exactly the tag removed
                e = symx.expr(F, FB, t["args"][0])
                bits = F.pointer_bits
                wrong = None
                for P in (0x1000, 0x7f00_0040):
                    w = P | (0 if want == "First" else 1)
                    try:
                        v = symx.eval_int(e, union_word_leaf(w, {gen[0]: 8, gen[1]: 8}), bits)
                    except Exception:
                        v = None
                    if v is not None and v != P:
                        wrong = (w, v, P)
                # (b) the variant was tested on the word the access is built from: not after that word was replaced in the handle
                stale = None
                calls_e = []
                _collect_calls(e, calls_e)
                if any(c[2] in ("replace", "swap", "take") for c in calls_e):
                    store_bbs = [bj for bj, t2 in FB.calls() if (atomics.callee_of(t2) or "") in ("core::mem::replace", "core::mem::swap", "core::ptr::replace") and t2["args"] and _mentions_union_word(symx.expr(F, FB, t2["args"][0]))]
                    for bj, t2 in FB.calls():
                        cb2 = F.body(atomics.callee_of(t2) or "")
                        if cb2 is not None and cb2.get("name") in ("is_first", "is_second", "borrow") and F.handle_name((cb2.get("impl") or {}).get("self_ty", -1)) == "ArcUnion":
                            if any(bj in FB.reach(sb, normal_only=True) and bj != sb for sb in store_bbs):
                                stale = t2["span"]["line"]
                if wrong:
                    rep.bad("R-ARMS", ik2, "in the %s arm the pointer handed to %s is not the payload address: for the stored word %#x it is %#x instead of %#x (the tag bit must be stripped, and only it) - the count is then looked for at a misaligned word next to the payload" % (want, (F.body(atomics.callee_of(t)) or {}).get("name"), wrong[0], wrong[1], wrong[2]), F.loc(b, t["span"]), tag)
                elif stale:
                    rep.bad("R-ARMS", ik2, "the handle typed at %s is built from the word the union held *before* it was replaced, but the variant is tested (line %s) after the replacement: the test describes the new value - when the two variants differ the old block is released at the other type" % (ty, stale), F.loc(b, t["span"]), tag)
                else:
                    rep.ok("R-ARMS", ik2, cfg=tag)
    if only_count:
        return
    # both Drop arms release exactly one owner of their own type (R-BAL on Drop is C01; here: each arm drops an Arc)
    for name, keep in (("as_first", "First"), ("as_second", "Second")):
        for b in F.method("ArcUnion", name):
            B = cfg.Body(b)
            excl = _variant_arms(F, B, b)
            if excl is None:
                fb = inline.inlined_full(F, b["key"])  # `self.either(Some, |_| None)`
                if fb is not None and fb is not b:
                    FB = cfg.Body(fb)
                    e1 = _variant_arms(F, FB, fb)
                    if e1 is not None:
                        b, B, excl = fb, FB, e1
            if excl is None:
                rep.bad("R-ARMS", b["key"], "no `match` on the variant of the borrow found", F.loc(b), tag)
                continue
            good = True
            for variant, blocks in excl.items():
                vs = set()
                for bi in blocks:
                    for s in b["blocks"][bi]["stmts"]:
                        if s["k"] == "assign" and s["rv"]["k"] == "agg" and s["rv"].get("adt") == "core::option::Option":
                            vs.add(s["rv"]["variant"])
                    tt = b["blocks"][bi]["term"]
                    if tt["k"] == "call" and tt.get("callee_trait") in inline.FN_TRAITS and isinstance(tt.get("callee_self"), int):
                        ft = F.ty(tt["callee_self"])
                        if ft["k"] == "fndef" and "::Option::Some" in str(ft.get("def", "")):
                            vs.add("Some")  # the variant constructor used as a function (`either(Some, ..)`)
                if vs != ({"Some"} if variant == keep else {"None"}):
                    good = False
            if good:
                rep.ok("R-ARMS", b["key"], cfg=tag)
            else:
                rep.bad("R-ARMS", b["key"], "%s must answer Some exactly for the %s variant" % (name, keep), F.loc(b), tag)
    # PartialEq: every constant answer is `false`, comparisons are same-variant
    for b in F.method("ArcUnion", "eq", "PartialEq"):
        eq_key = b["key"]
        b = inline.inlined_full(F, b["key"]) or b  # a visitor over the variant with closures per arm is judged as straight code
        B = cfg.Body(b)
        consts = []
        from . import c14 as _c14

        _tests, lic_region = _c14.licence_tests(F, b)  # `self.p == other.p` (same allocation, same variant): C14 R-LICENCE
        for bi_, bl in enumerate(b["blocks"]):
            for s in bl["stmts"]:
                if s["k"] == "assign" and s["lhs"]["l"] == 0 and not s["lhs"]["p"] and s["rv"]["k"] == "use":
                    v = B.const_value(s["rv"]["op"])
                    if v is not None and not (bi_ in lic_region and int(v) == 1):
                        consts.append(v)
        cmps = []
        good = True
        why = None
        for bi, t in B.calls():
            if t.get("callee_trait") == "core::cmp::PartialEq":
                vs = []
                for a in t["args"]:
                    o = B.origin(a)
                    pl = o["rv"]["place"] if o.get("kind") == "rvalue" and o["rv"]["k"] == "ref" else o.get("place")
                    names = [pe.get("name") for pe in (pl["p"] if pl else []) if isinstance(pe, dict) and "dc" in pe]
                    vs.append(tuple(names))
                cmps.append(vs)
                if len(vs) == 2 and vs[0] != vs[1]:
                    good, why = False, "compares a %s with a %s" % (vs[0], vs[1])
            # `other.as_first().map_or(false, |y| x == y)`: the default is a constant answer, the closure holds the comparison
            if (atomics.callee_of(t) or "").endswith("::map_or") and len(t["args"]) >= 2:
                v = B.const_value(t["args"][1])
                if v is not None:
                    consts.append(v)
        # comparisons written inside closures of this function: both sides must be borrows of the same payload type
        tcmps = []
        def owned_by_eq(cb):
            o, n = cb.get("owner"), 0
            while o and n < 6:
                if o == eq_key:
                    return True
                o, n = (F.body(o) or {}).get("owner"), n + 1
            return False

        for cb in F.body_list:
            if cb["kind"] == "Closure" and owned_by_eq(cb):
                for _bi, t in cfg.Body(cb).calls():
                    if t.get("callee_trait") == "core::cmp::PartialEq" and len(t.get("arg_tys", [])) == 2:
                        x, y = (F.ts(F.strip_refs(i)) for i in t["arg_tys"])
                        tcmps.append((x, y))
                        if x != y:
                            good, why = False, "compares a %s with a %s" % (x, y)
        if tcmps and not cmps:
            seen_ty = set(x for x, _y in tcmps)
            if not (any(gen[0] in x for x in seen_ty) and any(gen[1] in x for x in seen_ty)):
                good, why = False, "expected one value comparison per variant, found comparisons at %s" % sorted(seen_ty)
            cmps = [None, None]
        if not consts or any(v != 0 for v in consts):
            good, why = False, "mixed variants do not answer the constant `false` (constants assigned to the result: %s)" % consts
        if len(cmps) < 2:
            good, why = False, "expected one value comparison per variant, found %d" % len(cmps)
        if good:
            rep.ok("R-ARMS", b["key"], cfg=tag)
        else:
            rep.bad("R-ARMS", b["key"], why, F.loc(b), tag)


def main(argv):
    return core.run_property(
        PROP,
        "other",
        run,
        argv,
        explanation=(
            "Tag discipline decided by extracting, on every run, the integer expression each function computes from MIR def-use chains and "
            "evaluating it on even sample addresses (evaluation of an extracted expression, not of the crate): from_first stores `into_raw::<A>(x)`, "
            "from_second `into_raw::<B>(x) | 1`; is_first answers `word & 1 == 0`, is_second its negation; borrow builds First from the untouched "
            "word typed A on the first edge and Second from `word & !1` typed B on the other (any equivalent constant form is accepted because the "
            "expression is evaluated). R-ARMS: Clone and Drop match on the borrow's variant and each arm clones/releases at its own type parameter "
            "and re-wraps with its own constructor; as_first/as_second answer Some exactly for their variant; equality compares same variants and "
            "answers constant false for mixed ones. R-LOWBIT: the block is repr(C) with the pointer-aligned count word first, so every payload "
            "address is even whatever the payload's size/alignment (including u8 and ZSTs). Width/niche is checked with C11's compile-time "
            "witnesses. Same-variant value equality is C14."
            " R-ARMS typed-access clause (any function building a typed borrow/handle from the union's word does so inside the arm of that variant); R-REFCNT-PAIR for the union."
            " Round thirteen/fourteen: R-DESTROY as a premise; R-TAG refuses in-bounds pointer arithmetic on the union's word (undefined behaviour for zero-sized payloads); the variant test may be the written-out tag test or a private enum decoded from it."
            ' Round fifteen: R-OFFSET and R-ZST-DIV as premises.'
            " Round seventeen: the ArcUnion instances of C14's R-EQ-NE / R-NE-NEG (unions holding different variants never compare equal, under `!=` too)."
            ' Round eighteen: R-ARMS typed-access also evaluates the pointer handed over (the stored word with exactly the tag removed) and refuses a variant test made after the word was replaced.'
        ),
        rule_text="instances = tag construction/test/strip sites, variant arms, the parity lemma",
        trusted_base=["rustc MIR def-use", "repr(C) layout rules", "expression evaluator analysis/symx.py"],
        assumptions=["payload addresses come from Arc::into_raw (C11)"],
    )
