"""C02 - concurrent clone/drop: one destroyer, ordered after every thread's last access."""
from .. import atomics, balance, cfg, core, model
from ..effects import ZERO, vget
from . import c04

PROP = "C02"


def rule_dec_release(ctx, rep):
    """R-ORD-1 alone (shared with C03/C08/C09: the Acquire gate only orders anything if the decrements it reads from are Release)."""
    for tag, F, E in ctx.each():
        for b, B, bi, t, cls, ordr in atomics.sites(F):
            if cls != model.ATOMIC_RMW_SUB or not atomics.receiver_is_count(F, B, t):
                continue
            ik = "%s/decrement" % b["key"]
            if ordr in atomics.RELEASE_OK:
                rep.ok("R-ORD-1", ik, "decrement is %s" % ordr, cfg=tag)
            else:
                rep.bad("R-ORD-1", ik, "the decrement of the count word is %s; it must be Release or stronger: the Acquire load of the uniqueness test synchronises only with Release decrements, so the accesses of an owner that has since released would not happen-before the exclusive access granted on `count == 1`" % ordr, F.loc(b, t["span"]), tag)
    rep.floor("R-ORD-1", 1, "one decrement")


def _release_order(F, E, rep, tag):
    from . import c03

    if True:
        # R-ORD-2/3/6 on every release unit (the body with the direct decrement, private helpers inlined, or the caller it
        # reports its verdict to)
        for b0, unit, paths in balance.release_units(F, E):
            UB = cfg.Body(unit)
            key = b0["key"]
            for d in balance.gate_sides(F, unit, paths):
                t = d["term"]
                dec_ord = atomics.ordering_of(UB, t["args"][2]) if len(t["args"]) >= 3 else None
                # R-ORD-3
                why3 = None
                if not any(balance.path_frees(p) for p in paths):
                    why3 = "the body that decrements the count word never reaches a free"
                elif d["problem"] == "no-test":
                    why3 = "no branch tests the value returned by the decrement itself against a constant (a separately loaded count would race with other releasers)"
                elif d["problem"] == "not-eq-1":
                    why3 = "the decrement's old value is tested with `%s %s`, not `== 1`: two threads could both, or neither, destroy the value" % (d["op"], d["k"])
                elif any(balance.path_frees(p) for p in d["paths_other"]):
                    why3 = "a free is reachable on the branch where the decrement observed a value other than 1"
                elif not any(balance.path_frees(p) for p in d["paths_one"]):
                    why3 = "the branch where the decrement observed 1 does not reach the free"
                if why3 is None:
                    rep.ok("R-ORD-3", key + "/gate", cfg=tag)
                else:
                    rep.bad("R-ORD-3", key + "/gate", why3, F.loc(unit, t["span"]), tag)
                # R-ORD-2: on every path DEC .. FREE there is an acquire operation on the count word after the DEC
                bad = None
                nfree = 0
                for p in paths:
                    ev = p.events
                    i_dec = next((i for i, e in enumerate(ev) if e["kind"] == "DEC"), None)
                    if i_dec is None:
                        continue
                    i_free = next((i for i, e in enumerate(ev) if i > i_dec and (vget(e["vec"], "free_s1") or vget(e["vec"], "free_raw"))), None)
                    if i_free is None:
                        continue
                    # the destruction starts where the payload's destructor runs, which may be before the block is given back
                    # (`drop_in_place(data)` under a deallocation guard): the acquire has to come before that, too
                    i_destroy = next((i for i, e in enumerate(ev) if i_dec < i < i_free and e["kind"] == "DROP" and vget(e["vec"], "user") and not vget(e["vec"], "dec")), None)
                    i_block_free = i_free
                    if i_destroy is not None:
                        i_free = i_destroy
                    nfree += 1
                    acq = dec_ord in ("AcqRel", "SeqCst")
                    for e in ev[i_dec + 1 : i_free]:
                        if e["kind"] == "CALL" and isinstance(e["detail"], dict):
                            # the load spelled as a call of the crate's own accessor (`Arc::count(self)`: returns `count.load(Acquire)`)
                            G = F.__dict__.get("_c02_gates")
                            if G is None:
                                G = F.__dict__["_c02_gates"] = c03.Gates(F)
                            tt = unit["blocks"][e["bb"]]["term"]
                            callee = e["detail"].get("callee")
                            if callee in G.loaders and tt["k"] == "call" and atomics.resolve_ordering(G.loaders[callee], UB, tt) in atomics.ACQUIRE_OK:
                                acq = True
                        if e["kind"] in ("LOAD", "FENCE"):
                            tt = unit["blocks"][e["bb"]]["term"]
                            cls2 = atomics.atomic_class(tt)
                            if cls2 == model.ATOMIC_LOAD and atomics.receiver_is_count(F, UB, tt) and atomics.ordering_of(UB, tt["args"][1]) in atomics.ACQUIRE_OK:
                                acq = True
                            # (a real fence: `compiler_fence` orders nothing between threads)
                            if cls2 == model.FENCE and (atomics.callee_of(tt) or "").endswith("atomic::fence") and atomics.ordering_of(UB, tt["args"][0]) in atomics.ACQUIRE_OK:
                                acq = True
                    if not acq and bad is None:
                        bad = p
                    # R-ORD-6: nothing touches the count word or the payload after the free
                    for e in ev[i_block_free + 1 :]:
                        if e["kind"] in ("LOAD", "INC", "DEC", "DATAREF") or (e["kind"] == "CALL" and e["vec"] != ZERO):
                            rep.bad("R-ORD-6", key + "/after-free", balance.path_report(F, unit, p, "the count word or the payload is touched after the block has been freed"), F.loc(unit, e["span"]), tag)
                if nfree == 0:
                    rep.bad("R-ORD-2", key + "/acquire", "no path from the decrement reaches a free (anchor lost)", F.loc(unit), tag)
                elif bad is not None:
                    rep.bad("R-ORD-2", key + "/acquire", balance.path_report(F, unit, bad, "between the decrement that observed 1 and the free there is no acquire operation on the count word (Acquire/SeqCst load, acquire fence, or an AcqRel/SeqCst decrement): the destruction is not ordered after other threads' last accesses"), F.loc(unit, t["span"]), tag)
                else:
                    rep.ok("R-ORD-2", key + "/acquire", cfg=tag)
                    rep.ok("R-ORD-6", key + "/after-free", cfg=tag)


def rule_release_order(ctx, rep):
    """R-ORD-2/3/6 alone: the last owner - whoever observed 1 from its own Release decrement - performs an acquire before it
    destroys, frees or moves out the value (premise of C03 for sole ownership granted on that basis, e.g. an `into_inner`)."""
    for tag, F, E in ctx.each():
        _release_order(F, E, rep, tag)


def run(ctx, rep):
    from . import c03

    for tag, F, E in ctx.each():
        A = balance.analysis(tag, F, E)
        st = atomics.sites(F)
        n_inc = n_dec = 0
        for b, B, bi, t, cls, ordr in st:
            loc = F.loc(b, t["span"])
            if cls == model.ATOMIC_OTHER:
                rep.bad("R-ORD-4", "%s/%s" % (b["key"], atomics.callee_of(t)), "the count word is accessed by %s: only new/fetch_add/fetch_sub/load are covered by the release/acquire counting lemma" % atomics.callee_of(t), loc, tag)
                continue
            if cls == model.ATOMIC_CAS:
                inc = atomics.cas_increment(t)
                ik = "%s/cas" % b["key"]
                if not atomics.receiver_is_count(F, B, t):
                    rep.notes.append("atomic operation on something other than the count field (ignored): %s at %s" % (b["key"], loc))
                elif atomics.cas_test(t) is not None:
                    rep.ok("R-ORD", "%s/cas-test" % b["key"], "compare_exchange(%d, %d): a read of the count word that changes nothing (its use as a gate is C03's R-GATE)" % (atomics.cas_test(t), atomics.cas_test(t)), cfg=tag)
                elif inc is None:
                    rep.bad("R-ORD-4", "%s/%s" % (b["key"], atomics.callee_of(t)), "the count word is changed by a compare-and-swap whose operands are not constants with new > current: only increments of this form are covered by the counting lemma (a decrement must be a Release fetch_sub whose returned value is tested)", loc, tag)
                else:
                    n_inc += 1
                    rep.ok("R-ORD-INC", ik, "increment by compare-and-swap %d -> %d (any ordering is sound: a new handle derives from a live one; a failed swap changes nothing)" % inc, cfg=tag)
                continue
            if cls == model.ATOMIC_NEW or cls == model.FENCE:
                continue
            if not atomics.receiver_is_count(F, B, t):
                rep.notes.append("atomic operation on something other than the count field (ignored): %s at %s" % (b["key"], loc))
                continue
            ik = "%s/%s" % (b["key"], {model.ATOMIC_RMW_ADD: "increment", model.ATOMIC_RMW_SUB: "decrement", model.ATOMIC_LOAD: "load"}[cls])
            if isinstance(ordr, tuple) and cls == model.ATOMIC_LOAD and not balance.is_api(F, b):
                # a private loader that takes the ordering from its callers: every call site must pass a constant (what each
                # load is used for - gate, query, acquire before the free - is judged where its result is used)
                bad_cs = []
                n_cs = 0
                for cb in F.body_list:
                    CB = None
                    for cbl in cb["blocks"]:
                        ct = cbl["term"]
                        if ct["k"] == "call" and atomics.callee_of(ct) == b["key"]:
                            CB = CB or cfg.Body(cb)
                            n_cs += 1
                            if not isinstance(atomics.resolve_ordering(ordr, CB, ct), str):
                                bad_cs.append(F.loc(cb, ct["span"]))
                if n_cs and not bad_cs:
                    rep.ok("R-ORD", ik, "ordering chosen by %d call sites, each a constant" % n_cs, cfg=tag)
                    continue
                rep.bad("R-ORD", ik, "memory ordering operand is a parameter and not every call site passes a constant (%s): cannot check the lemma's premise" % (bad_cs or "no call site"), loc, tag)
                continue
            if ordr is None or isinstance(ordr, tuple):
                rep.bad("R-ORD", ik, "memory ordering operand is not a constant: cannot check the lemma's premise", loc, tag)
                continue
            if cls == model.ATOMIC_RMW_SUB:
                n_dec += 1
                if ordr in atomics.RELEASE_OK:
                    rep.ok("R-ORD-1", ik, "decrement is %s" % ordr, cfg=tag)
                else:
                    rep.bad("R-ORD-1", ik, "the decrement of the count word is %s; it must be Release or stronger so that every access made through the released handle happens-before the destruction" % ordr, loc, tag)
                rep.sample({"rule": "R-ORD-1", "site": ik, "ordering": ordr, "at": loc}) if tag == "default" else None
            elif cls == model.ATOMIC_RMW_ADD:
                n_inc += 1
                rep.ok("R-ORD-INC", ik, "increment is %s (any ordering is sound: a new handle derives from a live one)" % ordr, cfg=tag)
        _release_order(F, E, rep, tag)
        # R-ORD-2 (no-decrement form): a free reached by an owner without decrementing needs an acquire observation `count == 1`
        from . import c03

        G = c03.Gates(F)
        for b in F.body_list:
            key = b["key"]
            B = None
            edges = None
            for p in A.paths.get(key, []):
                if not (vget(p.vec, "free_raw") and not vget(p.vec, "dec")):
                    continue
                if any(F.handle_name(x) == "UniqueArc" for x in b.get("inputs", [])):
                    continue  # sole owner by type (C09)
                direct = [e for e in p.events if vget(e["vec"], "free_raw") and e["kind"] in ("CALL", "DROP", "FREE")]
                if not direct or b["kind"] == "Closure":
                    continue
                # only judge the body in which the observation and the free meet: it must not itself be called with the free already paired
                if B is None:
                    B = cfg.Body(b)
                    edges = c03.gate_edges_with_order(F, G, B)
                if not edges:
                    continue
                blocks = list(p.blocks)
                passed = [(x, y, o) for (x, y, roots, o) in edges for i in range(len(blocks) - 1) if blocks[i] == x and blocks[i + 1] == y]
                if not passed:
                    continue
                ik = key + "/sole-owner-free"
                if all(o in atomics.ACQUIRE_OK for (_x, _y, o) in passed):
                    rep.ok("R-ORD-2", ik, cfg=tag)
                else:
                    rep.bad("R-ORD-2", ik, balance.path_report(F, b, p, "the block is freed after observing `count == 1` through a %s load: without Acquire the destruction is not ordered after the accesses of owners that released on other threads" % "/".join(sorted(set(str(o) for (_x, _y, o) in passed)))), F.loc(b), tag)
        # R-ORD-4: no plain access to the count field
        _plain_access(F, rep, tag)
        # R-FUNNEL: atomic RMW sites only in Arc's own code; every handle kind's Clone/Drop reaches them exactly once
        for b, B, bi, t, cls, ordr in st:
            if cls not in (model.ATOMIC_RMW_ADD, model.ATOMIC_RMW_SUB):
                continue
            from . import c01

            hn, _tr = c01._owner_handle(F, b)  # the impl the site sits in, or the common owner of a private helper's callers
            ik = "%s/%s" % (b["key"], cls)
            from ..facts import OWNING_HANDLES

            if hn == "Arc" or (cls == model.ATOMIC_RMW_ADD and (_tr == "core::clone::Clone" or (_tr or "").endswith("ref_cnt::RefCnt")) and hn in OWNING_HANDLES):  # an increment needs no ordering (R-ORD-INC): any owning handle's own Clone may take it
                rep.ok("R-FUNNEL", ik, cfg=tag)
            else:
                rep.bad("R-FUNNEL", ik, "a read-modify-write of the count word lives outside Arc's own clone/release code: the lemma's premises would have to be re-established for it", F.loc(b, t["span"]), tag)
        for name, cls in [(n, "CLONE") for n in c04.TABLE["CLONE"]] + [(n, "RELEASE") for n in c04.TABLE["RELEASE"]]:
            for b in F.body_list:
                if c04.api_name(F, b) != name:
                    continue
                vecs = [p.vec for p in A.paths[b["key"]] if p.exit == "ret"]
                msg = c04.check_class(cls, vecs)
                if msg:
                    rep.bad("R-FUNNEL", b["key"], "does not reach Arc's single %s exactly once: %s" % ("increment" if cls == "CLONE" else "decrement", msg), F.loc(b), tag)
                else:
                    rep.ok("R-FUNNEL", b["key"], cfg=tag)
    c03.rule_gate_def(ctx, rep, with_release=False)  # a thread may also become the destroyer by observing `count == 1` through the gate (try_unwrap, into_inner)
    balance.rule_count_addr(ctx, rep)
    rep.floor("R-COUNT-ADDR", 1, "one instance per run")
    balance.rule_use_after_release(ctx, rep)
    rep.floor("R-USE-AFTER-RELEASE", 1, "the one decrementing body")
    balance.rule_release_retarget(ctx, rep)  # (the same for a hand-written release-then-store through `&mut Handle`: `clone_from` as `drop_in_place(self); ptr::write(self, new)`)
    balance.rule_writeback(ctx, rep)  # "no thread touches the value or its count after the memory has been released": a re-pointed duplicate of a lent handle must reach the caller's place on every exit
    rep.floor("R-WRITEBACK", 0, "OffsetArc::make_mut today; a copy-on-write that never moves the handle out of its place has nothing to write back")
    rep.floor("R-ORD-1", 1, "one decrement")
    rep.floor("R-ORD-INC", 1, "one increment")
    rep.floor("R-ORD-2", 1, "one decrement-to-free region")
    rep.floor("R-ORD-3", 1, "one `old == 1` gate")
    rep.floor("R-ORD-4", 2, "at least one count initialisation + the shared-borrow positive control (today 3 + 1)")
    rep.floor("R-FUNNEL", 12, "2 RMW sites + 6 clone entry points + 4 Drop impls")


def _dec_gate_ok(F, A, b, B, t, found):
    frees = set()
    for p in A.paths.get(b["key"], []):
        for e in p.events:
            if vget(e["vec"], "free_s1") or vget(e["vec"], "free_raw"):
                frees.add(e["bb"])
    if not frees:
        return False, "the body that decrements the count word never reaches a free"
    if found is None:
        return False, "no branch tests the value returned by the decrement itself against a constant (a separately loaded count would race with other releasers)"
    sj, tt, c, k = found
    op = c["op"]
    if k != 1 or op not in ("Eq", "Ne"):
        return False, "the decrement's old value is tested with `%s %s`, not `== 1`: two threads could both, or neither, destroy the value" % (op, k)
    truth = B.switch_truth(tt)
    for tgt, tv in truth.items():
        cond_true = tv != c["neg"]
        is_one = cond_true if op == "Eq" else not cond_true
        hits = bool(B.reach(tgt) & frees)
        if hits and not is_one:
            return False, "a free is reachable on the branch where the decrement observed a value other than 1"
        if not hits and is_one:
            return False, "the branch where the decrement observed 1 does not reach the free"
    return True, None


def _plain_access(F, rep, tag):
    """The count field is only (a) shared-borrowed as the receiver of an atomic call, (b) written once by ptr::write /
    aggregate with a fresh Atomic::new(const) before the block has an owner."""
    shared = 0
    for b in F.body_list:
        B = cfg.Body(b)
        for bi, bl in enumerate(b["blocks"]):
            for si, s in enumerate(bl["stmts"]):
                if s["k"] != "assign":
                    continue
                rv = s["rv"]
                ik = "%s/bb%d" % (b["key"], bi)
                # direct assignment to the field
                if atomics.is_count_place(F, s["lhs"]):
                    rep.bad("R-ORD-4", b["key"] + "/plain-store", "the count field is assigned directly (non-atomic store)", F.loc(b, s["span"]), tag)
                if rv["k"] in ("ref", "rawptr") and atomics.is_count_place(F, rv["place"]):
                    if rv["k"] == "ref" and not rv["mut"]:
                        shared += 1
                        continue
                    # mutable borrow: must feed ptr::write(dst, Atomic::new(const)) only
                    l = s["lhs"]["l"]
                    ok = False
                    for bj, t in B.calls():
                        if atomics.callee_of(t) in ("core::ptr::write", "<*mut T>::write") and t["args"]:
                            o = B.origin(t["args"][0])
                            if o.get("local") == l or (o.get("kind") == "rvalue" and o.get("local") == l):
                                v = B.origin(t["args"][1])
                                if v.get("kind") == "call" and atomics.atomic_class(v["term"]) == model.ATOMIC_NEW:
                                    ok = True
                    if ok:
                        rep.ok("R-ORD-4", b["key"] + "/init-write", cfg=tag)
                    else:
                        rep.bad("R-ORD-4", b["key"] + "/mut-borrow", "a mutable borrow / raw mutable pointer to the count field is taken for something other than its one-time initialisation", F.loc(b, s["span"]), tag)
                if rv["k"] == "agg" and rv.get("adt") == F.inner_path:
                    o = B.origin(rv["ops"][F.count_field[0]])
                    if o.get("kind") == "call" and atomics.atomic_class(o["term"]) == model.ATOMIC_NEW:
                        rep.ok("R-ORD-4", b["key"] + "/init-aggregate", cfg=tag)
                    else:
                        rep.bad("R-ORD-4", b["key"] + "/init-aggregate", "the block is built with a count that is not a fresh Atomic::new(..)", F.loc(b, s["span"]), tag)
    if shared:
        rep.ok("R-ORD-4", "shared-borrows-of-count(positive control)", cfg=tag)


def main(argv):
    return core.run_property(
        PROP,
        "other",
        run,
        argv,
        explanation=(
            "Checks that the code instantiates the premises of the release/acquire reference-counting lemma (Boost.Atomic / std::sync::Arc): "
            "R-ORD-1 every decrement of the count word is Release or stronger; R-ORD-2 on every path from the decrement to the free there is, "
            "after the decrement, an Acquire/SeqCst load of the count word or an acquire `atomic::fence` - not `compiler_fence`, which orders nothing between threads (round nineteen, seed C02t) - (or the decrement is AcqRel/SeqCst); R-ORD-3 the "
            "branch guarding the free tests the value returned by the decrement itself against 1 and the free sits on the ==1 side; R-ORD-4 the "
            "count field is never accessed non-atomically or by store/swap/CAS after its one-time initialisation; R-ORD-6 nothing touches count or "
            "payload after the free; R-FUNNEL the only read-modify-write sites are Arc's, and every handle kind's Clone/Drop reaches them exactly "
            "once. Orderings are read from MIR operands (enum variants), receivers by def-use. The memory model itself is the trusted lemma: given "
            "these premises every access through a released handle happens-before the destruction and exactly one decrement observes 1."
            " Round thirteen/fourteen: R-WRITEBACK as a premise (no handle keeps the address of a released block); the acquire operation may be a call of the crate's own Acquire loader."
        ),
        rule_text="instances = atomic call sites, decrement-to-free regions, count-field access sites, clone/drop entry points",
        trusted_base=["the release/acquire reference-counting lemma (C++11/Rust memory model)", "rustc nightly MIR and trait resolution", "std model table"],
        assumptions=["payloads are Send+Sync when handles cross threads (C13)", "the five atomic call sites are the only accesses to the count word (checked by R-ORD-4)"],
    )
