"""C08 - copy-on-write: a write through make_mut is never seen through another handle."""
from .. import atomics, balance, cfg, core
from ..effects import ZERO, vget
from . import c04

PROP = "C08"


def idx_of(events, pred):
    for i, e in enumerate(events):
        if pred(e):
            return i
    return None


def rule_cow(ctx, rep):
    for tag, F, E in ctx.each():
        A = balance.analysis(tag, F, E)
        targets = [("Arc", "make_mut"), ("Arc", "make_unique"), ("OffsetArc", "make_mut")]
        for h, name in targets:
            bs = F.method(h, name)
            if not bs:
                rep.bad("ANCHOR-LOST", "R-COW/%s::%s" % (h, name), "copy-on-write API named by the property is missing", None, tag)
                continue
            for b in bs:
                key = b["key"]
                prs = [p for p in A.paths[key] if p.exit == "ret"]
                msg = c04.check_class("COW", [p.vec for p in prs])
                if msg:
                    rep.bad("R-COW", key + "/path-set", msg, F.loc(b), tag)
                else:
                    rep.ok("R-COW", key + "/path-set", cfg=tag)
                stale = _stale_pointer(F, b)
                if stale:
                    rep.bad("R-COW", key + "/fresh-pointer", "the `&mut` handed out (line %s) is built on the handle's pointer as it was read at line %s, and a store that redirects the handle (line %s) can happen after that read: on the shared branch the reference points into the *old* allocation - writes are seen by every other owner and not through this handle" % stale, F.loc(b), tag)
                else:
                    rep.ok("R-COW", key + "/fresh-pointer", cfg=tag)
                reads_out = any(e["kind"] == "MAKE" and str(e["detail"].get("via", "")).startswith("core::ptr::read") for p in prs for e in p.events) or any(e["kind"] == "CALL" and _reads_and_parks(F, A, e["detail"].get("callee")) for p in prs for e in p.events)
                tkeys = {x["key"] for (h2, n2) in targets for x in F.method(h2, n2)} - {key}
                dk = _delegates_to(F, A, b, prs, tkeys)
                if dk is not None:
                    # the whole copy-on-write is another function of this family applied to the same handle (judged there); the
                    # borrow handed out comes after it
                    rep.ok("R-COW", key + "/order", "delegates to " + dk, cfg=tag)
                    rep.ok("R-COW", key + "/gate", "delegates to " + dk, cfg=tag)
                elif h == "Arc" or not reads_out:
                    # (an OffsetArc copy-on-write that never moves the handle out of its place has Arc::make_mut's own shape)
                    _arc_cow_order(F, A, b, prs, rep, tag, need_ref=(h == "Arc"))  # the value-pointer borrow of an OffsetArc is judged by C03 R-GATE
                else:
                    _offset_cow(F, A, b, prs, rep, tag)
    rep.floor("R-COW", 9, "3 functions x (path set, order, gate/write-back)")


def _stale_pointer(F, b):
    """The payload borrow a copy-on-write function returns must be built on the handle's pointer as read *after* every store that
    can redirect the handle: (line of the borrow, line of the pointer read, line of the store) if a store into `*this` is
    reachable from the block in which the pointer under the returned borrow was read, else None."""
    from . import c03
    from ..facts import operand_place

    B = cfg.Body(b)
    margs = [i + 1 for i, t in enumerate(b.get("inputs", [])) if F.ty(t)["k"] == "ref" and F.ty(t)["mut"] and F.tokens(F.ty(t)["t"])[0] > 0]
    if not margs:
        return None
    stores = []
    for bi, bl in enumerate(b["blocks"]):
        for st in bl["stmts"]:
            if st["k"] == "assign" and st["lhs"]["p"] == ["deref"] and (st["lhs"]["l"] in margs or c03.root_args(B, st["lhs"]["l"]) & set(margs)):
                stores.append((bi, st["span"]["line"]))
        t = bl["term"]
        if t["k"] == "call" and (atomics.callee_of(t) or "") in ("core::mem::replace", "core::ptr::write", "<*mut T>::write") and t["args"]:
            pl = operand_place(t["args"][0])
            if pl is not None and F.tokens(F.strip_refs(pl.get("ty", 0)) if "ty" in pl else 0)[0] > 0 and (pl["l"] in margs or c03.root_args(B, pl["l"]) & set(margs)):
                stores.append((bi, t["span"]["line"]))
    if not stores:
        return None
    for bi, bl in enumerate(b["blocks"]):
        for st in bl["stmts"]:
            if st["k"] != "assign" or st["rv"]["k"] != "ref" or not st["rv"]["mut"] or not c03._has_data(F, st["rv"]["place"]):
                continue
            o = B.origin_local(st["rv"]["place"]["l"])
            rb = o.get("bb") if o.get("kind") in ("call", "rvalue") else None
            if rb is None:
                continue
            reach = B.reach(rb, normal_only=True)
            for sb, sline in stores:
                if sb in reach and (sb != rb):
                    rline = (o["term"]["span"]["line"] if o.get("kind") == "call" else st["span"]["line"])
                    return (st["span"]["line"], rline, sline)
    return None


def _delegates_to(F, A, b, prs, tkeys):
    """Every returning path calls one and the same other copy-on-write function on the handle parameter itself, before any mutable
    borrow of the payload, and neither clones, allocates nor releases anything on its own."""
    from . import c03
    from ..facts import operand_place

    B = cfg.Body(b)
    found = set()
    for p in prs:
        i_call = idx_of(p.events, lambda e: e["kind"] == "CALL" and e["detail"].get("outcome") is None and e["detail"].get("callee") in tkeys)
        if i_call is None:
            return None
        e = p.events[i_call]
        t = b["blocks"][e["bb"]]["term"]
        pl = operand_place(t["args"][0]) if t["k"] == "call" and t["args"] else None
        if pl is None or 1 not in c03.root_args(B, pl["l"]):
            return None
        i_ref = _mut_ref_index(p.events[:i_call], A)
        if i_ref is not None:
            return None
        for j, x in enumerate(p.events):
            if j != i_call and (x["kind"] == "UCLONE" or vget(x["vec"], "uclone") or vget(x["vec"], "alloc") or c04.released(x["vec"])):
                return None
        found.add(e["detail"]["callee"])
    return next(iter(found)) if len(found) == 1 else None


def _fwd_gate_at(F, b, e):
    """The event is a call of a forwarding function applied to the uniqueness gate (`with_arc(self, Arc::is_unique)`)."""
    from . import c03

    try:
        t = b["blocks"][e["bb"]]["term"]
    except (IndexError, KeyError):
        return False
    if t["k"] != "call":
        return False
    G = F.__dict__.get("_gates_cache")
    if G is None:
        G = F.__dict__["_gates_cache"] = c03.Gates(F)
    return c03._forwarded_gate(F, G, t) is not None


def _mut_ref_index(ev, A=None):
    """Index of the event that hands out mutable access: a `&mut` borrow of the payload, the `&mut Arc -> &mut UniqueArc`
    constructor, or a call of a private helper that does nothing but take that borrow (`unsafe fn data_mut_unchecked`)."""
    i_ref = None
    for i, e in enumerate(ev):
        if e["kind"] == "DATAREF" and e["detail"]["mut"]:
            i_ref = i
        if e["kind"] == "CALL" and (e["detail"].get("callee") or "").endswith("::from_arc_ref"):
            i_ref = i
        if e["kind"] == "CALL" and A is not None and e["detail"].get("outcome") is None and e["vec"] == ZERO:
            ck = e["detail"].get("callee")
            if ck in A.paths and any(x["kind"] == "DATAREF" and x["detail"]["mut"] for q in A.paths[ck] for x in q.events):
                i_ref = i
    return i_ref


def _arc_cow_order(F, A, b, prs, rep, tag, key=None, need_ref=True):
    """Clone path: gate false -> clone of the old payload -> fresh block -> release of the old handle -> &mut from the new pointer.
    Unique path: gate true -> &mut from the incoming pointer, nothing else.
    The test-and-unshare part may live in one private helper (`fn clone_if_shared(this: &mut Self)`): then the sequence is
    judged in the helper and the caller only has to take its borrow after the call."""
    key = key or b["key"]
    gate_key = None
    ok_order = True
    ok_gate = True
    why = None
    B = cfg.Body(b)
    if need_ref and _gate_edges(F, B, A.E) is None:
        helpers = set()
        for p in prs:
            for e in p.events:
                if e["kind"] == "CALL" and isinstance(e["detail"], dict) and e["detail"].get("outcome") is None:
                    hk = e["detail"].get("callee")
                    hb = F.body(hk) if hk else None
                    if hb is not None and not balance.is_api(F, hb) and hk in A.paths and hk not in A.errors:
                        if any(x["kind"] == "CALL" and _is_gate(F, x["detail"].get("callee")) for q in A.paths[hk] for x in q.events):
                            helpers.add(hk)
        if len(helpers) == 1:
            hk = next(iter(helpers))
            bad = None
            for p in prs:
                i_call = idx_of(p.events, lambda e: e["kind"] == "CALL" and e["detail"].get("callee") == hk)
                i_ref = _mut_ref_index(p.events, A)
                if i_call is None or i_ref is None or not i_call < i_ref:
                    bad = p
            if bad is not None:
                rep.bad("R-COW", key + "/order", balance.path_report(F, b, bad, "the mutable borrow must be taken after the call of the helper that tests and un-shares the handle (%s)" % hk), F.loc(b), tag)
                return
            hb = F.body(hk)
            _arc_cow_order(F, A, hb, [q for q in A.paths[hk] if q.exit == "ret"], rep, tag, key=key, need_ref=False)
            return
    for p in prs:
        ev = p.events
        i_clone = idx_of(ev, lambda e: e["kind"] == "UCLONE")
        i_helper = idx_of(ev, lambda e: e["kind"] == "CALL" and vget(e["vec"], "uclone") and vget(e["vec"], "alloc") and c04.released(e["vec"]))
        i_new = idx_of(ev, lambda e: vget(e["vec"], "alloc") > 0)
        i_drop = idx_of(ev, lambda e: (e["kind"] == "DROP" or (e["kind"] == "CALL" and not vget(e["vec"], "alloc") and not vget(e["vec"], "uclone"))) and c04.released(e["vec"]) > 0)
        i_gate = idx_of(ev, lambda e: e["kind"] in ("CALL", "HO") and (_is_gate(F, e["detail"].get("callee")) or _fwd_gate_at(F, b, e)))
        # the mutable borrow handed out (payload borrow or &mut Arc -> &mut UniqueArc cast)
        i_ref = _mut_ref_index(ev, A)
        if not need_ref:
            i_ref = len(ev)  # judged in the caller: it borrows after this helper returned
        if i_gate is None:
            ok_gate, why = False, balance.path_report(F, b, p, "no uniqueness test on this path before mutable access is handed out")
            continue
        if i_ref is None and i_clone is None and i_helper is None:
            # in-place path through a checked conversion that hands out the access itself (`match try_as_unique(this) { Ok(u) =>
            # u, .. }`): the borrow is the verdict of the gate function (a derived gate, judged by C03 R-GATE)
            from . import c03

            Gd = F.__dict__.get("_gates_cache")
            if Gd is None:
                Gd = F.__dict__["_gates_cache"] = c03.Gates(F)
            if ev[i_gate]["kind"] == "CALL" and ev[i_gate]["detail"].get("callee") in c03.derived_gates(F, Gd, A.E):
                i_ref = i_gate + 1
        if i_clone is None and i_helper is not None:
            # the slow path lives in a helper (clone, fresh block, release inside one call): the borrow must come after it
            if i_ref is None or not (i_gate < i_helper < i_ref):
                ok_order, why = False, balance.path_report(F, b, p, "the mutable borrow must be taken after the helper that clones and redirects the handle")
            continue
        if i_clone is None:
            # unique path: nothing but the gate and the borrow
            if i_ref is None or i_ref < i_gate:
                ok_order, why = False, balance.path_report(F, b, p, "in-place path: the mutable borrow is not taken after the uniqueness test")
            continue
        if not (i_gate < i_clone and i_new is not None and i_clone < i_new and i_drop is not None and i_new < i_drop and i_ref is not None and i_drop < i_ref):
            ok_order, why = False, balance.path_report(F, b, p, "clone path must be: uniqueness test, Clone::clone of the old payload, fresh block, release of the old handle, and only then the mutable borrow (from the handle's new pointer)")
    if ok_gate and ok_order:
        rep.ok("R-COW", key + "/order", cfg=tag)
    else:
        rep.bad("R-COW", key + "/order", why, F.loc(b), tag)
    # the branch: clone happens exactly on the gate-false edge
    res = _gate_edges(F, B, A.E)
    if res is None:
        rep.bad("R-COW", key + "/gate", "no branch on the uniqueness test found", F.loc(b), tag)
        return
    bi, true_tgt, false_tgt = res
    clone_bbs = set()
    for p in prs:
        for e in p.events:
            if e["kind"] == "UCLONE" or vget(e["vec"], "uclone"):
                clone_bbs.add(e["bb"])
    rt = B.reach(true_tgt, normal_only=True, avoid=()) if true_tgt is not None else set()
    rf = B.reach(false_tgt, normal_only=True) if false_tgt is not None else set()
    # blocks reachable only from the false edge
    only_false = rf - rt
    if clone_bbs and clone_bbs <= only_false:
        rep.ok("R-COW", key + "/gate", cfg=tag)
    else:
        rep.bad("R-COW", key + "/gate", "the payload is cloned on the branch where the handle was found to be the sole owner (or the clone is not confined to the shared branch)", F.loc(b), tag)


_gate_reach = {}


def _is_gate(F, callee):
    """The uniqueness test, or a function whose own body performs it (e.g. a COW written as `if get_mut(this).is_none()`)."""
    if not callee:
        return False
    k = (id(F), callee)
    if k not in _gate_reach:
        _gate_reach[k] = _is_gate0(F, callee)
        if not _gate_reach[k]:
            g = cfg.call_graph(F)
            _gate_reach[k] = any(_is_gate0(F, x) for x in g.get(callee, ()))
    return _gate_reach[k]


def _is_gate0(F, callee):
    if not callee:
        return False
    b = F.body(callee)
    return bool(b) and b.get("name") in ("is_unique",) and F.handle_name((b.get("impl") or {}).get("self_ty", -1) if b.get("impl") else -1) == "Arc" if b and b.get("impl") else False


def _gate_edges(F, B, E=None):
    from . import c03

    if E is not None:
        G = c03.Gates(F)
        ed = [(x, y) for (x, y, roots, o) in c03.gate_edges_with_order(F, G, B, E) if 1 in roots]
        if ed:
            bi = ed[0][0]
            tt = B.blocks[bi]["term"]
            true_tgts = [y for (x, y) in ed if x == bi]
            others = [s for s in cfg.successors(tt, with_unwind=False) if s not in true_tgts]
            return bi, true_tgts[0], (others[0] if others else None)
    for bi, bl in enumerate(B.blocks):
        tt = bl["term"]
        if tt["k"] != "switch":
            continue
        c = B.condition(tt["discr"])
        if c and "call" in c:
            r = c["call"].get("resolved")
            callee = r["def"] if isinstance(r, dict) else None
            if _is_gate(F, callee):
                truth = B.switch_truth(tt)
                t_tgt = f_tgt = None
                for tgt, tv in truth.items():
                    if tv != c["neg"]:
                        t_tgt = tgt
                    else:
                        f_tgt = tgt
                return bi, t_tgt, f_tgt
    return None


def _reads_and_parks(F, A, key):
    """A private local function every returning path of which bit-copies a handle out (`ptr::read`) and then parks a handle in
    ManuallyDrop, in that order."""
    cb = F.body(key) if key else None
    if cb is None or balance.is_api(F, cb) or key not in A.paths or key in A.errors:
        return False
    rets = [q for q in A.paths[key] if q.exit == "ret"]
    if not rets:
        return False
    for q in rets:
        i_r = idx_of(q.events, lambda e: e["kind"] == "MAKE" and e["detail"].get("via", "").startswith("core::ptr::read"))
        i_p = idx_of(q.events, lambda e: e["kind"] == "HIDE" and "ManuallyDrop" in str(e["detail"].get("via")))
        if i_r is None or i_p is None or not i_r < i_p:
            return False
    return True


def _cow_through_lending_helper(F, A, b, p):
    """`self.with_arc_mut(|arc| Arc::make_mut(arc) ..)`: the read-out, the parking, the call of the callback and the write-back
    guard live in a private helper that lends `&mut Arc` to its callable parameter (every returning path of the helper: read <
    park < callback < write-back), and the closure handed to it by this function applies Arc's copy-on-write to what it is lent."""
    for e in p.events:
        d = e["detail"] if isinstance(e["detail"], dict) else {}
        hk = d.get("callee")
        hb = F.body(hk) if hk else None
        if e["kind"] != "CALL" or d.get("outcome") is not None or hb is None or balance.is_api(F, hb) or hk not in A.paths or hk in A.errors:
            continue
        rets = [q for q in A.paths[hk] if q.exit == "ret"]
        if not rets:
            continue
        good = True
        for q in rets:
            ev = q.events
            i_read = idx_of(ev, lambda x: x["kind"] == "MAKE" and x["detail"].get("via", "").startswith("core::ptr::read"))
            i_park = idx_of(ev, lambda x: x["kind"] == "HIDE" and "ManuallyDrop" in str(x["detail"].get("via")))
            i_cb = idx_of(ev, lambda x: x["kind"] == "PCALL")
            i_wb = idx_of(ev, lambda x: x["kind"] == "DROP" and (balance.guard_writes_back(F, A, x["detail"].get("adt")) or any(balance.guard_writes_back(F, A, F.ty(t2).get("path")) for t2 in ([x["detail"].get("ty_idx")] if isinstance(x["detail"].get("ty_idx"), int) else []))))
            if None in (i_read, i_park, i_cb, i_wb) or not (i_read < i_park < i_cb < i_wb):
                good = False
        if not good:
            continue
        for cb in F.body_list:
            if cb["kind"] == "Closure" and cb.get("owner") == b["key"]:
                for bl in cb["blocks"]:
                    t = bl["term"]
                    if t["k"] == "call":
                        tb = F.body((t.get("resolved") or {}).get("def") if isinstance(t.get("resolved"), dict) else t.get("callee"))
                        if tb is not None and tb.get("name") in ("make_mut", "make_unique") and F.handle_name((tb.get("impl") or {}).get("self_ty", -1)) == "Arc":
                            return True
    return False


def _offset_cow(F, A, b, prs, rep, tag):
    """OffsetArc::make_mut: read the handle out, park it, run Arc's COW on the parked copy, write the (possibly redirected) handle back."""
    key = b["key"]
    ok = True
    why = None
    for p in prs:
        ev = p.events
        i_read = idx_of(ev, lambda e: e["kind"] == "MAKE" and e["detail"].get("via", "").startswith("core::ptr::read"))
        i_park = idx_of(ev, lambda e: e["kind"] == "HIDE" and "ManuallyDrop" in str(e["detail"].get("via")))
        i_cow = idx_of(ev, lambda e: e["kind"] == "CALL" and (F.body(e["detail"].get("callee")) or {}).get("name") == "make_mut")
        i_unpark = idx_of(ev, lambda e: e["kind"] == "MAKE" and "ManuallyDrop" in str(e["detail"].get("via")))
        i_write = idx_of(ev, lambda e: e["kind"] == "HIDE" and "write" in str(e["detail"].get("via")))
        i_guard = idx_of(ev, lambda e: e["kind"] == "DROP" and balance.guard_writes_back(F, A, e["detail"].get("adt")))
        direct = None not in (i_read, i_park, i_cow, i_unpark, i_write) and i_read < i_park < i_cow < i_unpark < i_write
        guarded = None not in (i_read, i_park, i_cow, i_guard) and i_read < i_park < i_cow < i_guard
        if not (direct or guarded) and i_cow is not None and i_guard is not None and i_cow < i_guard:
            # the read-out and the parking may live in the guard's private constructor (`WriteBack::take_from(self)`)
            i_ctor = idx_of(ev[:i_cow], lambda e: e["kind"] == "CALL" and e["detail"].get("outcome") is None and _reads_and_parks(F, A, e["detail"].get("callee")))
            guarded = i_ctor is not None
        if not (direct or guarded) and _cow_through_lending_helper(F, A, b, p):
            guarded = True
        if not (direct or guarded):
            ok, why = False, balance.path_report(F, b, p, "expected: ptr::read of the handle, parking in ManuallyDrop, Arc::make_mut on the parked copy, then the (possibly redirected) handle written back - directly or by a write-back guard")
    if ok and prs:
        rep.ok("R-COW", key + "/order", cfg=tag)
    else:
        rep.bad("R-COW", key + "/order", why or "no normal path", F.loc(b), tag)
    # on unwinding out of the clone nothing has been changed
    # (paths on which the callee unwinds before it allocated: the panic came from Clone::clone itself)
    unw = [p for p in A.paths[key] if p.exit == "unw" and p.origin == "user" and vget(p.vec, "uclone") and not vget(p.vec, "alloc")]
    bad = [p for p in unw if vget(p.vec, "own") != 0 or vget(p.vec, "dec") or vget(p.vec, "free_s1") or vget(p.vec, "free_raw")]
    if bad:
        rep.bad("R-COW", key + "/gate", balance.path_report(F, b, bad[0], "a panic in Clone::clone must leave the OffsetArc exactly as it was (handle parked, nothing released)"), F.loc(b), tag)
    elif unw:
        rep.ok("R-COW", key + "/gate", cfg=tag)
    else:
        rep.bad("R-COW", key + "/gate", "no unwinding path out of the clone found (anchor lost)", F.loc(b), tag)


def run(ctx, rep):
    rule_cow(ctx, rep)
    # premise of every verdict on "sole owner": the count equals the number of owning handles on every path of every
    # operation, unwinding included (the balance rules of C01/C04)
    # (global: the histories quantified over contain operations of every handle kind, and a count that no longer equals the
    # number of owners - wherever it was broken - falsifies the sole-owner verdict these functions act on)
    balance.rule_bal(ctx, rep)
    balance.rule_unw(ctx, rep)
    balance.rule_racy_assert(ctx, rep, strict=True)  # no assertion about a re-read count that a racing clone or drop can falsify: the operation would panic where it must succeed or decline
    from . import c12 as _c12

    _c12.union_dispatch(ctx, rep)  # ... including owners held by an ArcUnion: they are counted on the block of the Arc they were made from
    from . import c03

    c03.rule_gate_def(ctx, rep)  # the schedule clause rests on the Acquire gate (and on C02's Release decrement)
    balance.rule_writeback(ctx, rep)  # the redirect reaches the caller's handle on every exit
    rep.floor("R-WRITEBACK", 0, "OffsetArc::make_mut today; a copy-on-write that never moves the handle out of its place has nothing to write back")


def main(argv):
    return core.run_property(
        PROP,
        "other",
        run,
        argv,
        explanation=(
            "Path-set shape of the three copy-on-write functions (Arc::make_mut, Arc::make_unique, OffsetArc::make_mut), from MIR paths with "
            "callee summaries: exactly two classes of normal path - sole owner: no Clone::clone, no allocation, no count event, mutable borrow "
            "taken after the uniqueness test; shared: test, then exactly one Clone::clone, one fresh block (count 1), release of exactly one "
            "owner of the old block, and only then the mutable borrow - and the clone is confined to the not-unique branch. OffsetArc: handle read "
            "out, parked, Arc's COW on the parked copy, written back on the normal path; untouched when Clone unwinds. That other handles keep "
            "seeing the old value follows: the write target is solely owned (C03 gate) or fresh. Not decided: visibility of writes as a run-time "
            "observation; schedules (reduced to C02/C03)."
            ' Round fourteen: c12.union_dispatch as a premise (the sole-owner verdict reads a count that owners held by an ArcUnion must have reached).'
            ' Round fifteen: strict R-RACY-ASSERT (no assertion about a re-read count that a racing clone or drop can falsify).'
            " Round sixteen: R-COW fresh-pointer (the returned borrow is built on the handle's pointer as read after every store into the handle)."
        ),
        rule_text="instances = (function, path-set | order | gate/write-back)",
        trusted_base=["rustc nightly MIR and trait resolution", "std model table", "C03's gate and C02's ordering lemma for the concurrent part"],
        assumptions=["Clone::clone of the payload is ownership-balanced"],
    )
