"""C06 - constructors deliver exactly the given contents and move each element once."""
from .. import atomics, balance, cfg, core, inline, symx
from ..effects import vget
from ..facts import MAYBE_UNINIT, operand_const, operand_place
from . import c03, c04

PROP = "C06"


USER_QUERIES = ("core::iter::traits::exact_size::ExactSizeIterator::len", "core::iter::traits::iterator::Iterator::size_hint", "core::convert::AsRef::as_ref", "core::convert::AsMut::as_mut", "core::borrow::Borrow::borrow", "core::borrow::BorrowMut::borrow_mut")


def nobb(e):
    """Expression with call-site block numbers erased (two calls of a pure getter on the same value compare equal)."""
    if not isinstance(e, tuple):
        return e
    if e and e[0] == "call":
        if e[1] in USER_QUERIES and len(e) > 5:
            # what a user iterator reports is not a pure getter: two calls are two (possibly different) answers
            return ("call", e[1], e[2], tuple(nobb(a) for a in e[3]), e[4], e[5])
        return ("call", e[1], e[2], tuple(nobb(a) for a in e[3]), e[4])
    if e and e[0] == "addr":
        return nobb(e[1])
    if e and e[0] == "cast":
        return nobb(e[2])
    if e and e[0] == "proj":
        r = nobb(e[1])
        names = tuple(n for n in e[2] if n != "*")
        return ("proj", r, names) if names else r
    return tuple(nobb(x) if isinstance(x, tuple) else x for x in e)


COPY_FREE = ("core::ptr::copy_nonoverlapping", "core::ptr::copy")
COPY_TO = ("<*const T>::copy_to_nonoverlapping", "<*const T>::copy_to", "<*mut T>::copy_to_nonoverlapping", "<*mut T>::copy_to")
COPY_FROM = ("<*mut T>::copy_from_nonoverlapping", "<*mut T>::copy_from")


def copy_args(t):
    """(src operand, dst operand, count operand) of a bulk-copy call in any of its spellings, else None."""
    c = atomics.callee_of(t)
    a = t["args"]
    if c in COPY_FREE and len(a) == 3:
        return a[0], a[1], a[2]
    if c in COPY_TO and len(a) == 3:
        return a[0], a[1], a[2]
    if c in COPY_FROM and len(a) == 3:
        return a[1], a[0], a[2]
    return None


def find_calls(e, name, out):
    if not isinstance(e, tuple):
        return
    if e and e[0] == "call" and e[2] == name:
        out.append(e)
    for x in e:
        if isinstance(x, tuple):
            find_calls(x, name, out)


def norm_block_len(e, data_name):
    """`len()` of the slice part of a block that an allocation helper sized with L *is* L (the helper fabricates the fat pointer with
    that length: C05 R-FATLEN): rewrite `len(alloc(L).data.slice)` to L, anywhere in the expression."""
    if not isinstance(e, tuple):
        return e
    e = tuple(norm_block_len(x, data_name) if isinstance(x, tuple) else x for x in e)
    if e and e[0] == "call" and e[2] == "len" and len(e[3]) == 1:
        x = e[3][0]
        for _ in range(8):
            if x[0] == "cast":
                x = x[2]
            elif x[0] == "addr":
                x = x[1]
            elif x[0] == "call" and x[2] in ("as_ptr", "as_mut_ptr", "as_ref", "as_mut", "new_unchecked", "cast", "as_non_null_ptr") and x[3]:
                x = x[3][0]
            else:
                break
        if x[0] == "proj" and x[1][0] == "call" and len(x[2]) >= 2 and tuple(n for n in x[2] if n != "*")[-2:] == (data_name, "slice") and x[1][3]:
            return x[1][3][0]
    return e


def alloc_regions(F, E, b, B):
    """(block pointer expression root call term, bb, payload type idx, MAKE bb) for bodies that turn a fresh block into a handle."""
    out = []
    for bi, t in B.calls():
        c = atomics.callee_of(t)
        if c in F.bodies and c03._is_alloc_helper(E, c):
            pt = None
            dl = t["dest"]["l"]
            ty = F.ty(b["locals"][dl]["ty"])
            if ty["k"] == "adt" and ty["path"] == "core::ptr::non_null::NonNull":
                inner = ty["args"][0]["t"]
                if F.is_adt(inner, F.inner_path):
                    pt = [a["t"] for a in F.ty(inner)["args"] if "t" in a][0]
            out.append((t, bi, pt))
    return out


def is_retype_fn(F, key):
    """A local function that takes a handle over a MaybeUninit payload and returns a handle over a payload without it
    (`assume_init*`): the point where the elements are declared initialised."""
    cb = F.body(key) if key else None
    if cb is None or not cb.get("inputs") or "output" not in cb:
        return False
    i0, o = cb["inputs"][0], cb["output"]
    return F.tokens(i0)[0] > 0 and F.mentions_adt(i0, MAYBE_UNINIT) and F.tokens(o)[0] > 0 and not F.mentions_adt(o, MAYBE_UNINIT)


def retype_blocks(F, b):
    """Blocks of an (inlined) body at which an uninitialised handle is re-typed as initialised."""
    out = set()
    for bi, bl in enumerate(b["blocks"]):
        t = bl["term"]
        k = t.get("inlined_call") or (atomics.callee_of(t) if t["k"] == "call" else None)
        if k and is_retype_fn(F, k):
            out.add(bi)
    return out


def payload_fields(F, pt):
    """[(field path tuple, field type idx, needs_init)] of the payload type that must be written before a handle exists."""
    t = F.ty(pt)
    if t["k"] == "adt" and t["local"] and t["path"] in F.adts and F.adts[t["path"]]["name"] == "HeaderSlice":
        adt = F.adts[t["path"]]
        names = [g["name"] for g in adt["generics"] if g["kind"] == "type"]
        targs = [a["t"] for a in t["args"] if "t" in a]
        env = dict(zip(names, targs))
        out = []
        for f in adt["variants"][0]["fields"]:
            ft = F.ty(f["ty"])
            actual = env.get(ft["name"]) if ft["k"] == "param" else f["ty"]
            out.append(((f["name"],), actual, _needs_init(F, actual)))
        return out
    return [((), pt, _needs_init(F, pt))]


def _needs_init(F, i):
    t = F.ty(i)
    if t["k"] == "tuple" and not t["ts"]:
        return False
    if t["k"] == "adt" and t["path"] == MAYBE_UNINIT:
        return False
    if t["k"] in ("slice", "array"):
        return _needs_init(F, t["t"])
    return True


def _has_local_caller(F, key):
    c = F.__dict__.get("_called_keys")
    if c is None:
        c = set()
        for b in F.body_list:
            if b["kind"] not in ("Fn", "AssocFn"):
                continue  # a helper called from a closure only is not inlined anywhere: it is judged on its own
            for bl in b["blocks"]:
                t = bl["term"]
                if t["k"] == "call":
                    k = atomics.callee_of(t)
                    if k in F.bodies and k != b["key"]:
                        c.add(k)
        F.__dict__["_called_keys"] = c
    return key in c


def rule_init(ctx, rep, only=None, scope=None):
    """R-INIT: between the allocation and the first owning handle every payload field that is not MaybeUninit is written,
    by ptr::write / copy (never by a dropping assignment), and the writes dominate the handle's construction."""
    for tag, F, E in ctx.each():
        A = balance.analysis(tag, F, E)
        for b0 in F.body_list:
            if b0["kind"] not in ("Fn", "AssocFn"):
                continue
            if only and b0.get("name") not in only:
                continue
            if scope is not None and b0["key"] not in scope(F):
                continue
            # private helpers are judged inside their callers (virtually inlined): `Allocation::new(len)`, `write_header(..)`, `finish()`
            if not balance.is_api(F, b0) and _has_local_caller(F, b0["key"]):
                continue
            b = inline.inlined_ctor(F, b0["key"])
            B = cfg.Body(b)
            regs = alloc_regions(F, E, b, B)
            if not regs:
                continue
            # the aggregate that turns the block into an owning handle
            make_bbs = inline.handle_make_blocks(F, b, ("Arc",))
            if not make_bbs:
                continue
            dom = B.dominators()
            # a constructor built on the uninitialised-handle API: the elements are owed at the point where the handle is
            # re-typed as initialised (`assume_init*`), the rest (the header) when the uninitialised handle comes to exist
            rt_bbs = retype_blocks(F, b)
            out_pt = None
            if rt_bbs and "output" in b0 and F.handle_name(b0["output"]) and not F.mentions_adt(b0["output"], MAYBE_UNINIT):
                oa = F.adt_arg_types(b0["output"])
                out_pt = oa[0] if oa else None
            for t, abi, pt in regs:
                if pt is None:
                    continue
                fields = payload_fields(F, pt)
                late = set()
                if out_pt is not None and F.mentions_adt(pt, MAYBE_UNINIT):
                    eff = payload_fields(F, out_pt)
                    if [f[0] for f in eff] == [f[0] for f in fields]:
                        late = {fp for (fp, _ty, need), (_fp2, _ty2, need2) in zip(eff, fields) if need and not need2}
                        fields = eff
                writes = {}  # field path -> list of (bb, how, call term)
                data_name = F.data_field[1]
                for bi, t2 in B.calls():
                    c = atomics.callee_of(t2)
                    if c in ("core::ptr::write", "<*mut T>::write"):
                        d = nobb(symx.expr(F, B, t2["args"][0]))
                        fp = _field_path_of(d, t, data_name)
                        if fp is not None:
                            writes.setdefault(fp, []).append((bi, "write", t2))
                        else:
                            from .. import fillloop as _fl

                            d = _fl.slot_iter_parts(F, B, t2)[0]  # `ptr::write(slot.as_mut_ptr(), v)` for `slot` in the slice
                            fp = _field_path_of(nobb(d), t, data_name) if d is not None else None
                            if fp is not None and _in_cycle(B, bi):
                                writes.setdefault(fp, []).append((bi, "slot-write", t2, d))
                    elif copy_args(t2) is not None:
                        d = nobb(symx.expr(F, B, copy_args(t2)[1]))
                        fp = _field_path_of(d, t, data_name)
                        if fp is not None:
                            writes.setdefault(fp, []).append((bi, "copy", t2))
                    elif c == "<core::mem::maybe_uninit::MaybeUninit<T>>::write":
                        # `for slot in (*p).data.slice.iter_mut() { slot.write(v) }`: the destination is the slice walked
                        from .. import fillloop as _fl

                        d = _fl.slot_iter_parts(F, B, t2)[0]
                        fp = _field_path_of(nobb(d), t, data_name) if d is not None else None
                        if fp is not None and _in_cycle(B, bi):
                            writes.setdefault(fp, []).append((bi, "slot-write", t2, d))
                    elif c in F.bodies and t2["args"]:
                        # a private helper that performs the write (`unsafe fn write_header(inner, header)`): its destination,
                        # expressed in the caller's terms, on every returning path of the helper
                        cb = F.body(c)
                        CB = cfg.Body(cb)
                        cdom = CB.dominators()
                        rets = [i for i, x in enumerate(cb["blocks"]) if x["term"]["k"] == "return"]
                        cargs = [nobb(symx.expr(F, B, a)) for a in t2["args"]]
                        for bj, t3 in CB.calls():
                            c3 = atomics.callee_of(t3)
                            if c3 in ("core::ptr::write", "<*mut T>::write"):
                                dst, how = t3["args"][0], "write"
                            elif copy_args(t3) is not None:
                                dst, how = copy_args(t3)[1], "copy"
                            else:
                                continue
                            d = nobb(symx.subst_args(nobb(symx.expr(F, CB, dst)), cargs))
                            fp = _field_path_of(d, t, data_name)
                            if fp is not None and rets and all(bj in cdom.get(r, set()) for r in rets):
                                writes.setdefault(fp, []).append((bi, "helper-" + how, t2, d))
                # dropping assignments into the fresh block
                for bi, bl in enumerate(b["blocks"]):
                    for s in bl["stmts"]:
                        if s["k"] == "assign" and s["lhs"]["p"] and any(isinstance(pe, dict) and pe.get("adt") == F.inner_path and pe.get("f") == F.data_field[0] for pe in s["lhs"]["p"]):
                            o = B.origin_local(s["lhs"]["l"])
                            if o.get("kind") == "call" and o["term"] is t or True:
                                rep.bad("R-INIT", "%s/assignment-into-block" % b["key"], "a payload field of a block is written by plain assignment (line %s): on uninitialised memory this first drops garbage" % s["span"]["line"], F.loc(b, s["span"]), tag)
                for fp, fty, need in fields:
                    ik = "%s/field:%s" % (b["key"], ".".join(fp) or "data")
                    if not need:
                        rep.ok("R-INIT", ik, "no initialisation needed (%s)" % F.ts(fty), cfg=tag, nontrivial=False)
                        continue
                    ws = writes.get(fp, [])
                    if not ws:
                        rep.bad("R-INIT", ik, "the `%s` field of the freshly allocated payload (%s) is never written before the owning handle is built: it would be read or dropped uninitialised" % (".".join(fp) or "data", F.ts(fty)), F.loc(b, t["span"]), tag)
                        continue
                    good = True
                    why = None
                    for w in ws:
                        wbi, how, t2 = w[0], w[1], w[2]
                        e0 = w[3] if len(w) > 3 else symx.expr(F, B, t2["args"][0] if how == "write" else copy_args(t2)[1])
                        in_loop = _mentions(e0, "induction") or _in_cycle(B, wbi)
                        for mb in (rt_bbs if fp in late else make_bbs):
                            if in_loop:
                                # the loop (header = where the induction step lives) must dominate the construction
                                continue
                            if wbi not in dom.get(mb, set()):
                                good, why = False, "the write of `%s` (line %s) does not dominate the construction of the handle" % (".".join(fp) or "data", t2["span"]["line"])
                    if good:
                        rep.ok("R-INIT", ik, cfg=tag)
                    else:
                        rep.bad("R-INIT", ik, why, F.loc(b), tag)
    if not only and scope is None:
        rep.floor("R-INIT", 8, "payload fields of the six allocation-to-handle regions")


def _in_cycle(B, bi):
    return any(bi in B.reach(s, normal_only=True) for s in B._succ_normal[bi])


def _mentions(e, kind):
    if not isinstance(e, tuple):
        return False
    if e and e[0] == kind:
        return True
    return any(_mentions(x, kind) for x in e if isinstance(x, tuple))


def _field_path_of(d, alloc_term, data_name):
    """If expression d denotes `(*P).data.<path>` (possibly as_mut_ptr / induction of it) for the block P allocated by alloc_term, return path."""
    while True:
        if d[0] == "induction":
            d = nobb(d[1])
            continue
        if d[0] == "call" and d[2] in ("as_mut_ptr", "as_ptr") and d[3]:
            d = d[3][0]
            continue
        if d[0] == "call" and d[2] in ("add", "offset", "wrapping_add") and len(d[3]) == 2:
            d = d[3][0]
            continue
        break
    if d[0] != "proj":
        return None
    root, names = d[1], tuple(d[2])
    while root[0] == "proj":  # `(&mut (*p).data).slice`: a projection of a projection (a reference taken in between)
        names = tuple(n for n in root[2] if n != "*") + tuple(n for n in names if n != "*")
        root = root[1]
    if root[0] != "call":
        return None
    if not names or names[0] != data_name:
        return None
    return tuple(names[1:])


def rule_lenflow(ctx, rep):
    """One length value feeds the allocation, the bulk copy / loop bound and (ThinArc) the recorded length; the copy reads from the input container."""
    for tag, F, E in ctx.each():
        for name in ("from_header_and_slice", "from_header_and_vec", "from_header_and_iter"):
            for b in F.method("Arc", name):
                b = inline.inlined_ctor(F, b["key"])
                B = cfg.Body(b)
                regs = alloc_regions(F, E, b, B)
                ik = b["key"]
                if len(regs) != 1:
                    rep.bad("R-LENFLOW", ik, "expected exactly one allocation in the constructor, found %d" % len(regs), F.loc(b), tag)
                    continue
                t, abi, pt = regs[0]
                L = nobb(symx.expr(F, B, t["args"][0]))
                ok = True
                why = None
                # length derives from the input container (argument 2) by `len`
                vL, vS = [], []
                if not (L[0] == "call" and L[2] == "len" and _rooted_at_arg(L[3][0], 2, vL)):
                    ok, why = False, "the allocation length %s is not `len()` of the input" % symx.show(L)
                if name in ("from_header_and_slice", "from_header_and_vec"):
                    copies = [t2 for bi, t2 in B.calls() if copy_args(t2) is not None]
                    if len(copies) != 1:
                        ok, why = False, "expected exactly one bulk copy, found %d" % len(copies)
                    else:
                        c = copies[0]
                        n = norm_block_len(nobb(symx.expr(F, B, copy_args(c)[2])), F.data_field[1])
                        src = nobb(symx.expr(F, B, copy_args(c)[0]))
                        if n != L:
                            ok, why = False, "the bulk copy moves %s elements but the block was sized for %s" % (symx.show(n), symx.show(L))
                        if not (src[0] == "call" and src[2] in ("as_ptr", "as_mut_ptr", "into_boxed_slice") and _rooted_at_arg(src[3][0], 2, vS)):  # (`Box::into_raw(v.into_boxed_slice())`: the buffer itself)
                            ok, why = False, "the bulk copy does not read from the start of the input container (%s)" % symx.show(src)
                        elif ok and (vL or vS) and not (len(vL) == 1 and vL == vS):
                            ok, why = False, "the length that sizes the block and the pointer the bulk copy reads from come from two separate calls of a caller-implemented view (`as_ref()`): an implementation whose view differs between the calls makes the copy read past a shorter buffer"
                # (the bound of the iterator constructor's fill loop is judged by R-ITERLOOP's loop model)
                if ok:
                    rep.ok("R-LENFLOW", ik, symx.show(L), cfg=tag)
                else:
                    rep.bad("R-LENFLOW", ik, why, F.loc(b), tag)
        # ThinArc constructors record the same length they pass on
        for name in ("from_header_and_iter", "from_header_and_slice"):
            for b in F.method("ThinArc", name):
                B = cfg.Body(b)
                e = nobb(symx.normalize_calls(F, symx.local_expr(F, B, 0, 0), lambda k: not balance.is_api(F, F.body(k))))
                news = []
                find_calls(e, "new", news)
                ctor = []
                find_calls(e, name, ctor)
                ok = False
                why = "unexpected shape: %s" % symx.show(e)
                if len(ctor) == 1 and len(news) == 1:
                    rec = news[0][3][1]
                    items = ctor[0][3][1]
                    vr, vi = [], []
                    if rec[0] == "call" and rec[2] == "len" and nobb(rec[3][0]) == nobb(items) or (rec[0] == "call" and rec[2] == "len" and _rooted_at_arg(rec[3][0], 2, vr) and _rooted_at_arg(items, 2, vi)):
                        # (a recorded length taken from one call of a caller-implemented view while the fat constructor takes its
                        # own: if the two disagree, the checked `into_thin` conversion - required below - refuses)
                        ok = True
                    else:
                        why = "the recorded length %s is not `len()` of the items handed to the fat constructor (%s)" % (symx.show(rec), symx.show(items))
                    thin = []
                    find_calls(e, "into_thin", thin)
                    if not thin:
                        ok, why = False, "the result does not go through the checked into_thin conversion"
                if ok:
                    rep.ok("R-LENFLOW", b["key"], cfg=tag)
                else:
                    rep.bad("R-LENFLOW", b["key"], why, F.loc(b), tag)
    rep.floor("R-LENFLOW", 5, "three fat constructors, two thin ones")


USER_VIEWS = ("as_ref", "as_mut", "borrow", "borrow_mut")


def _rooted_at_arg(e, i, views=None):
    """... `views` collects the call sites of views a *caller-implemented* trait hands out (`items.as_ref()` for `S: AsRef<[T]>`):
    unlike `Vec::as_slice` these may answer differently each time, so length and pointer must come from one and the same call."""
    e = nobb(e)
    while True:
        if e[0] == "arg":
            return e[1] == i
        if views is not None and e[0] == "call" and e[3] and e[2] in USER_VIEWS and e[1] in USER_QUERIES and len(e) > 5:
            views.append(e[5])
            e = nobb(e[3][0])
            continue
        if e[0] == "proj":
            e = e[1]
            continue
        if e[0] == "call" and e[3] and e[2] in ("deref", "deref_mut", "as_slice", "as_mut_slice", "as_bytes", "index"):
            e = nobb(e[3][0])
            continue
        if e[0] == "call" and e[3] and e[2] == "new" and e[1].startswith("<core::mem::manually_drop::ManuallyDrop"):
            e = nobb(e[3][0])  # the container parked in `ManuallyDrop` is the container
            continue
        if e[0] == "addr":
            e = nobb(e[1])
            continue
        return False


def rule_moveonce(ctx, rep):
    for tag, F, E in ctx.each():
        # Vec: set_len(0) after the copy, before the Vec is dropped
        for b in F.method("Arc", "from_header_and_vec"):
            b = inline.inlined(F, b["key"])
            B = cfg.Body(b)
            dom = B.dominators()
            copies = [(bi, t) for bi, t in B.calls() if copy_args(t) is not None]
            sets = [(bi, t) for bi, t in B.calls() if atomics.callee_of(t) == "<alloc::vec::Vec<T, A>>::set_len"]
            rets = [i for i, bl in enumerate(b["blocks"]) if bl["term"]["k"] == "return"]
            ok = True
            why = None
            boxed = [(bi, t) for bi, t in B.calls() if atomics.callee_of(t) == "<alloc::vec::Vec<T, A>>::into_boxed_slice" and t["args"] and _rooted_at_arg(symx.expr(F, B, t["args"][0]), 2)]
            if len(copies) == 1 and not sets and len(boxed) == 1:
                # the other way to disarm the source: `Box::into_raw(v.into_boxed_slice())`, copy out of *that* buffer, then free
                # the buffer as `Box<ManuallyDrop<[T]>>` (storage released, elements not dropped)
                (cbi, ct), (xbi, xt) = copies[0], boxed[0]
                src = nobb(symx.expr(F, B, copy_args(ct)[0]))

                def from_boxed(e):
                    out = []
                    find_calls(e, "into_boxed_slice", out)
                    return bool(out)

                frees = []
                for bi, t3 in B.calls():
                    c3 = atomics.callee_of(t3) or ""
                    if c3.startswith("<alloc::boxed::Box<T") and c3.endswith("::from_raw") and t3["args"]:
                        r3 = t3.get("resolved")
                        targs = [F.ts(a["t"]) for a in (r3["args"] if isinstance(r3, dict) else []) if "t" in a]
                        if targs and ("ManuallyDrop" in targs[0] or "MaybeUninit" in targs[0]) and from_boxed(nobb(symx.expr(F, B, t3["args"][0]))):
                            frees.append(bi)
                if not from_boxed(src):
                    ok, why = False, "the bulk copy reads through a pointer taken from the Vec (%s) *before* `into_boxed_slice` gave the buffer away - that call may shrink and move the buffer, so the elements would be copied out of freed memory; the source must be the boxed slice's own pointer" % symx.show(src)[:80]
                elif xbi not in dom.get(cbi, set()):
                    ok, why = False, "the bulk copy does not come after `into_boxed_slice`"
                elif not frees or not any(cbi in dom.get(fb, set()) and all(fb in dom.get(r, set()) for r in rets) for fb in frees):
                    ok, why = False, "the boxed buffer is not released as `Box<ManuallyDrop<[T]>>` after the copy on every normal exit: its storage would leak, or the moved elements would be dropped a second time"
            elif len(copies) == 1 and not sets and _empty_vec_release(F, B, b, 2, copies[0][0], rets, dom)[0] is not None:
                # a third way: the Vec is parked in `ManuallyDrop` (never dropped), and its buffer goes back to the allocator as an
                # empty Vec of the same capacity: `drop(Vec::from_raw_parts(v.as_mut_ptr(), 0, v.capacity()))`
                ok, why = _empty_vec_release(F, B, b, 2, copies[0][0], rets, dom)
            elif len(copies) != 1 or len(sets) != 1:
                ok, why = False, "expected one bulk copy and one `set_len`, found %d and %d: the source Vec would drop the moved elements a second time (or keep them)" % (len(copies), len(sets))
            else:
                (cbi, ct), (sbi, st) = copies[0], sets[0]
                z = B.const_value(st["args"][1])
                recv = symx.expr(F, B, st["args"][0])
                if z != 0:
                    ok, why = False, "`set_len` is called with %s, not 0" % z
                elif not _rooted_at_arg(recv, 2):
                    ok, why = False, "`set_len(0)` is applied to something other than the source Vec"
                elif cbi not in dom.get(sbi, set()) or any(sbi not in dom.get(r, set()) for r in rets):
                    ok, why = False, "`set_len(0)` does not sit between the bulk copy and every normal exit"
                else:
                    # the Vec itself is still dropped afterwards (its storage is released)
                    drops = [i for i, bl in enumerate(b["blocks"]) if bl["term"]["k"] == "drop" and bl["term"]["place"]["l"] == 2 and not b["blocks"][i]["cleanup"]]
                    # or handed to `drop(v)` explicitly
                    drops += [i for i, t3 in B.calls() if atomics.callee_of(t3) == "core::mem::drop" and t3["args"] and _rooted_at_arg(symx.expr(F, B, t3["args"][0]), 2) and not b["blocks"][i].get("cleanup")]
                    if not drops or not any(sbi in dom.get(d, set()) for d in drops):
                        ok, why = False, "the source Vec is not dropped after `set_len(0)`: its storage would leak"
            if ok:
                rep.ok("R-MOVEONCE", b["key"], cfg=tag)
            else:
                rep.bad("R-MOVEONCE", b["key"], why, F.loc(b), tag)
        # Box: re-typed to Box<ManuallyDrop<T>> and dropped
        for b in F.body_list:
            imp = b.get("impl") or {}
            if b.get("name") != "from" or imp.get("trait") != "core::convert::From" or F.handle_name(imp["self_ty"]) not in ("Arc", "UniqueArc"):
                continue
            if not any(F.ty(t)["k"] == "adt" and F.ty(t)["path"] == "alloc::boxed::Box" for t in b["inputs"]):
                continue
            b = inline.inlined(F, b["key"]) or b  # `dealloc_box_without_drop(src)`: a private helper shared with the Vec constructor
            B = cfg.Body(b)
            if F.handle_name(imp["self_ty"]) != "Arc":
                # another handle's `From<Box<T>>`: judged like Arc's if it takes the box apart itself (or through a private helper
                # whose precondition it must then establish); nothing to judge if it merely wraps `Arc::from(b)`
                from .. import model as _m

                if not any(_m.classify(atomics.callee_of(t) or "")[0] == _m.DEALLOC or (atomics.callee_of(t) or "").endswith("::from_raw") or (atomics.callee_of(t) or "") in VEC_FROM_RAW for _bi, t in B.calls()):
                    continue
            ok = False
            why = "the source Box is not released as `Box<ManuallyDrop<T>>`"
            for bi, t in B.calls():
                if atomics.callee_of(t) in ("<alloc::boxed::Box<T, alloc::alloc::Global>>::from_raw", "<alloc::boxed::Box<T, A>>::from_raw"):
                    ga = [a["t"] for a in t["resolved"]["args"] if "t" in a]
                    if ga and F.ty(ga[0])["k"] == "adt" and F.ty(ga[0])["path"] in ("core::mem::manually_drop::ManuallyDrop", "core::mem::maybe_uninit::MaybeUninit"):  # (either wrapper has T's layout and no drop glue)
                        src = nobb(symx.expr(F, B, t["args"][0]))
                        raws = []
                        find_calls(src, "into_raw", raws)
                        if (raws and _rooted_at_arg(raws[0][3][0], 1)) or _rooted_at_arg(src, 1):
                            # and it is dropped
                            dl = t["dest"]["l"]
                            used = [u for u in _uses(b, dl)]
                            if any(u == "drop" for u in used):
                                ok = True
                            else:
                                why = "the re-typed Box is never dropped: the source storage leaks"
                    else:
                        why = "the source Box is re-created at type %s: dropping it would destroy the moved value a second time" % (F.ts(ga[0]) if ga else "?")
            if not ok:
                # or as an empty Vec of capacity one: `drop(Vec::from_raw_parts(src, 0, 1))` (a zero-sized T: no storage either way)
                rets_ = [i for i, bl in enumerate(b["blocks"]) if bl["term"]["k"] == "return"]
                r_ok, r_why = _empty_vec_release(F, B, b, 1, None, rets_, B.dominators())
                if r_ok is not None:
                    ok, why = r_ok, (r_why or why)
            if not ok:
                # or its storage is handed back directly: `dealloc(src as *mut u8, layout_of_T)` - only sound behind a test that
                # the layout is not zero-sized (a `Box` of a zero-sized type owns no storage, its pointer is dangling)
                from .. import model

                for bi, t in B.calls():
                    if model.classify(atomics.callee_of(t) or "")[0] != model.DEALLOC or not t["args"]:
                        continue
                    src = nobb(symx.expr(F, B, t["args"][0]))
                    raws = []
                    find_calls(src, "into_raw", raws)
                    if not ((raws and _rooted_at_arg(raws[0][3][0], 1)) or _rooted_at_arg(src, 1)):
                        continue
                    guarded = False
                    for sj, bl in enumerate(b["blocks"]):
                        tt = bl["term"]
                        if tt["k"] != "switch":
                            continue
                        c = B.condition(tt["discr"])
                        if not c or c.get("op") not in ("Ne", "Eq", "Gt", "Lt"):
                            continue
                        x, y = nobb(symx.expr(F, B, c["a"])), nobb(symx.expr(F, B, c["b"]))
                        sz, k = (x, y) if y[0] == "const" else (y, x)
                        if k != ("const", 0) or not (sz[0] == "call" and sz[2] in ("size", "size_of", "size_of_val")):
                            continue
                        for tgt, tv in B.switch_truth(tt).items():
                            truth = tv != c["neg"]
                            nonzero = truth if c["op"] in ("Ne", "Gt", "Lt") else not truth
                            if nonzero and not c03.reachable_without(B, {(sj, tgt)}, set(), bi):
                                guarded = True
                    if guarded:
                        ok = True
                    else:
                        why = "the source Box's storage is released with a raw `dealloc` that is not guarded by `size != 0`: a Box of a zero-sized type owns no storage (its pointer is dangling), so this frees memory that was never allocated"
            # no Drop terminator on the Box<T> parameter on normal paths
            for i, bl in enumerate(b["blocks"]):
                tt = bl["term"]
                if tt["k"] == "drop" and not bl["cleanup"] and F.ts(tt["ty"]).startswith("alloc::boxed::Box<") and "ManuallyDrop" not in F.ts(tt["ty"]):
                    ok, why = False, "the source Box<T> is dropped with its contents after they were copied out"
            if ok:
                rep.ok("R-MOVEONCE", b["key"], cfg=tag)
            else:
                rep.bad("R-MOVEONCE", b["key"], why, F.loc(b), tag)
        # borrowed slice: T: Copy
        for b in F.method("Arc", "from_header_and_slice") + F.method("ThinArc", "from_header_and_slice"):
            has = any(p.get("kind") == "trait" and p["trait"] == "core::marker::Copy" and F.ty(p["self"])["k"] == "param" for p in b["preds"])
            if has:
                rep.ok("R-MOVEONCE", b["key"] + "/T: Copy", cfg=tag)
            else:
                rep.bad("R-MOVEONCE", b["key"] + "/T: Copy", "elements are bit-copied out of a borrowed slice without a `T: Copy` bound: each would be owned twice", F.loc(b), tag)
    rep.floor("R-MOVEONCE", 4, "Vec, Box, two borrowed-slice constructors")


VEC_FROM_RAW = ("<alloc::vec::Vec<T>>::from_raw_parts", "<alloc::vec::Vec<T, A>>::from_raw_parts_in", "<alloc::vec::Vec<T, alloc::alloc::Global>>::from_raw_parts")


def _empty_vec_release(F, B, b, argi, copy_bb, rets, dom):
    """`drop(Vec::from_raw_parts(buf, 0, cap))` releasing the buffer of the container passed as argument `argi` without touching
    its (moved-out) contents. (None, None): no such call. Otherwise (ok, why): buf is the container's own buffer, the length is
    0, cap is the container's capacity (a Box: 1), the empty Vec is dropped after the copy on every normal exit, and the container
    itself is never dropped (it was parked in ManuallyDrop / taken apart by into_raw)."""
    calls = [(bi, t) for bi, t in B.calls() if atomics.callee_of(t) in VEC_FROM_RAW and len(t["args"]) >= 3]
    if not calls:
        return None, None
    if len(calls) != 1:
        return False, "more than one `Vec::from_raw_parts` in the constructor"
    bi, t = calls[0]
    buf = nobb(symx.expr(F, B, t["args"][0]))
    ln = B.const_value(t["args"][1])
    cap = nobb(symx.expr(F, B, t["args"][2]))
    is_box = any(F.ty(x)["k"] == "adt" and F.ty(x)["path"] == "alloc::boxed::Box" for x in b["inputs"][argi - 1 : argi])
    raws = []
    find_calls(buf, "into_raw", raws)
    x = buf
    while x[0] == "cast":
        x = x[2]
    own_buf = (x[0] == "call" and x[2] in ("as_ptr", "as_mut_ptr") and x[3] and _rooted_at_arg(x[3][0], argi)) or (raws and _rooted_at_arg(raws[0][3][0], argi)) or (is_box and _rooted_at_arg(x, argi))  # (`Box::into_raw(b)` is the box's pointer)
    if not own_buf:
        return False, "the buffer handed to `Vec::from_raw_parts` (%s) is not the source container's own" % symx.show(buf)
    if ln != 0:
        return False, "the releasing Vec is rebuilt with length %s, not 0: dropping it destroys the moved elements a second time" % ln
    if is_box:
        if cap != ("const", 1):
            return False, "a Box is a buffer of exactly one value, but it is released as a Vec of capacity %s" % symx.show(cap)
    elif not (cap[0] == "call" and cap[2] == "capacity" and cap[3] and _rooted_at_arg(cap[3][0], argi)):
        return False, "the source Vec's buffer is released with capacity %s, not the Vec's own `capacity()`: it goes back to the allocator with a layout it was not allocated with (or, empty, not at all)" % symx.show(cap)
    if copy_bb is not None and copy_bb not in dom.get(bi, set()):
        return False, "the buffer is released before the bulk copy"
    if any(bi not in dom.get(r, set()) for r in rets):
        return False, "the buffer is not released on every normal exit: the source container's storage leaks"
    dl = t["dest"]["l"]
    if not any(u == "drop" for u in _uses(b, dl)):
        return False, "the empty Vec rebuilt around the buffer is never dropped: the source container's storage leaks"
    for i, bl in enumerate(b["blocks"]):
        tt = bl["term"]
        if tt["k"] == "drop" and not bl["cleanup"] and tt["place"]["l"] == argi and not tt["place"]["p"]:
            return False, "the source container is also dropped by its own destructor: the moved elements are destroyed a second time"
    return True, None


def _uses(b, l):
    out = []
    for bl in b["blocks"]:
        t = bl["term"]
        if t["k"] == "drop" and t["place"]["l"] == l:
            out.append("drop")
        if t["k"] == "call":
            for a in t["args"]:
                pl = operand_place(a)
                if pl is not None and pl["l"] == l:
                    c = atomics.callee_of(t)
                    out.append("drop" if c == "core::mem::drop" else "call:" + str(c))
        for s in bl["stmts"]:
            if s["k"] == "assign" and s["rv"]["k"] == "use":
                pl = operand_place(s["rv"]["op"])
                if pl is not None and pl["l"] == l and not s["lhs"]["p"]:
                    out += _uses(b, s["lhs"]["l"])
    return out


def rule_iterloop(ctx, rep):
    """The fill loop of the iterator constructor, judged against a small model of accepted loop families (analysis/fillloop.py)."""
    from .. import fillloop

    for tag, F, E in ctx.each():
        A = balance.analysis(tag, F, E)
        for b in F.method("Arc", "from_header_and_iter"):
            b = inline.inlined_ctor(F, b["key"])
            B = cfg.Body(b)
            regs = alloc_regions(F, E, b, B)
            if len(regs) != 1:
                rep.bad("R-ITERLOOP", b["key"], "expected exactly one allocation in the constructor", F.loc(b), tag)
                continue
            L = symx.expr(F, B, regs[0][0]["args"][0])
            make_bbs = inline.handle_make_blocks(F, b, ("Arc",))
            viol, unsup, info = fillloop.analyse(F, E, b, L, make_bbs)
            for suffix, msg, span in viol:
                rep.bad("R-ITERLOOP", "%s/%s" % (b["key"], suffix), msg, F.loc(b, span), tag)
            for msg in unsup:
                rep.bad("UNSUPPORTED-SHAPE", "%s/fill-loop" % b["key"], "cannot decide the fill loop (fail closed): " + msg, F.loc(b), tag)
            if not viol and not unsup:
                rep.ok("R-ITERLOOP", b["key"], "sources %s" % info.get("sources"), cfg=tag)
    rep.floor("R-ITERLOOP", 1, "the iterator constructor's loop")


def _strip_reborrow(e):
    """`*(&x)` is x."""
    while e[0] == "proj" and e[2] == ("*",) and e[1][0] == "addr":
        e = e[1][1]
    return e


def _exact_wrapper_types(F):
    """Local types that implement ExactSizeIterator (the adapter that turns a size hint into a promise)."""
    out = set()
    for im in F.impls:
        if (im.get("trait") or "").endswith("exact_size::ExactSizeIterator"):
            t = F.ty(im["self_ty"])
            if t["k"] == "adt" and t.get("local"):
                out.add(t["path"])
    return out


def _behind_flag(F, B, b, cut, goal):
    """`let exact = matches!(..); if exact { goal }`: the goal sits behind the true edge of a switch on a bool local that is only
    assigned constants, and every block assigning `true` to it is itself behind the cut edges (value-sensitive where plain CFG
    reachability sees the infeasible path false -> join -> true branch)."""
    for bi, bl in enumerate(b["blocks"]):
        tt = bl["term"]
        if tt["k"] != "switch":
            continue
        pl = operand_place(tt["discr"])
        if pl is None or pl["p"]:
            continue
        fl = pl["l"]
        for _ in range(4):  # through plain copies of the flag
            d1 = B.single_def(fl)
            if d1 and d1[0] == "assign" and d1[3]["k"] == "use" and operand_place(d1[3]["op"]) is not None and not operand_place(d1[3]["op"])["p"]:
                fl = operand_place(d1[3]["op"])["l"]
            else:
                break
        ds = B.defs().get(fl, [])
        if len(ds) < 2 or not all(d[0] == "assign" and d[3]["k"] == "use" and operand_const(d[3]["op"]) is not None for d in ds):
            continue
        true_tgts = [tg for tg, tv in B.switch_truth(tt).items() if tv]
        if not true_tgts:
            continue
        if c03.reachable_without(B, set((bi, tg) for tg in true_tgts), set(), goal):
            continue  # the goal does not depend on this flag
        true_defs = [d[1] for d in ds if operand_const(d[3]["op"]).get("int") == 1]
        if true_defs and all(not c03.reachable_without(B, cut, set(), db) for db in true_defs):
            return True
    return False


def rule_exact(ctx, rep):
    """FromIterator: the exact-size fast path is taken only when the size hint's upper bound is `Some` and equals the lower bound of
    one and the same size_hint() call (`Some(lower) == upper`, or `(lower, Some(upper)) if lower == upper`); the wrapper's len() is
    that lower bound."""
    for tag, F, E in ctx.each():
        wrappers = _exact_wrapper_types(F)
        g = cfg.call_graph(F)
        makes_wrapper = set(k for k, bb in F.bodies.items() if "output" in bb and F.ty(bb["output"])["k"] == "adt" and F.ty(bb["output"])["path"] in wrappers)
        for b in F.method("UniqueArc", "from_iter", "FromIterator"):
            B = cfg.Body(b)
            cut = set()
            seen_cmp = False
            why = None
            for bi, bl in enumerate(b["blocks"]):
                tt = bl["term"]
                if tt["k"] != "switch":
                    continue
                c = B.condition(tt["discr"])
                if not c:
                    continue
                if "call" in c and c["call"].get("callee_trait") == "core::cmp::PartialEq":
                    a0 = nobb(symx.expr(F, B, c["call"]["args"][0]))
                    a1 = nobb(symx.expr(F, B, c["call"]["args"][1]))
                    if a1[0] == "agg" and a0[0] == "tfield":
                        a0, a1 = a1, a0  # `upper == Some(lower)`
                    neg = c["neg"] != (c["call"].get("callee_name") == "ne")
                    seen_cmp = True
                    some_lower = a0[0] == "agg" and a0[3] == "Some" and a0[4] and a0[4][0][0] == "tfield" and a0[4][0][2] == 0
                    upper = a1[0] == "tfield" and a1[2] == 1
                    if some_lower and upper and nobb(a0[4][0][1]) == nobb(a1[1]) and a1[1][0] == "call" and a1[1][2] == "size_hint":
                        cut |= set((bi, tgt) for tgt, tv in B.switch_truth(tt).items() if tv != neg)
                    else:
                        why = "the fast path is not guarded by `Some(lower) == upper` of one and the same size_hint() result (%s vs %s)" % (symx.show(a0), symx.show(a1))
                elif c.get("op") in ("Eq", "Ne"):
                    x = _strip_reborrow(nobb(symx.expr(F, B, c["a"])))
                    y = _strip_reborrow(nobb(symx.expr(F, B, c["b"])))
                    if y[0] == "tfield":
                        x, y = y, x
                    # lower = hint.0 ; upper = (hint.1 as Some).0
                    if y[0] == "proj" and y[1][0] == "tfield" and y[1][2] == 1 and tuple(y[2]) == ("?", "0"):
                        y = ("proj", y[1][1], ("1", "?", "0"))  # `let (lower, upper) = hint; .. (upper as Some).0`
                    if x[0] == "tfield" and x[2] == 0 and y[0] == "proj" and tuple(y[2]) == ("1", "?", "0") and nobb(x[1]) == nobb(y[1]) and x[1][0] == "call" and x[1][2] == "size_hint":
                        seen_cmp = True
                        neg = c["neg"] != (c["op"] == "Ne")
                        cut |= set((bi, tgt) for tgt, tv in B.switch_truth(tt).items() if tv != neg)
            exact_bbs = []
            for x, t in B.calls():
                k = atomics.callee_of(t)
                if k in F.bodies and (k in makes_wrapper or cfg.reachable_from(g, [k]) & makes_wrapper):
                    exact_bbs.append(x)
            ok = True
            if not seen_cmp and why is None:
                ok, why = False, "no comparison of the size-hint bounds found"
            elif why is not None and not cut:
                ok = False
            elif not exact_bbs:
                ok, why = False, "no exact-size constructor call found"
            else:
                for x in exact_bbs:
                    if c03.reachable_without(B, cut, set(), x) and not _behind_flag(F, B, b, cut, x):
                        ok, why = False, "the exact-size constructor is reachable without the bounds having been found equal: an iterator with lower < upper (or no upper bound) would be trusted to yield exactly `lower` items"
            if ok:
                rep.ok("R-EXACT", b["key"], cfg=tag)
            else:
                rep.bad("R-EXACT", b["key"], why, F.loc(b), tag)
        for b in F.body_list:
            imp = b.get("impl") or {}
            if b.get("name") == "len" and (imp.get("trait") or "").endswith("ExactSizeIterator") and F.ty(imp["self_ty"]).get("local"):
                B = cfg.Body(b)
                e = nobb(symx.local_expr(F, B, 0, 0))
                for _ in range(3):  # through private helpers (`fn lower_bound_checked(&self) -> usize`)
                    r = symx.inline_call(F, e) if e[0] == "call" else None
                    if r is None:
                        break
                    e = nobb(r)
                if e[0] == "tfield" and e[2] == 0 and e[1][0] == "call" and e[1][2] == "size_hint":
                    rep.ok("R-EXACT", b["key"], cfg=tag)
                else:
                    rep.bad("R-EXACT", b["key"], "the exact-size wrapper's len() is %s, not the lower bound of the wrapped iterator's size_hint()" % symx.show(e), F.loc(b), tag)
    rep.floor("R-EXACT", 2, "fast-path guard and the wrapper's len")


def rule_delegates(ctx, rep):
    """Delegating constructors: one constructor call on the forwarded input, result forwarded by count-neutral conversions."""
    spec = [("Arc", "from", "From"), ("Arc", "default", "Default"), ("Arc", "from_iter", "FromIterator"), ("Arc", "from_header_and_str", None), ("ThinArc", "from_header_and_iter", None), ("ThinArc", "from_header_and_slice", None)]
    for tag, F, E in ctx.each():
        A = balance.analysis(tag, F, E)
        for h, name, tr in spec:
            for b in F.method(h, name, tr):
                if tr == "From" and any(F.tokens(t)[0] for t in b["inputs"]):
                    continue  # handle-to-handle conversions are C01's R-MOVE
                B = cfg.Body(b)
                if alloc_regions(F, E, b, B):
                    continue  # builds the block itself: covered by R-INIT / R-LENFLOW
                vecs = [p.vec for p in A.paths[b["key"]] if p.exit == "ret"]
                msg = c04.check_class("NEW", vecs)
                ds = B.defs().get(0, [])
                e = nobb(symx.normalize_calls(F, symx.local_expr(F, B, 0, 0), lambda k: not balance.is_api(F, F.body(k)))) if len(ds) == 1 else None
                ok = msg is None
                why = msg
                if e is not None:
                    ctors = []
                    _ctor_calls(F, E, e, ctors)
                    if len(ctors) != 1:
                        ok, why = False, "expected exactly one constructor call in %s, found %d" % (symx.show(e), len(ctors))
                    else:
                        # the constructor receives the caller's input as a whole: the parameter itself or a whole-value view
                        # of it (`as_bytes()`, `&s[..]`, `len()` for the recorded length) - not a trimmed, sliced, skipped,
                        # truncated or otherwise transformed one
                        odd = []
                        for a in ctors[0][3]:
                            _foreign_calls(F, a, odd)
                        if odd:
                            ok, why = False, "the input is transformed by `%s` before it reaches the constructor: the handle would not hold what the caller passed" % odd[0]
                if ok:
                    rep.ok("R-DELEGATE", b["key"], cfg=tag)
                else:
                    rep.bad("R-DELEGATE", b["key"], why, F.loc(b), tag)
    rep.floor("R-DELEGATE", 8, "delegating constructors")


WHOLE_VIEWS = ("as_bytes", "as_slice", "as_mut_slice", "as_str", "as_ref", "as_mut", "deref", "deref_mut", "borrow", "into_iter", "iter", "into", "len", "default", "into_boxed_slice", "into_vec", "to_owned")


def _foreign_calls(F, e, out):
    """Calls inside a constructor argument that are not whole-value views of the caller's input."""
    if not isinstance(e, tuple):
        return
    if e and e[0] == "call":
        name = e[2]
        full_index = name in ("index", "index_mut") and len(e[3]) == 2 and e[3][1][0] == "agg" and str(e[3][1][2]).endswith("RangeFull")
        local_plain_ctor = e[1] in F.bodies and name == "new" and F.handle_name((F.body(e[1]).get("impl") or {}).get("self_ty", -1)) is None
        if not (name in WHOLE_VIEWS or full_index or local_plain_ctor):
            out.append(symx.show(e)[:80])
            return
        for a in e[3]:
            _foreign_calls(F, a, out)
        return
    for x in e:
        if isinstance(x, tuple):
            _foreign_calls(F, x, out)


def _ctor_calls(F, E, e, out):
    if not isinstance(e, tuple):
        return
    if e and e[0] == "call":
        if e[1] in F.bodies and c03.is_new_class(E, e[1]):
            out.append(e)
            return
    for x in e:
        if isinstance(x, tuple):
            _ctor_calls(F, E, x, out)


def run(ctx, rep):
    balance.rule_parked(ctx, rep)  # a parked caller-supplied value must be handed over before anything can unwind
    rule_init(ctx, rep)
    from . import c05 as _c05

    _c05.rule_free_type(ctx, rep)  # "each input element is destroyed exactly once, by the resulting allocation": the last owner frees the block through its own, fat, un-retyped pointer (a thin prefix pointer destroys no element)
    _c05.rule_layout(ctx, rep)  # "the given contents": every element written lands inside the block - the block is requested with the layout of the type it is filled as, for every payload shape
    from .. import guards

    guards.rules(ctx, rep)  # a partial-initialisation guard is a second destroyer of payload values: never after the owner exists, never ahead of the writes
    rule_lenflow(ctx, rep)
    rule_moveonce(ctx, rep)
    rule_iterloop(ctx, rep)
    rule_exact(ctx, rep)
    rule_delegates(ctx, rep)
    from . import c07

    c07.rule_recheck(ctx, rep)
    from . import c05

    c05.rule_retype(ctx, rep)  # the header-erasing conversions (and every other re-typing of a block) keep header and elements where they were: equal layouts on the shape matrix


def main(argv):
    return core.run_property(
        PROP,
        "other",
        run,
        argv,
        explanation=(
            "Decides the structural clauses of constructor correctness, each a necessary condition of the behaviour, from expressions extracted out of "
            "MIR def-use chains: R-INIT - between the allocation and the first owning handle every payload field that is not MaybeUninit/() is written "
            "by ptr::write or a bulk copy into `(*block).data.<field>` (never by a dropping assignment) and the writes dominate the handle's "
            "construction; R-LENFLOW - one length expression (`len()` of the input) sizes the allocation, counts the bulk copy / bounds the fill loop "
            "`0..len`, and is the length recorded by the ThinArc constructors, and the copy reads from the start of the input container; R-MOVEONCE - "
            "the Vec source is disarmed by `set_len(0)` between the copy and every exit and is still dropped (storage released), the Box source is "
            "re-typed to Box<ManuallyDrop<T>> before being dropped, borrowed-slice constructors require `T: Copy`; R-ITERLOOP - one next, one write, "
            "cursor +1 per iteration; R-RECHECK - slots come from a checked next(), construction only after exhaustion; R-EXACT - the exact-size fast "
            "path is guarded by `Some(lower) == upper` of one size_hint() and the wrapper's len() is that lower bound; R-DELEGATE - delegating "
            "constructors make exactly one constructor call and forward the result. NOT decided: that the delivered contents equal the input "
            "element-for-element for every input (a value property), nor the order iterators yield."
            ' R-RETYPE as a premise (header-erasing conversions keep header and elements in place: equal layouts on the shape matrix, guards evaluated).'
            ' Round fourteen: R-LAYOUT as a premise (elements written into a block that is too short are not the given contents); R-PARKED also covers `mem::forget` of a caller-supplied parameter without a hand-over.'
            ' Round sixteen: R-FREE-TYPE as a premise.'
        ),
        rule_text="instances = payload fields per allocation region, constructors (length flow, source disarming), loop shape, fast-path guard, delegating constructors",
        trusted_base=["rustc MIR def-use, dominators computed on it", "ptr::write / copy_nonoverlapping semantics", "expression extractor analysis/symx.py"],
        assumptions=["`len()` of slices/Vec is pure; iterators may lie (covered by R-RECHECK and C10's checked into_thin)"],
    )
