"""C04 - the reported reference count equals the number of owning handles."""
from .. import atomics, balance, cfg, core, model
from ..effects import ZERO, dcount, imbalance, vget
from ..facts import operand_local, operand_place

PROP = "C04"

# API classes (DESIGN.md 3.2 R-DELTA). "H::name" = inherent method on handle H; "H as Trait::name" = trait impl.
TABLE = {
    "NEW": [
        "Arc::new", "Arc::new_uninit", "Arc::new_uninit_slice", "UniqueArc::new", "UniqueArc::new_uninit", "UniqueArc::new_uninit_slice",
        "UniqueArc::from_header_and_uninit_slice", "Arc::from_header_and_iter", "Arc::from_header_and_slice", "Arc::from_header_and_vec",
        "Arc::from_header_and_str", "ThinArc::from_header_and_iter", "ThinArc::from_header_and_slice", "Arc as Default::default",
        "Arc as FromIterator::from_iter", "UniqueArc as FromIterator::from_iter", "Arc as From::from#new",
    ],
    "NEW-OR-NOTHING": ["Arc as Deserialize::deserialize", "UniqueArc as Deserialize::deserialize"],
    "CLONE": ["Arc as Clone::clone", "ThinArc as Clone::clone", "OffsetArc as Clone::clone", "ArcUnion as Clone::clone", "OffsetArc::clone_arc", "ArcBorrow::clone_arc"],
    "RELEASE": ["Arc as Drop::drop", "ThinArc as Drop::drop", "OffsetArc as Drop::drop", "ArcUnion as Drop::drop"],
    "RAW-OUT": ["Arc::into_raw", "ThinArc::into_raw", "Arc as RefCnt::into_ptr", "ThinArc as RefCnt::into_ptr"],
    "RAW-IN": ["Arc::from_raw", "Arc::from_raw_slice", "ThinArc::from_raw", "Arc as RefCnt::from_ptr", "ThinArc as RefCnt::from_ptr"],
    "COW": ["Arc::make_mut", "Arc::make_unique", "OffsetArc::make_mut"],
    "UNWRAP": ["Arc::try_unwrap"],
    "INTO-INNER": ["UniqueArc::into_inner"],
    "UNWRAP-OR-CLONE": ["Arc::unwrap_or_clone"],
    "ZERO": [
        # borrows
        "Arc::borrow_arc", "OffsetArc::borrow_arc", "Arc::with_raw_offset_arc", "ThinArc::with_arc", "ThinArc::with_arc_mut", "OffsetArc::with_arc",
        "ArcBorrow::with_arc", "ArcBorrow::get", "ArcBorrow::from_ptr", "ArcBorrow as Clone::clone", "ArcBorrow as Deref::deref",
        "Arc::as_ptr", "ThinArc::as_ptr", "Arc::heap_ptr", "ThinArc::heap_ptr", "ThinArc::ptr", "Arc as RefCnt::as_ptr", "ThinArc as RefCnt::as_ptr",
        "Arc as Deref::deref", "ThinArc as Deref::deref", "OffsetArc as Deref::deref", "UniqueArc as Deref::deref", "UniqueArc as DerefMut::deref_mut",
        "ArcUnion::borrow", "ArcUnion::as_first", "ArcUnion::as_second", "ArcUnion::is_first", "ArcUnion::is_second",
        # count accessors and uniqueness queries
        "Arc::count", "Arc::strong_count", "ThinArc::strong_count", "OffsetArc::strong_count", "ArcBorrow::strong_count", "ArcUnion::strong_count",
        "ArcUnionBorrow::strong_count", "Arc::is_unique", "Arc::get_mut", "Arc::get_unique", "Arc::ptr_eq", "ArcBorrow::ptr_eq", "ArcUnion::ptr_eq",
        # moves / conversions (consume the source)
        "Arc::into_raw_offset", "Arc::from_raw_offset", "Arc::into_thin", "Arc::from_thin", "Arc::protected_into_thin", "Arc::protected_from_thin",
        "ArcUnion::from_first", "ArcUnion::from_second", "UniqueArc::shareable", "Arc::assume_init", "UniqueArc::assume_init",
        "UniqueArc::assume_init_slice", "UniqueArc::assume_init_slice_with_header", "Arc::try_unique", "UniqueArc as TryFrom::try_from",
        "Arc as From::from#move", "Arc as CoerciblePtr::replace_ptr", "UniqueArc as CoerciblePtr::replace_ptr", "ArcBorrow as CoerciblePtr::replace_ptr",
        "Arc as CoerciblePtr::as_sized_ptr", "UniqueArc as CoerciblePtr::as_sized_ptr", "ArcBorrow as CoerciblePtr::as_sized_ptr",
        # comparing, hashing, formatting, serialising
        "Arc as PartialEq::eq", "Arc as PartialEq::ne", "Arc as PartialOrd::partial_cmp", "Arc as PartialOrd::lt", "Arc as PartialOrd::le",
        "Arc as PartialOrd::gt", "Arc as PartialOrd::ge", "Arc as Ord::cmp", "Arc as Hash::hash", "Arc as Debug::fmt", "Arc as Display::fmt",
        "Arc as Pointer::fmt", "Arc as Borrow::borrow", "Arc as AsRef::as_ref", "Arc as Serialize::serialize", "UniqueArc as Serialize::serialize",
        "ThinArc as PartialEq::eq", "ThinArc as PartialOrd::partial_cmp", "ThinArc as Ord::cmp", "ThinArc as Hash::hash", "ThinArc as Debug::fmt",
        "ThinArc as Pointer::fmt", "OffsetArc as PartialEq::eq", "OffsetArc as PartialEq::ne", "OffsetArc as Debug::fmt",
        "ArcBorrow as PartialEq::eq", "ArcBorrow as Debug::fmt", "ArcUnion as PartialEq::eq", "ArcUnion as Debug::fmt", "ArcUnionBorrow as Debug::fmt",
        # uninit writers
        "Arc::write", "Arc::as_mut_ptr", "Arc::as_mut_slice", "UniqueArc::write", "UniqueArc::as_mut_ptr",
    ],
}

OPTIONAL = {  # present only in some feature configurations
    "Arc as RefCnt::into_ptr", "ThinArc as RefCnt::into_ptr", "Arc as RefCnt::from_ptr", "ThinArc as RefCnt::from_ptr", "Arc as RefCnt::as_ptr", "ThinArc as RefCnt::as_ptr",
    "Arc as CoerciblePtr::replace_ptr", "UniqueArc as CoerciblePtr::replace_ptr", "ArcBorrow as CoerciblePtr::replace_ptr",
    "Arc as CoerciblePtr::as_sized_ptr", "UniqueArc as CoerciblePtr::as_sized_ptr", "ArcBorrow as CoerciblePtr::as_sized_ptr",
    "Arc as Deserialize::deserialize", "UniqueArc as Deserialize::deserialize", "Arc as Serialize::serialize", "UniqueArc as Serialize::serialize",
}

COUNT_KEYS = ("inc", "dec", "init", "alloc", "free_s1", "free_raw")


def z(v, *except_):
    return all(vget(v, k) == 0 for k in COUNT_KEYS if k not in except_)


def is_zero(v):
    return z(v) and vget(v, "own") == 0


def is_new(v):
    return vget(v, "alloc") == 1 and vget(v, "init") == 1 and vget(v, "own") == 1 and z(v, "alloc", "init")


def released(v):
    """Count units given back by releasing owners: a decrement, or a free by an owner that observed `count == 1`
    (shape S3; C01 R-DESTROY and C02 R-ORD-2 check that observation)."""
    return vget(v, "dec") + vget(v, "free_raw")


def is_cow_clone(v, via_routine=False):
    # the old block's owner is given up by running a handle's destructor (drops >= 1: an OffsetArc's destructor runs an Arc's), not by a bare decrement
    return vget(v, "alloc") == 1 and vget(v, "init") == 1 and released(v) == 1 and (vget(v, "drops") >= 1 or via_routine) and vget(v, "own") == 0 and vget(v, "uclone") >= 1 and vget(v, "inc") == 0


def is_unwrapped(v):
    return vget(v, "own") == -1 and vget(v, "free_raw") == 1 and z(v, "free_raw")


def check_class(cls, vecs):
    """Returns None if the set of normal-path vectors matches the documented class, else a message."""
    vs = list(vecs)
    if not vs:
        return "no path returns normally"
    if cls == "ZERO":
        for v in vs:
            if not is_zero(v):
                return "documented as leaving the count alone (borrow / move / query), but a path has %s" % balance.vec_str(v)
    elif cls == "NEW":
        for v in vs:
            if not is_new(v):
                return "a constructor must make exactly one block with count 1 and one owner; a path has %s" % balance.vec_str(v)
    elif cls == "NEW-OR-NOTHING":
        for v in vs:
            if not (is_new(v) or is_zero(v)):
                return "must either build one fresh sole owner or nothing; a path has %s" % balance.vec_str(v)
        if not any(is_new(v) for v in vs) or not any(is_zero(v) for v in vs):
            return "expected both an error path with no allocation and a success path with one fresh block"
    elif cls == "CLONE":
        for v in vs:
            if not (vget(v, "inc") == 1 and vget(v, "own") == 1 and z(v, "inc")):
                return "a clone-style operation must raise the count by exactly one and produce exactly one owner; a path has %s" % balance.vec_str(v)
    elif cls == "RELEASE":
        for v in vs:
            sole = vget(v, "dec") == 0 and vget(v, "free_raw") == 1 and z(v, "free_raw") and vget(v, "own") == 0  # freed by an owner that observed count == 1 (C01 R-DESTROY / C02 check the observation)
            if not sole and not (vget(v, "dec") == 1 and vget(v, "free_s1") <= 1 and z(v, "dec", "free_s1") and vget(v, "own") == 0):
                return "releasing an owner must lower the count by exactly one (and free only after observing 1); a path has %s" % balance.vec_str(v)
        if not any(vget(v, "free_s1") == 1 or vget(v, "free_raw") == 1 for v in vs) or not any(vget(v, "free_s1") == 0 and vget(v, "free_raw") == 0 for v in vs):
            return "expected both a path that frees (last owner) and one that does not"
    elif cls == "RAW-OUT":
        for v in vs:
            if not (vget(v, "own") == -1 and z(v)):
                return "handing out a raw pointer must consume the handle without touching the count; a path has %s" % balance.vec_str(v)
    elif cls == "RAW-IN":
        for v in vs:
            if not (vget(v, "own") == 1 and z(v)):
                return "taking a raw pointer back must produce one owner without touching the count; a path has %s" % balance.vec_str(v)
    elif cls == "COW":
        # (the owner of the old block may also be given up by calling the release routine itself - `old.drop_inner()` on a
        # parked handle - instead of letting the destructor run it: then the path set must show the routine whole, the last
        # owner freeing included; a bare decrement has no such path)
        routine = [v for v in vs if is_cow_clone(v, via_routine=True) and not is_cow_clone(v)]
        whole = any(vget(v, "free_s1") == 1 for v in routine)
        for v in vs:
            if not (is_zero(v) and vget(v, "uclone") == 0 or is_cow_clone(v) or (whole and is_cow_clone(v, via_routine=True))):
                return "copy-on-write must either keep the allocation untouched without cloning, or clone once into one fresh block and release one owner of the old one through the handle's destructor; a path has %s" % balance.vec_str(v)
        if not any(is_cow_clone(v) or (whole and is_cow_clone(v, via_routine=True)) for v in vs) or not any(is_zero(v) for v in vs):
            return "expected both the in-place path and the clone path"
    elif cls == "UNWRAP":
        for v in vs:
            if not (is_zero(v) or is_unwrapped(v)):
                return "must either hand the same handle back untouched or free the block as its sole owner; a path has %s" % balance.vec_str(v)
        if not any(is_zero(v) for v in vs) or not any(is_unwrapped(v) for v in vs):
            return "expected both the decline path and the unwrap path"
    elif cls == "INTO-INNER":
        for v in vs:
            if not is_unwrapped(v):
                return "must free the block as its sole owner exactly once; a path has %s" % balance.vec_str(v)
    elif cls == "UNWRAP-OR-CLONE":
        for v in vs:
            a = is_unwrapped(v) and vget(v, "uclone") == 0
            b = vget(v, "uclone") >= 1 and released(v) == 1 and vget(v, "drops") >= 1 and vget(v, "own") == -1 and vget(v, "inc") == 0 and vget(v, "alloc") == 0
            if not (a or b):
                return "must either move the value out of the solely owned block, or clone it and release one owner by running the handle's destructor (which destroys the value if that owner was the last); a path has %s" % balance.vec_str(v)
        if not any(is_unwrapped(v) for v in vs) or not any(vget(v, "uclone") for v in vs):
            return "expected both the unwrap path and the clone path"
    return None


def api_name(F, b):
    """'Handle::name' / 'Handle as Trait::name' for a body in an impl on a handle ADT, else None."""
    imp = b.get("impl")
    if not imp or "name" not in b:
        return None
    hn = F.handle_name(imp["self_ty"])
    if hn is None:
        return None
    tr = imp.get("trait")
    if tr:
        return "%s as %s::%s" % (hn, tr.split("::")[-1], b["name"])
    return "%s::%s" % (hn, b["name"])


def classify(F, b):
    n = api_name(F, b)
    if n is None:
        return None, None
    if n == "Arc as From::from":
        n += "#move" if any(F.tokens(t)[0] for t in b["inputs"]) else "#new"
    for cls, names in TABLE.items():
        if n in names:
            return n, cls
    return n, None


def rule_delta(ctx, rep):
    for tag, F, E in ctx.each():
        A = balance.analysis(tag, F, E)
        found = set()
        for b in F.body_list:
            if b["kind"] not in ("Fn", "AssocFn") or b["key"] in A.errors:
                continue
            n, cls = classify(F, b)
            if n is None:
                continue
            if cls is None:
                if balance.is_api(F, b) and b["key"] not in rep.unclassified:
                    rep.unclassified.append(b["key"])
                continue
            found.add(n)
            vecs = [p.vec for p in A.paths[b["key"]] if p.exit == "ret"]
            msg = check_class(cls, vecs)
            if msg:
                worst = None
                for p in A.paths[b["key"]]:
                    if p.exit == "ret" and balance.vec_str(p.vec) in msg:
                        worst = p
                        break
                rep.bad("R-DELTA", b["key"], (balance.path_report(F, b, worst, "class %s: %s" % (cls, msg)) if worst else "class %s: %s" % (cls, msg)), F.loc(b), tag)
            else:
                rep.ok("R-DELTA", b["key"], cfg=tag, nontrivial=True)
                if cls in ("CLONE", "COW", "RELEASE") and len(rep.samples) < 8 and tag == "default":
                    rep.sample({"rule": "R-DELTA", "function": b["key"], "class": cls, "normal_path_vectors": sorted(set(balance.vec_str(v) for v in vecs))})
        for cls, names in TABLE.items():
            for n in names:
                if n not in found:
                    if n in OPTIONAL:
                        continue
                    rep.bad("ANCHOR-LOST", "R-DELTA/" + n, "API named by the property is missing from the analysed crate (renamed or removed): %s" % n, None, tag)
    rep.floor("R-DELTA", 120, "APIs enumerated by the properties (default configuration: 128 classified bodies)")


def rule_fwd(ctx, rep):
    """The count accessors return the loaded count word unmodified, read from the allocation their receiver points to."""
    ACCESSORS = ["Arc::count", "Arc::strong_count", "ThinArc::strong_count", "OffsetArc::strong_count", "ArcBorrow::strong_count", "ArcUnion::strong_count", "ArcUnionBorrow::strong_count"]
    for tag, F, E in ctx.each():
        # fixpoint: FWD = bodies whose every definition of the return place is (a) a load of COUNT, (b) a call of a FWD body,
        # (c) a call of a callback-forwarding body (returns what its closure parameter returns) whose callable is FWD.
        fwd = {}
        forwarding = set()
        for b in F.body_list:
            B = cfg.Body(b)
            defs0 = B.defs().get(0, [])
            if defs0 and all(d[0] == "call" and d[2].get("callee_trait") in ("core::ops::function::FnOnce", "core::ops::function::FnMut", "core::ops::function::Fn") for d in defs0):
                forwarding.add(b["key"])
        # ... or hand their own callable parameter on to such a body and return its result (`with_arc` built on a shared
        # `with_transient(owner, f)` helper)
        grew = True
        while grew:
            grew = False
            for b in F.body_list:
                if b["key"] in forwarding:
                    continue
                B = cfg.Body(b)
                defs0 = B.defs().get(0, [])
                if not defs0:
                    continue
                ok_all = True
                for d in defs0:
                    if d[0] != "call":
                        ok_all = False
                        break
                    r = d[2].get("resolved")
                    if not (isinstance(r, dict) and r["def"] in forwarding):
                        ok_all = False
                        break
                    # one of the generic arguments is this body's own (callable) type parameter
                    own_params = set(F.ty(p["self"])["name"] for p in b.get("preds", []) if p.get("kind") == "trait" and p.get("trait") in ("core::ops::function::FnOnce", "core::ops::function::FnMut", "core::ops::function::Fn") and F.ty(p["self"])["k"] == "param")
                    if not any("t" in a and F.ty(F.strip_refs(a["t"]))["k"] == "param" and F.ty(F.strip_refs(a["t"]))["name"] in own_params for a in r["args"]):
                        ok_all = False
                        break
                if ok_all:
                    forwarding.add(b["key"])
                    grew = True
        changed = True
        reasons = {}
        while changed:
            changed = False
            for b in F.body_list:
                k = b["key"]
                if k in fwd or k in forwarding:
                    continue
                B = cfg.Body(b)
                ok, why = _returns_count(F, B, fwd, forwarding)
                if ok:
                    fwd[k] = True
                    changed = True
                else:
                    reasons[k] = why
        for name in ACCESSORS:
            bs = [b for b in F.body_list if api_name(F, b) == name]
            if not bs:
                rep.bad("ANCHOR-LOST", "R-FWD/" + name, "count accessor named by the property is missing: %s" % name, None, tag)
                continue
            for b in bs:
                if b["key"] in fwd:
                    rep.ok("R-FWD", b["key"], cfg=tag)
                else:
                    rep.bad("R-FWD", b["key"], "the accessor does not return the loaded count word unmodified: %s" % reasons.get(b["key"], "?"), F.loc(b), tag)
    rep.floor("R-FWD", 7, "seven count accessors")


def _returns_count(F, B, fwd, forwarding):
    b = B.b
    # (the returned value is followed back through plain moves only: any arithmetic on it ends the chain at a `binop` rvalue and is
    # refused below; arithmetic elsewhere in the body - the alignment checks a debug build inserts before a raw dereference - is
    # not on the value's path)
    defs0 = B.defs().get(0, [])
    if not defs0:
        return False, "return place is never assigned by a call"
    for d in defs0:
        # follow moves back to a call
        if d[0] == "assign":
            o = B.origin({"mv": {"l": 0, "p": []}}) if len(defs0) == 1 else {"kind": "unknown"}
            if o.get("kind") != "call":
                rv = d[3]
                if rv["k"] == "use":
                    o = B.origin(rv["op"])
                if o.get("kind") != "call":
                    return False, "the returned value is not the result of a call (kind %s)" % o.get("kind")
            t = o["term"]
        else:
            t = d[2]
        r = t.get("resolved")
        path = r["def"] if isinstance(r, dict) else t.get("callee")
        cls, _ = model.classify(path) if isinstance(r, dict) and not r["local"] else (None, None)
        if cls == model.ATOMIC_LOAD:
            # receiver must be the COUNT field reached from the receiver argument
            recv = t["args"][0]
            o = B.origin(recv)
            if o.get("kind") == "call" and atomics.returns_count_ref(F, atomics.callee_of(o["term"])):
                # a private accessor returning `&block.count`: the block must be the receiver's
                if not any(_derives_from_arg(F, B, operand_place(a)["l"], set()) for a in o["term"]["args"] if operand_place(a) is not None):
                    return False, "the block whose count is loaded is not derived from the receiver argument"
                continue
            if o.get("kind") != "rvalue" or o["rv"]["k"] != "ref":
                return False, "load receiver is not a direct borrow"
            pl = o["rv"]["place"]
            last = pl["p"][-1] if pl["p"] else None
            if not (isinstance(last, dict) and last.get("adt") == F.inner_path and F.count_field and last.get("f") == F.count_field[0]):
                return False, "load receiver is not the count field of the block"
            if not _derives_from_arg(F, B, pl["l"], set()):
                return False, "the block whose count is loaded is not derived from the receiver argument"
            continue
        if isinstance(r, dict) and r["def"] in fwd:
            continue
        if t.get("callee_trait") in ("core::ops::function::FnOnce", "core::ops::function::FnMut", "core::ops::function::Fn"):
            continue  # a forwarding body: judged at its callers
        if isinstance(r, dict) and r["def"] in forwarding:
            # the callable passed must itself return the count
            oks = []
            for a in r["args"]:
                if "t" in a:
                    tt = F.ty(F.strip_refs(a["t"]))
                    if tt["k"] in ("closure", "fndef"):
                        oks.append(tt["def"] in fwd)
            if oks and all(oks):
                continue
            return False, "callback passed to %s does not return the count" % r["def"]
        return False, "returns the result of %s, which is not known to return the count word" % path
    return True, None


def _derives_from_arg(F, B, l, seen):
    if l in seen:
        return False
    seen.add(l)
    if B.is_arg(l):
        return True
    ds = B.defs().get(l, [])
    if not ds:
        return False
    for d in ds:
        if d[0] == "call":
            t = d[2]
            ok = False
            for a in t["args"]:
                al = operand_place(a)
                if al is not None and _derives_from_arg(F, B, al["l"], seen):
                    ok = True
            if not ok:
                return False
        else:
            rv = d[3]
            src = None
            if rv["k"] in ("use", "cast"):
                pl = operand_place(rv["op"])
                src = pl["l"] if pl is not None else None
            elif rv["k"] in ("ref", "rawptr"):
                src = rv["place"]["l"]
            if src is None or not _derives_from_arg(F, B, src, seen):
                return False
    return True


def run(ctx, rep):
    balance.rule_release_retarget(ctx, rep)  # release-then-store through `&mut Handle` must store on unwinding exits too
    from . import c12 as _c12

    _c12.union_dispatch(ctx, rep)  # ArcUnion owners are counted on the block of the Arc they were made from (tag arithmetic, per-variant types)
    balance.rule_bal(ctx, rep)
    balance.rule_unw(ctx, rep)  # histories include operations that unwind: the count must still equal the owners afterwards
    from . import c11 as _c11

    _c11.rule_refcnt_pair(ctx, rep)  # arc-swap settles a guard's debt by comparing `as_ptr` with `into_ptr`: if the glue lets them differ it releases a count nobody owned
    rule_delta(ctx, rep)
    n = balance.rule_cbzero(ctx, rep)
    rep.floor("R-CBZERO", 2, "public callback borrowers that call their closure themselves (today five: with_raw_offset_arc, ThinArc::with_arc, with_arc_mut, OffsetArc::with_arc, ArcBorrow::with_arc; one may delegate to another)")
    rule_fwd(ctx, rep)
    from . import c07 as _c07

    _c07.rule_guard(ctx, rep)  # a handle re-pointed behind a transient must be written back on every exit, or the count of its old block no longer matches its owners
    balance.rule_writeback(ctx, rep)
    balance.rule_count_addr(ctx, rep)
    rep.floor("R-COUNT-ADDR", 1, "one instance per run")
    balance.rule_use_after_release(ctx, rep)
    rep.floor("R-USE-AFTER-RELEASE", 1, "the one decrementing body")
    rep.floor("R-BAL", 150, "API bodies")
    for tag, F, E in ctx.each():
        for u in sorted(E.unmodelled):
            rep.bad("UNMODELLED-PRIMITIVE", u, "std primitive with ownership/atomic/allocation meaning has no model row: fail closed", None, tag)


def main(argv):
    return core.run_property(
        PROP,
        "other",
        run,
        argv,
        explanation=(
            "Static path analysis of every API body (all feature configurations of the tier): (R-BAL) count word and owner set move in "
            "lock-step on every normal path; (R-DELTA) for each API the properties enumerate, the set of count/owner deltas over all normal "
            "paths equals the documented class (NEW +1/one block, CLONE +1, RELEASE -1, borrows/moves/comparisons/formatting 0, raw-out/raw-in, "
            "copy-on-write, unwrap); (R-CBZERO) at every call of a caller-supplied closure inside a borrow the running count and owner deltas "
            "are 0, so the count is unchanged while the borrow is in use; (R-FWD) each of the seven count accessors returns, by pure forwarding, "
            "the value loaded from the count field of the block its receiver points to. Concurrent readings are inherently racy and not constrained by the property."
            ' Premises added later: the ArcUnion dispatch rules (R-TAG, Clone/Drop R-ARMS); signature class RAW-COUNT for `unsafe fn(*const T)` that move the count by one unit on behalf of the caller; compare-and-swap between constants as an increment.'
            ' R-REFCNT-PAIR for every RefCnt impl.'
        ),
        rule_text="instances = (rule, API body) or (R-CBZERO, callback call site); non-trivial when a path carries at least one count/ownership event or the class demands one",
        trusted_base=["rustc nightly MIR construction, drop elaboration and trait resolution", "std model table analysis/model.py", "API class table in analysis/props/c04.py (one row per API named by the properties)"],
        assumptions=["std primitives behave as in analysis/model.py", "user callbacks are ownership-balanced"],
    )
