"""C15 - uninitialised construction never destroys or exposes what was not written."""
from .. import atomics, balance, cfg, core, ptrclass
from ..effects import vget
from ..facts import MAYBE_UNINIT, operand_place
from . import c04, c06

PROP = "C15"


def params_outside_uninit(F, i, inside=False, out=None):
    """Type parameters of type i that occur outside MaybeUninit<..>."""
    if out is None:
        out = set()
    t = F.ty(i)
    k = t["k"]
    if k == "param":
        if not inside:
            out.add(t["name"])
    elif k in ("ref", "ptr", "slice", "array"):
        params_outside_uninit(F, t["t"], inside, out)
    elif k == "tuple":
        for x in t["ts"]:
            params_outside_uninit(F, x, inside, out)
    elif k == "adt":
        ins = inside or t["path"] == MAYBE_UNINIT
        for a in t["args"]:
            if "t" in a:
                params_outside_uninit(F, a["t"], ins, out)
    return out


def erase_uninit(F, i):
    """Canonical string of type i with every MaybeUninit<X> replaced by X."""
    t = F.ty(i)
    k = t["k"]
    if k == "adt":
        args = [erase_uninit(F, a["t"]) for a in t["args"] if "t" in a]
        if t["path"] == MAYBE_UNINIT:
            return args[0]
        return t["path"] + ("<" + ", ".join(args) + ">" if args else "")
    if k in ("slice",):
        return "[" + erase_uninit(F, t["t"]) + "]"
    if k == "array":
        return "[" + erase_uninit(F, t["t"]) + "; " + str(t["len"]) + "]"
    if k in ("ref", "ptr"):
        return ("&" if k == "ref" else "*") + erase_uninit(F, t["t"])
    if k == "tuple":
        return "(" + ", ".join(erase_uninit(F, x) for x in t["ts"]) + ")"
    return t["s"]


def payload_ty(F, i):
    hn = F.handle_name(i)
    if hn in ("Arc", "UniqueArc"):
        return [a["t"] for a in F.ty(i)["args"] if "t" in a][0]
    return None



def _pointee_is_uninit(F, ty_idx):
    t = F.ty(ty_idx)
    if t["k"] in ("ptr", "ref"):
        tt = F.ty(t["t"])
        return tt["k"] == "adt" and tt["path"] == "core::mem::maybe_uninit::MaybeUninit"
    return False


def _from_uninit(F, B, l, depth=0):
    """Does pointer/reference local l come (through casts, reborrows, `.cast()`) from a pointer to `MaybeUninit<_>`?"""
    from .. import symx

    if depth > 12:
        return False
    if _pointee_is_uninit(F, B.b["locals"][l]["ty"]):
        return True
    for d in B.defs().get(l, []):
        if d[0] == "call":
            t = d[2]
            c = atomics.callee_of(t)
            if _pointee_is_uninit(F, B.b["locals"][t["dest"]["l"]]["ty"]):
                return True
            if c in symx.IDENTITY_CALLS and t["args"]:
                pl = operand_place(t["args"][0])
                if pl is not None and (("ty" in pl and _pointee_is_uninit(F, pl["ty"])) or _from_uninit(F, B, pl["l"], depth + 1)):
                    return True
        else:
            rv = d[3]
            if rv["k"] in ("use", "cast"):
                pl = operand_place(rv["op"])
                if pl is not None and (("ty" in pl and _pointee_is_uninit(F, pl["ty"])) or _from_uninit(F, B, pl["l"], depth + 1)):
                    return True
            elif rv["k"] in ("ref", "rawptr") and rv["place"]["p"] and rv["place"]["p"][0] == "deref":
                if _from_uninit(F, B, rv["place"]["l"], depth + 1):
                    return True
    return False


def rule_uninit_assign(ctx, rep):
    """A slot that may still be uninitialised is filled by `ptr::write` / `MaybeUninit::write`, never by a plain assignment: `*slot = v`
    first runs the destructor of whatever bytes are in the slot."""
    for tag, F, E in ctx.each():
        n = 0
        bad = []
        for b in F.body_list:
            B = None
            for bi, bl in enumerate(b["blocks"]):
                t = bl["term"]
                if t["k"] != "drop" or bl.get("cleanup"):
                    continue
                pl = t["place"]
                if not pl["p"] or pl["p"][0] != "deref":
                    continue
                if B is None:
                    B = cfg.Body(b)
                if _from_uninit(F, B, pl["l"]):
                    bad.append((b, t))
        for b in F.body_list:
            if any(F.handle_name(x) and _mentions_uninit(F, x) for x in b.get("inputs", [])):
                n += 1
        if bad:
            for b, t in bad:
                rep.bad("R-UNINIT-ASSIGN", "%s/assignment" % b["key"], "a slot reached through a pointer to `MaybeUninit<_>` is overwritten by a plain assignment (line %s): the old contents - possibly never initialised - are dropped first; writing must use `ptr::write`/`MaybeUninit::write`" % t["span"]["line"], F.loc(b, t["span"]), tag)
        else:
            rep.ok("R-UNINIT-ASSIGN", "no dropping assignment into a MaybeUninit slot", "%d functions take a handle with a MaybeUninit payload" % n, cfg=tag)
    rep.floor("R-UNINIT-ASSIGN", 1, "one instance per run")


def _mentions_uninit(F, i):
    return any(F.ty(x)["k"] == "adt" and F.ty(x)["path"] == "core::mem::maybe_uninit::MaybeUninit" for x in F.walk(i))


def run(ctx, rep):
    rule_uninit_assign(ctx, rep)
    balance.rule_parked(ctx, rep)  # a parked caller-supplied value must be handed over before anything can unwind
    for tag, F, E in ctx.each():
        A = balance.analysis(tag, F, E)
        N = ptrclass.Norm(F)
        # ------------------------------------------------------------ R-UNINIT-TY
        ctors = [("Arc", "new_uninit", set()), ("Arc", "new_uninit_slice", set()), ("UniqueArc", "new_uninit", set()), ("UniqueArc", "new_uninit_slice", set()), ("UniqueArc", "from_header_and_uninit_slice", None)]
        for h, name, allowed in ctors:
            bs = F.method(h, name)
            if not bs:
                rep.bad("ANCHOR-LOST", "R-UNINIT-TY/%s::%s" % (h, name), "uninitialised constructor named by the property is missing", None, tag)
                continue
            for b in bs:
                pt = payload_ty(F, b["output"])
                ik = b["key"]
                if pt is None:
                    rep.bad("R-UNINIT-TY", ik, "does not return an Arc/UniqueArc", F.loc(b), tag)
                    continue
                outside = params_outside_uninit(F, pt)
                if allowed is None:
                    # the header parameter: the type of the first argument
                    ht = F.ty(b["inputs"][0])
                    allowed_here = {ht["name"]} if ht["k"] == "param" else set()
                else:
                    allowed_here = allowed
                has_uninit = F.mentions_adt(pt, MAYBE_UNINIT)
                if not has_uninit:
                    rep.bad("R-UNINIT-TY", ik, "the returned payload type %s has no MaybeUninit: dropping the handle before initialisation would run destructors on unwritten memory" % F.ts(pt), F.loc(b), tag)
                elif outside - allowed_here:
                    rep.bad("R-UNINIT-TY", ik, "payload type %s exposes %s outside MaybeUninit: its destructor would run on slots that may not have been written" % (F.ts(pt), sorted(outside - allowed_here)), F.loc(b), tag)
                else:
                    # drop glue of the payload as modelled: only the header's destructor may be user code
                    effs = E.drop_effects(pt, None)
                    user = max((vget(e.vec, "user") for e in effs), default=0)
                    if not allowed_here and user:
                        rep.bad("R-UNINIT-TY", ik, "dropping the uninitialised payload %s would run user destructors" % F.ts(pt), F.loc(b), tag)
                    else:
                        rep.ok("R-UNINIT-TY", ik, "%s: destructors only for %s" % (F.ts(pt), sorted(allowed_here) or "nothing"), cfg=tag)
                        rep.sample({"rule": "R-UNINIT-TY", "constructor": ik, "payload": F.ts(pt), "destructor_runs_for": sorted(allowed_here)}) if tag == "default" else None
        # ------------------------------------------------------------ R-CAST
        casts = [("Arc", "assume_init"), ("UniqueArc", "assume_init"), ("UniqueArc", "assume_init_slice"), ("UniqueArc", "assume_init_slice_with_header")]
        n = 0
        for h, name in casts:
            for b in F.method(h, name):
                n += 1
                ik = b["key"]
                prs = [p for p in A.paths[ik] if p.exit == "ret"]
                msg = c04.check_class("ZERO", [p.vec for p in prs])
                ok = True
                why = None
                if msg:
                    ok, why = False, msg
                if any(vget(p.vec, "user") for p in prs):
                    ok, why = False, "user code (a destructor or callback) runs inside assume_init"
                # same allocation: the output handle wraps the input handle's stored pointer
                nf = N.ret(ik)
                base = nf
                while base[0] == "mk":
                    base = base[2]
                transmuted = base == ("arg", 1)
                stored = base[0] == "stored" and _root(base) == ("arg", 1)
                if not (transmuted or stored):
                    ok, why = False, "the returned handle is built around %s, not around the argument's own block pointer" % ptrclass.show(nf)
                # types differ only by MaybeUninit<_> -> _
                src_t, dst_t = b["inputs"][0], b["output"]
                if erase_uninit(F, src_t) != erase_uninit(F, dst_t) or F.mentions_adt(dst_t, MAYBE_UNINIT) and not name.endswith("x"):
                    if erase_uninit(F, src_t) != erase_uninit(F, dst_t):
                        ok, why = False, "source and target types differ by more than MaybeUninit<_> -> _: %s vs %s" % (F.ts(src_t), F.ts(dst_t))
                if ok:
                    rep.ok("R-CAST", ik, ptrclass.show(nf), cfg=tag)
                else:
                    rep.bad("R-CAST", ik, why, F.loc(b), tag)
        if n < 5:
            rep.bad("ANCHOR-LOST", "R-CAST", "expected the five assume_init* functions, found %d" % n, None, tag)
    # no safe function of the crate turns uninitialised payloads into initialised ones on the client's behalf
    for tag, F, E in ctx.each():
        names = set(b["key"] for h, n in (("Arc", "assume_init"), ("UniqueArc", "assume_init"), ("UniqueArc", "assume_init_slice"), ("UniqueArc", "assume_init_slice_with_header")) for b in F.method(h, n))
        seen = 0
        for b in F.body_list:
            owner = (F.body(b.get("owner")) or b) if b["kind"] == "Closure" else b
            B = cfg.Body(b)
            for bi, t in B.calls():
                r = t.get("resolved")
                callee = r["def"] if isinstance(r, dict) else t.get("callee")
                if callee in names:
                    seen += 1
                    ik = "%s calls %s" % (b["key"], (F.body(callee) or {}).get("name"))
                    if owner.get("unsafe"):
                        rep.ok("R-ASSUME-CALLERS", ik, "caller is unsafe: obligation stays with the client", cfg=tag)
                    elif _written_before(F, B, b, bi):
                        rep.ok("R-ASSUME-CALLERS", ik, "the caller writes the payload on every path before declaring it initialised", cfg=tag)
                    elif _ctor_fully_initialises(ctx, tag, F, b):
                        rep.ok("R-ASSUME-CALLERS", ik, "a slice constructor: every element is written before the re-typing (C06's R-INIT / R-LENFLOW / R-ITERLOOP for this function)", cfg=tag)
                    else:
                        rep.bad("R-ASSUME-CALLERS", ik, "a safe function declares an uninitialised payload initialised: a client could read or drop slots nobody wrote", F.loc(b, t["span"]), tag)
        if seen == 0:
            rep.bad("ANCHOR-LOST", "R-ASSUME-CALLERS", "no internal call of an assume_init function found (one is expected in assume_init_slice)", None, tag)
    # "from then on every element is destroyed exactly once together with the allocation": the last owner's release destroys
    # the payload and gives the block back on every exit, a panicking element destructor included
    from . import c01 as _c01

    _c01.rule_destroy(ctx, rep)
    balance.rule_unique_view(ctx, rep)  # nothing lends out the shared handle inside a UniqueArc: "sole owner by type" stays true
    # header written before the handle exists
    c06.rule_init(ctx, rep, only=("from_header_and_uninit_slice",))
    # deprecated writers panic instead of mutating a shared value
    from . import c03

    _panic_decline(ctx, rep)
    rep.floor("R-ASSUME-CALLERS", 1, "the one internal (unsafe) caller")
    rep.floor("R-UNINIT-TY", 5, "five uninitialised constructors")
    rep.floor("R-CAST", 5, "five assume_init functions")
    rep.floor("R-INIT", 1, "header write in from_header_and_uninit_slice")


def _ctor_fully_initialises(ctx, tag, F, b):
    """The caller is one of the header-and-slice constructors and C06's constructor rules - run here for that function alone -
    find every payload field written before the point of re-typing, with the allocation length as the number of elements."""
    if b.get("name") not in ("from_header_and_slice", "from_header_and_vec", "from_header_and_iter") or F.handle_name((b.get("impl") or {}).get("self_ty", -1)) != "Arc":
        return False

    class _One:
        def __init__(self):
            self.bad_keys = []
            self.oks = 0
            self.notes = []

        def ok(self, rule, key, *a, **k):
            if k.get("cfg") == tag and key.startswith(b["key"]):
                self.oks += 1

        def bad(self, rule, key, msg, loc=None, cfg=None, detail=None):
            if cfg == tag and (key.startswith(b["key"]) or rule == "ANCHOR-LOST"):
                self.bad_keys.append((rule, key))

        def floor(self, *a, **k):
            pass

        def sample(self, *a, **k):
            pass

    r = _One()
    c06.rule_init(ctx, r, only=(b["name"],))
    c06.rule_lenflow(ctx, r)
    if b["name"] == "from_header_and_iter":
        c06.rule_iterloop(ctx, r)
    return r.oks > 0 and not r.bad_keys


def _written_before(F, B, b, assume_bb):
    """A write into the payload (UniqueArc::write, ptr::write, copy) dominates the assume_init call."""
    from .. import atomics

    dom = B.dominators()
    for bi, t in B.calls():
        callee = atomics.callee_of(t)
        name = (F.body(callee) or {}).get("name") or t.get("callee_name")
        is_write = callee in ("core::ptr::write", "<*mut T>::write", "core::ptr::copy_nonoverlapping", "core::ptr::copy", "<core::mem::maybe_uninit::MaybeUninit<T>>::write") or (name == "write" and callee in F.bodies)
        if is_write and bi in dom.get(assume_bb, set()) and bi != assume_bb:
            return True
    return False


def _root(n):
    while n[0] in ("stored", "field"):
        n = n[1]
    return n


def _panic_decline(ctx, rep):
    from . import c03

    c03.rule_panic_decline(ctx, rep)


def main(argv):
    return core.run_property(
        PROP,
        "other",
        run,
        argv,
        explanation=(
            "R-UNINIT-TY: the five uninitialised constructors return payload types in which every element-type parameter sits under MaybeUninit "
            "(type walk of rustc's resolved return types) - so the handle's drop glue, as modelled from the type, runs no element destructor whatever "
            "was written; only the header parameter of from_header_and_uninit_slice is exposed, and R-INIT shows it is written (ptr::write, dominating "
            "the handle's construction) before the handle exists. R-CAST: the five assume_init* bodies have no allocation, free, count event or user "
            "call, the returned handle wraps the argument's own block pointer (pointer normal form / handle-to-handle transmute), and source and target "
            "types are equal after erasing MaybeUninit<_> -> _; thereafter the ordinary drop glue applies (C01). R-PANIC-DECLINE: the deprecated "
            "Arc::write / as_mut_slice obtain their `&mut UniqueArc` only from the uniqueness check whose declining arm always panics, and never borrow "
            "the payload themselves. Not decided: whether the client really initialised every slot before assume_init (its unsafe obligation)."
            " Added later: C01's R-DESTROY as a premise (the last owner destroys the payload and gives the block back on every exit, a panicking element destructor included)."
            ' R-UNIQUE-VIEW.'
            ' Round thirteen/fourteen: R-ASSUME-CALLERS accepts a fill loop run through before the re-typing; R-PARKED `forgotten` clause; R-PANIC-DECLINE as in C03.'
        ),
        rule_text="instances = uninit constructors, assume_init functions, the header write, the deprecated writers",
        trusted_base=["rustc's resolved types", "MaybeUninit<T> has no drop glue (language guarantee)", "balance engine (C01/C04)"],
        assumptions=["clients initialise all slots before assume_init"],
    )
