"""C17 - serialisation is transparent and deserialisation yields a fresh sole owner."""
from .. import atomics, balance, cfg, core, inline, model
from ..effects import ZERO, vget
from ..facts import operand_local, operand_place
from . import c03, c04, c14

PROP = "C17"
SER = "serde_core::ser::Serialize"
DE = "serde_core::de::Deserialize"


def _uses_of(b, l):
    """Operands (move/copy) of local l across the body: list of ('call', term, argidx) | ('stmt', stmt)."""
    out = []
    for bl in b["blocks"]:
        for s in bl["stmts"]:
            if s["k"] != "assign":
                continue
            rv = s["rv"]
            ops = []
            if rv["k"] in ("use", "cast", "repeat"):
                ops = [rv["op"]]
            elif rv["k"] == "unop":
                ops = [rv["a"]]
            elif rv["k"] == "binop":
                ops = [rv["a"], rv["b"]]
            elif rv["k"] == "agg":
                ops = rv["ops"]
            elif rv["k"] in ("ref", "rawptr", "discr"):
                if rv["place"]["l"] == l:
                    out.append(("stmt", s))
            for o in ops:
                pl = operand_place(o)
                if pl is not None and pl["l"] == l:
                    out.append(("stmt", s))
        t = bl["term"]
        if t["k"] == "call":
            for i, a in enumerate(t["args"]):
                pl = operand_place(a)
                if pl is not None and pl["l"] == l:
                    out.append(("call", t, i))
        elif t["k"] == "drop" and t["place"]["l"] == l:
            out.append(("drop", t))
    return out


def linear_into_call(b, l, t, argidx, depth=0):
    """Local l is used exactly once (drops on unwind paths aside): moved, possibly through temporaries, into t.args[argidx]."""
    uses = [u for u in _uses_of(b, l) if u[0] != "drop"]
    if len(uses) != 1 or depth > 6:
        return False
    u = uses[0]
    if u[0] == "call":
        return u[1] is t and u[2] == argidx and "mv" in t["args"][argidx]
    s = u[1]
    if s["rv"]["k"] == "use" and "mv" in s["rv"]["op"] and not s["lhs"]["p"] and not s["rv"]["op"]["mv"]["p"]:
        return linear_into_call(b, s["lhs"]["l"], t, argidx, depth + 1)
    return False


def sole_consumer(b, l, depth=0):
    """The single non-drop use of local l, following plain moves: ('call', term, argidx) or None."""
    uses = [u for u in _uses_of(b, l) if u[0] != "drop"]
    if len(uses) != 1 or depth > 6:
        return None
    u = uses[0]
    if u[0] == "call":
        return u
    s = u[1]
    if s["rv"]["k"] == "use" and "mv" in s["rv"]["op"] and not s["lhs"]["p"] and not s["rv"]["op"]["mv"]["p"]:
        return sole_consumer(b, s["lhs"]["l"], depth + 1)
    return None


def run(ctx, rep):
    # "a new handle holding the deserialised value": whatever constructor the impls use writes the value it is given into the
    # payload field before the handle exists (R-INIT of C06 over every allocation-to-handle region of the crate)
    from . import c06

    def scope(F):
        cache = F.__dict__.setdefault("_serde_scope", None)
        if cache is None:
            roots = [b for h in ("Arc", "UniqueArc") for b in F.method(h, "deserialize", "Deserialize")]
            cache = F.__dict__["_serde_scope"] = balance.scope_closure(F, roots)
        return cache

    c06.rule_init(ctx, rep, scope=scope)  # (the constructors the Deserialize impls reach)
    balance.rule_payload_gap(ctx, rep)  # a failing or panicking deserialiser leaves every handle it was given (`deserialize_in_place`) holding a live value
    balance.rule_racy_assert(ctx, rep, strict=True)  # "exactly the calls ... errors included": no assertion on re-read counts that another owner's clone or drop can falsify in the middle of a (de)serialisation
    balance.rule_write_provenance(ctx, rep)  # "the sole owner": the pointer the constructors store may be written through (get_mut, the final drop)
    rep.floor("R-PROVENANCE", 4, "handle literals in the crate's constructors (today 30+)")
    # "a *new* handle that is the sole owner": no method of the serde impls - the provided ones they may override included
    # (`deserialize_in_place`) - writes into a payload that other handles may share, unless behind the Acquire uniqueness gate
    from . import c03

    def serde_members(F):
        out = set()
        for b in F.body_list:
            im = b.get("impl") or {}
            if (im.get("trait") or "").split("::")[-1] in ("Deserialize", "Serialize") and F.handle_name(im.get("self_ty", -1)):
                out.add(b["key"])
        return out | set(scope(F))

    c03.rule_gate_for(ctx, rep, serde_members)
    seen_cfg = 0
    for tag, F, E in ctx.each():
        A = balance.analysis(tag, F, E)
        if not any("feature=serde" == c for c in F.raw["cfg"]):
            rep.notes.append("configuration %s is built without the serde feature: nothing to check there" % tag)
            continue
        seen_cfg += 1
        DT = c14.deref_targets(F)
        for h in ("Arc", "UniqueArc"):
            # ---------------- serialize
            bs = F.method(h, "serialize", "Serialize")
            if not bs:
                rep.bad("ANCHOR-LOST", "R-SERDE/%s::serialize" % h, "Serialize impl for %s is missing in a serde-enabled configuration" % h, None, tag)
            for b in bs:
                b = inline.inlined(F, b["key"]) or b  # a private helper shared by the impls is judged as part of each
                B = cfg.Body(b)
                key = b["key"]
                user_calls = [(bi, t) for bi, t in B.calls() if not isinstance(t.get("resolved"), dict) and not (t.get("resolved") is None)]
                user_calls = [(bi, t) for bi, t in B.calls() if t.get("resolved") == "unresolved" or t.get("indirect")]
                ok = True
                why = None
                sdeleg = [(bi, t) for bi, t in B.calls() if atomics.callee_of(t) in F.bodies and (F.body(atomics.callee_of(t)).get("impl") or {}).get("trait") == SER and F.body(atomics.callee_of(t)).get("name") == "serialize" and F.handle_name(F.body(atomics.callee_of(t))["impl"]["self_ty"]) in ("Arc", "UniqueArc") and atomics.callee_of(t) != key]
                if not user_calls and len(sdeleg) == 1:
                    # `UniqueArc::serialize` = the wrapped handle's `serialize` (judged by this same rule): same value, same calls
                    bi, t = sdeleg[0]
                    if not linear_into_call(b, 2, t, 1):
                        ok, why = False, "the serializer is not handed, exactly once and by move, to the delegate's serialize"
                    o = B.origin_local(0)
                    if not ((t["dest"]["l"] == 0 and not t["dest"]["p"]) or (o.get("kind") == "call" and o["term"] is t)):
                        ok, why = False, "the delegate's result is not returned unchanged"
                    vl = operand_place(t["args"][0])
                    if vl is None or 1 not in c03.root_args(B, vl["l"]):
                        ok, why = False, "the handle passed to the delegate's serialize does not derive from `self`"
                elif len(user_calls) != 1:
                    ok, why = False, "expected exactly one call into user code (the payload's Serialize::serialize), found %d: %s" % (len(user_calls), [atomics.callee_of(t) for _b, t in user_calls])
                else:
                    bi, t = user_calls[0]
                    if t.get("callee_trait") != SER or t.get("callee_name") != "serialize":
                        ok, why = False, "the one user call is %s, not the payload's Serialize::serialize" % atomics.callee_of(t)
                    else:
                        # Self of the delegate is the handle's whole Deref target
                        names, tgt = DT.get(h, ([], None))
                        st = F.ty(b["impl"]["self_ty"])
                        actual = [c14.render(F, a["t"], {}) for a in st["args"] if "t" in a]
                        expect = c14.render(F, tgt, {n: s for n, s in zip(names, actual) if n}) if tgt is not None else None
                        got = c14.render(F, t["callee_self"], {})
                        if expect is None or got != expect:
                            ok, why = False, "serialises %s instead of the value the handle holds (%s)" % (got, expect)
                        # the serializer parameter is moved into that call and used nowhere else
                        if not linear_into_call(b, 2, t, 1):
                            ok, why = False, "the serializer is not handed, exactly once and by move, to the payload's serialize"
                        # the result is returned as is
                        if not (t["dest"]["l"] == 0 and not t["dest"]["p"]):
                            o = B.origin_local(0)
                            if not (o.get("kind") == "call" and o["term"] is t):
                                ok, why = False, "the payload serializer's result is not returned unchanged"
                        # the value argument derives from self through Deref only
                        vl = operand_place(t["args"][0])
                        if vl is None or 1 not in c03.root_args(B, vl["l"]):
                            ok, why = False, "the value passed to the payload's serialize does not derive from `self`"
                # no count/ownership event at all
                for p in A.paths[key]:
                    if p.exit == "ret" and not c04.is_zero(p.vec):
                        ok, why = False, balance.path_report(F, b, p, "serialising must not touch count or ownership")
                if ok:
                    rep.ok("R-SERDE", key, cfg=tag)
                    rep.sample({"rule": "R-SERDE", "impl": key, "shape": "serializer moved once into <payload as Serialize>::serialize; result returned unchanged"}) if tag == "default" else None
                else:
                    rep.bad("R-SERDE", key, why, F.loc(b), tag)
            # ---------------- deserialize
            bs = F.method(h, "deserialize", "Deserialize")
            if not bs:
                rep.bad("ANCHOR-LOST", "R-SERDE/%s::deserialize" % h, "Deserialize impl for %s is missing in a serde-enabled configuration" % h, None, tag)
            for b in bs:
                b = inline.inlined(F, b["key"]) or b
                B = cfg.Body(b)
                key = b["key"]
                ok = True
                why = None
                user_calls = [(bi, t) for bi, t in B.calls() if t.get("resolved") == "unresolved" or t.get("indirect")]
                deleg = [(bi, t) for bi, t in B.calls() if atomics.callee_of(t) in F.bodies and (F.body(atomics.callee_of(t)).get("impl") or {}).get("trait") == DE and F.body(atomics.callee_of(t)).get("name") == "deserialize" and F.handle_name(F.body(atomics.callee_of(t))["impl"]["self_ty"]) in ("Arc", "UniqueArc") and atomics.callee_of(t) != key]
                if not user_calls and len(deleg) == 1:
                    # `Arc::deserialize` = the other handle's `deserialize` (judged by this same rule) followed by a count-neutral
                    # conversion of the `Ok` value
                    bi, t = deleg[0]
                    if not linear_into_call(b, 1, t, 0):
                        ok, why = False, "the deserializer is not handed, exactly once and by move, to the delegate's deserialize"
                    cons = sole_consumer(b, t["dest"]["l"])
                    o0 = B.origin_local(0)
                    if o0.get("kind") == "call" and o0["term"] is t:
                        pass  # returned as is
                    elif cons is not None and atomics.callee_of(cons[1]) == "<core::result::Result<T, E>>::map" and cons[2] == 0:
                        conv_ok = False
                        for a in cons[1]["resolved"]["args"]:
                            if "t" in a:
                                tt = F.ty(a["t"])
                                if tt["k"] in ("fndef", "closure") and tt["def"] in F.bodies and c03.is_move_class(E, tt["def"]):
                                    conv_ok = True
                                if tt["k"] == "fndef" and tt["def"].rsplit("::", 1)[0] in F.handle_paths.values() and tt["def"].rsplit("::", 1)[0] == F.handle_paths.get(tt["def"].rsplit("::", 1)[1]):
                                    conv_ok = True  # the tuple-struct constructor of a handle that wraps another (`UniqueArc(arc)`): one owner in, one out
                        if not conv_ok:
                            ok, why = False, "the function mapped over the delegate's Ok value is not a count-neutral handle conversion"
                    else:
                        ok, why = False, "the delegate's Result is consumed by something other than a single `Result::map` with a count-neutral conversion"
                elif len(user_calls) != 1:
                    ok, why = False, "expected exactly one call into user code (the payload's Deserialize::deserialize), found %d: %s" % (len(user_calls), [atomics.callee_of(t) for _b, t in user_calls])
                else:
                    bi, t = user_calls[0]
                    if t.get("callee_trait") != DE or t.get("callee_name") != "deserialize":
                        ok, why = False, "the one user call is %s, not the payload's Deserialize::deserialize" % atomics.callee_of(t)
                    else:
                        if not linear_into_call(b, 1, t, 0):
                            ok, why = False, "the deserializer is not handed, exactly once and by move, to the payload's deserialize"
                        # its Result is consumed only by Result::map with a fresh-sole-owner constructor, whose result is returned
                        rl = t["dest"]["l"]
                        cons = sole_consumer(b, rl)
                        if cons is not None and cons[2] == 0 and model.classify(atomics.callee_of(cons[1]) or "")[0] == model.TRY_BRANCH:
                            # `Ok(Ctor(T::deserialize(d)?))`: Err goes back through from_residual at the very same error type
                            # (identity `From`), Ok's payload feeds one fresh-sole-owner constructor whose result is wrapped in `Ok`
                            bt = cons[1]
                            rest = [(bj, t3) for bj, t3 in B.calls() if t3 is not t and t3 is not bt]
                            fr = [t3 for _bj, t3 in rest if model.classify(atomics.callee_of(t3) or "")[0] == model.FROM_RESIDUAL]
                            ctors = [t3 for _bj, t3 in rest if atomics.callee_of(t3) in F.bodies and c03.is_new_class(E, atomics.callee_of(t3))]
                            other = [t3 for _bj, t3 in rest if t3 not in fr and t3 not in ctors]
                            if len(fr) != 1 or len(ctors) != 1 or other:
                                ok, why = False, "with `?` the only further calls may be one from_residual and one fresh-sole-owner constructor; found %s" % [atomics.callee_of(t3) for _bj, t3 in rest]
                            else:
                                r = fr[0].get("resolved")
                                targs = [a["t"] for a in (r["args"] if isinstance(r, dict) else fr[0].get("callee_args") or []) if "t" in a]
                                if fr[0]["dest"]["l"] != 0 or fr[0]["dest"]["p"] or len(targs) != 3 or targs[1] != targs[2]:
                                    ok, why = False, "the error is converted on its way out (from_residual between different error types): it must be passed through unchanged"
                                ao = B.origin(ctors[0]["args"][0]) if ctors[0]["args"] else {}
                                if not (ao.get("kind") == "place" and ao["place"]["l"] == bt["dest"]["l"]):
                                    ok, why = False, "the constructor's argument is not the value the payload's deserializer produced"
                                wrapped = False
                                for bl in b["blocks"]:
                                    for st in bl["stmts"]:
                                        if st["k"] == "assign" and st["lhs"]["l"] == 0 and not st["lhs"]["p"] and st["rv"]["k"] == "agg" and st["rv"].get("adt") == "core::result::Result" and st["rv"].get("variant") == "Ok":
                                            oo = B.origin(st["rv"]["ops"][0])
                                            wrapped = oo.get("kind") == "call" and oo["term"] is ctors[0]
                                if not wrapped:
                                    ok, why = False, "the constructed handle is not what is returned in `Ok`"
                        elif cons is None or atomics.callee_of(cons[1]) != "<core::result::Result<T, E>>::map" or cons[2] != 0:
                            ok, why = False, "the payload deserializer's Result is consumed by something other than a single `Result::map` (which leaves Err untouched): %s" % (atomics.callee_of(cons[1]) if cons else "several uses")
                        else:
                            mt = cons[1]
                            # a chain of `map`s (each leaves Err untouched): `.map(Box::new).map(Arc::from)` - every step but one
                            # re-wraps the value without touching a count (`Box::new`), exactly one builds the fresh sole owner
                            chain = [mt]
                            for _ in range(4):
                                nxt = sole_consumer(b, chain[-1]["dest"]["l"]) if not chain[-1]["dest"]["p"] else None
                                if nxt is not None and atomics.callee_of(nxt[1]) == "<core::result::Result<T, E>>::map" and nxt[2] == 0:
                                    chain.append(nxt[1])
                                else:
                                    break
                            o = B.origin_local(0)
                            if not (chain[-1]["dest"]["l"] == 0 or (o.get("kind") == "call" and o["term"] is chain[-1])):
                                ok, why = False, "the mapped Result is not what is returned"
                            n_ctor, n_other = 0, 0
                            from .. import implsel as _implsel

                            for m_ in chain:
                                step = None
                                for a in m_["resolved"]["args"]:
                                    if "t" in a:
                                        tt = F.ty(a["t"])
                                        if tt["k"] in ("fndef", "closure"):
                                            k_ = tt["def"] if tt["def"] in F.bodies else (_implsel.fn_item(F, a["t"])[0] if tt["k"] == "fndef" else None)
                                            if k_ in F.bodies and c03.is_new_class(E, k_):
                                                step = "ctor"
                                            elif tt["k"] == "fndef" and tt["def"] in ("alloc::boxed::Box::<T>::new", "<alloc::boxed::Box<T>>::new", "alloc::boxed::Box::new", "<alloc::boxed::Box<T, alloc::alloc::Global>>::new"):
                                                step = "box"
                                            elif step is None:
                                                step = "other"
                                if step == "ctor":
                                    n_ctor += 1
                                elif step != "box":
                                    n_other += 1
                            ctor_ok = n_ctor == 1 and n_other == 0
                            if not ctor_ok:
                                ok, why = False, "the function mapped over Ok is not a constructor that builds one fresh block with count 1 and one owner"
                vecs = [p.vec for p in A.paths[key] if p.exit == "ret"]
                msg = c04.check_class("NEW-OR-NOTHING", vecs)
                if msg:
                    ok, why = False, msg
                # no allocation may precede the user call on any path
                for p in A.paths[key]:
                    seen_alloc = False
                    for e in p.events:
                        if vget(e["vec"], "alloc") and e["kind"] != "HO":
                            seen_alloc = True
                        if e["kind"] == "USER" and seen_alloc:
                            ok, why = False, balance.path_report(F, b, p, "a block is allocated before the payload's deserializer runs: an error would leave it behind")
                if ok:
                    rep.ok("R-SERDE", key, cfg=tag)
                else:
                    rep.bad("R-SERDE", key, why, F.loc(b), tag)
    # any further method of the serde impls (e.g. an overridden `deserialize_in_place`) must not write into a shared value:
    # "deserialising produces a new handle that is the sole owner"
    for tag, F, E in ctx.each():
        if not any("feature=serde" == c for c in F.raw["cfg"]):
            continue
        G = c03.Gates(F)
        for b in F.body_list:
            imp = b.get("impl") or {}
            if imp.get("trait") not in (SER, DE) or F.handle_name(imp["self_ty"]) not in ("Arc", "UniqueArc") or b.get("name") in ("serialize", "deserialize"):
                continue
            bad = c03.unjustified_producers(F, E, G, b)
            ik = b["key"]
            if bad:
                rep.bad("R-SERDE", ik, "%s writes into the value of a handle that may be shared (line %s): deserialisation must yield a fresh sole owner, never change what other owners see" % (b["key"], bad[0][1]["line"]), F.loc(b, bad[0][1]), tag)
            else:
                rep.ok("R-SERDE", ik, cfg=tag)
    # the impls exist for exactly the payloads that have the trait themselves: `T: Serialize` / `T: Deserialize<'de>` with the
    # impl's own `'de` (a stronger bound such as `DeserializeOwned` silently drops zero-copy payloads like `&'de str`; a weaker
    # one could not delegate)
    for tag, F, E in ctx.each():
        if not any("feature=serde" == c for c in F.raw["cfg"]):
            continue
        for im in F.impls:
            tr = im.get("trait")
            if tr not in (SER, DE) or F.handle_name(im["self_ty"]) not in ("Arc", "UniqueArc"):
                continue
            ik = "bounds/%s for %s" % (tr.split("::")[-1], F.ts(im["self_ty"]))
            st = F.ty(im["self_ty"])
            params = [F.ty(a["t"]) for a in st.get("args", []) if "t" in a]
            if len(params) != 1 or params[0]["k"] != "param":
                rep.bad("R-SERDE", ik, "the impl is not on the fully generic handle (%s)" % st["s"], None, tag)
                continue
            pname = params[0]["name"]
            got = []
            for p in im["preds"]:
                if p["kind"] != "trait" or p["trait"] in ("core::marker::Sized",):
                    if p["kind"] in ("type_outlives", "region_outlives", "projection", "other"):
                        got.append(p["s"])
                    continue
                got.append(p["s"])
            want_trait = tr
            exact = [p for p in im["preds"] if p["kind"] == "trait" and p["trait"] == want_trait and F.ty(p["self"])["k"] == "param" and F.ty(p["self"])["name"] == pname]
            extra = [x for x in got if not any(x == p["s"] for p in exact)]
            ok = len(exact) == 1 and not extra
            if ok and tr == DE:
                # the payload's lifetime argument is the impl's own `'de`
                ia = [a.get("r") for a in im.get("trait_args", []) if "r" in a]
                pa = [a.get("r") for a in exact[0].get("args", []) if "r" in a]
                ok = bool(ia) and ia == pa
            if ok:
                rep.ok("R-SERDE", ik, exact[0]["s"], cfg=tag)
            else:
                rep.bad("R-SERDE", ik, "the impl's bounds are %s; required exactly `%s: %s%s`: with a different bound some payloads that (de)serialise on their own lose the handle's impl (e.g. `DeserializeOwned` excludes borrowed payloads such as `&'de str`), or the delegation is not to the payload's own impl" % (got, pname, tr.split("::")[-1], "<'de>" if tr == DE else ""), "%s:%s" % (im["span"]["file"], im["span"]["line"]), tag)
    if seen_cfg == 0:
        rep.bad("ANCHOR-LOST", "R-SERDE/configurations", "no analysed configuration enables the serde feature (it is on by default)", None, None)
    rep.floor("R-SERDE", 8, "serialize and deserialize for Arc and UniqueArc + the four impl headers")


def main(argv):
    return core.run_property(
        PROP,
        "other",
        run,
        argv,
        explanation=(
            "Linear-use shape of the four serde methods, from MIR def-use. serialize: exactly one call into user code, "
            "`<payload as Serialize>::serialize` on the handle's whole Deref target, with a value derived from `self`; the serializer parameter is "
            "moved into that call and used nowhere else; the call's result is the return value; no count/ownership event. By parametricity in S the "
            "serializer sees exactly the payload's call sequence, errors included. deserialize: exactly one user call, "
            "`<payload as Deserialize>::deserialize`, taking the deserializer by move; its Result is consumed only by `Result::map` (Err passes "
            "through untouched, callable not invoked) with a constructor whose summary is one fresh block, count 1, one owner; nothing is allocated "
            "before the payload's deserializer has returned; path set = {nothing, one fresh sole owner}. Not decided: the payload's own impls."
            " Added later: R-GATE over every method of the serde impls (no write into a payload other handles may share, e.g. in an overridden `deserialize_in_place`); the two handles' impls may delegate to each other."
            " Round thirteen: R-PROVENANCE over every handle literal (the sole owner's pointer may be written through)."
            ' Round sixteen: strict R-RACY-ASSERT (including two readings of the count compared with each other).'
            ' Round eighteen: R-PAYLOAD-GAP as a premise (a failing deserialiser leaves every handle it was given holding a live value).'
        ),
        rule_text="instances = the four serde methods (in every serde-enabled configuration)",
        trusted_base=["rustc MIR/def-use", "Result::map calls its function only on Ok and returns Err unchanged", "parametricity"],
        assumptions=["the payload's Serialize/Deserialize impls are what `T: Serialize/Deserialize` promises"],
    )
