"""C09 - unwrapping conserves the value: handed out once or kept, never both or neither."""
from .. import balance, cfg, core
from ..effects import ZERO, vget
from ..facts import operand_local, operand_place
from . import c04
from .. import inline

PROP = "C09"


def rule_unwrap(ctx, rep):
    for tag, F, E in ctx.each():
        A = balance.analysis(tag, F, E)
        spec = [("Arc", "try_unique", None, "ZERO"), ("UniqueArc", "try_from", "TryFrom", "ZERO"), ("Arc", "try_unwrap", None, "UNWRAP"),
                ("UniqueArc", "into_inner", None, "INTO-INNER"), ("Arc", "unwrap_or_clone", None, "UNWRAP-OR-CLONE")]
        for h, name, trait, cls in spec:
            bs = F.method(h, name, trait)
            if not bs:
                rep.bad("ANCHOR-LOST", "R-UNWRAP/%s::%s" % (h, name), "unwrap-family API named by the property is missing", None, tag)
                continue
            for b in bs:
                key = b["key"]
                prs = [p for p in A.paths[key] if p.exit == "ret"]
                msg = c04.check_class(cls, [p.vec for p in prs])
                if msg:
                    rep.bad("R-UNWRAP", key + "/path-set", msg, F.loc(b), tag)
                else:
                    rep.ok("R-UNWRAP", key + "/path-set", cfg=tag)
                # the payload's destructor never runs on a path that moves the value out
                bad = [p for p in prs if vget(p.vec, "free_raw") and vget(p.vec, "user") and name in ("into_inner", "try_unwrap")]
                if bad:
                    rep.bad("R-UNWRAP", key + "/no-destructor", balance.path_report(F, b, bad[0], "user code (the payload's destructor) runs on the path that moves the value out: the caller would receive a destroyed value"), F.loc(b), tag)
                elif name in ("into_inner", "try_unwrap"):
                    rep.ok("R-UNWRAP", key + "/no-destructor", cfg=tag)
        # into_inner: DATA is moved to the return place
        for b0 in F.method("UniqueArc", "into_inner"):
            b = inline.inlined(F, b0["key"]) or b0  # the move may sit in a private helper shared with Arc::try_unwrap
            moved = False
            for bl in b["blocks"]:
                for s in bl["stmts"]:
                    if s["k"] == "assign" and s["lhs"]["l"] == 0 and not s["lhs"]["p"] and s["rv"]["k"] == "use" and "mv" in s["rv"]["op"]:
                        pl = s["rv"]["op"]["mv"]
                        if pl["p"] and isinstance(pl["p"][-1], dict) and pl["p"][-1].get("adt") == F.inner_path and F.data_field and pl["p"][-1].get("f") == F.data_field[0]:
                            moved = True
            if not moved:
                # through a binding: `let ArcInner { data, .. } = *boxed; data`
                o = cfg.Body(b).origin_local(0)
                pl = o.get("place") if o.get("kind") == "place" else None
                if pl and pl["p"] and isinstance(pl["p"][-1], dict) and pl["p"][-1].get("adt") == F.inner_path and F.data_field and pl["p"][-1].get("f") == F.data_field[0]:
                    moved = True
            if not moved:
                # bitwise move out of the payload field: `ptr::read(addr_of!((*p).data))` (the block is then freed without
                # running the payload's destructor - R-UNWRAP/no-destructor)
                B0 = cfg.Body(b)
                o = B0.origin_local(0)
                if o.get("kind") == "call" and (o["term"].get("callee") or "") in ("core::ptr::read", "<*const T>::read", "<*mut T>::read", "<core::ptr::non_null::NonNull<T>>::read") and o["term"]["args"]:
                    o2 = B0.origin(o["term"]["args"][0])
                    pl = o2["rv"]["place"] if o2.get("kind") == "rvalue" and o2["rv"]["k"] in ("ref", "rawptr") else None
                    if pl and pl["p"] and isinstance(pl["p"][-1], dict) and pl["p"][-1].get("adt") == F.inner_path and F.data_field and pl["p"][-1].get("f") == F.data_field[0]:
                        moved = True
                    if not moved:
                        # ... or of the payload address however it is obtained (`ptr::read(this.as_ptr())`): the pointer's normal
                        # form is "the data field of the block the parameter's stored pointer refers to"
                        from .. import ptrclass as _pc, symx as _sx0

                        n = _pc.Norm(F).norm(_sx0.expr(F, B0, o["term"]["args"][0]), {})
                        x = n[1] if n[0] == "data" else None
                        while x is not None and x[0] == "stored":
                            x = x[1]
                        if x == ("arg", 1):
                            moved = True
            if not moved:
                # through a checked helper's `Ok(value)` (`match take_if_unique(this.0) { Ok(data) => data, .. }`): on every
                # returning path (path-sensitive summary of the inlined body) the result is the block's payload field
                from .. import symx as _sx

                cs = _sx.path_cases(F, b)
                if cs:
                    def is_data(e):
                        while e[0] in ("cast", "addr"):
                            e = e[2] if e[0] == "cast" else e[1]
                        return e[0] == "proj" and e[2] and e[2][-1] == F.data_field[1]

                    moved = all(is_data(v) for _c, v in cs)
            if moved:
                rep.ok("R-UNWRAP", b["key"] + "/moves-data", cfg=tag)
            else:
                rep.bad("R-UNWRAP", b["key"] + "/moves-data", "the returned value is not moved out of the block's payload field", F.loc(b), tag)
    rule_decline(ctx, rep)
    rep.floor("R-UNWRAP", 8, "five functions: path sets, destructor-free move-out, data move")


def rule_decline(ctx, rep):
    for tag, F, E in ctx.each():
        A = balance.analysis(tag, F, E)
        # R-DECLINE: the very same handle comes back
        # role: every function returning Result<UniqueArc-ish, the handle itself> can decline
        cands = []
        for b in F.body_list:
            if b["kind"] not in ("Fn", "AssocFn") or "output" not in b:
                continue
            ot = F.ty(b["output"])
            if ot["k"] == "adt" and ot["path"] == "core::result::Result":
                okt, errt = [a["t"] for a in ot["args"] if "t" in a][:2]
                if F.handle_name(F.strip_refs(okt)) == "UniqueArc" and F.handle_name(F.strip_refs(errt)) == "Arc" and b.get("inputs") and F.handle_name(F.strip_refs(b["inputs"][0])) == "Arc":
                    B0 = cfg.Body(b)
                    if any(s["k"] == "assign" and s["rv"]["k"] == "agg" and s["rv"].get("variant") == "Err" for bl in b["blocks"] for s in bl["stmts"]):
                        cands.append(b)
        for _once in (1,):
            for b in cands:
                B = cfg.Body(b)
                ok = False
                why = "no `Err(param)` construction found"
                for bl in b["blocks"]:
                    for s in bl["stmts"]:
                        if s["k"] == "assign" and s["rv"]["k"] == "agg" and s["rv"].get("variant") == "Err" and s["rv"].get("adt") == "core::result::Result":
                            o = B.origin(s["rv"]["ops"][0])
                            if o.get("kind") == "rvalue" and o["rv"]["k"] == "ref" and o["rv"]["place"]["p"] == ["deref"]:
                                o = B.origin_local(o["rv"]["place"]["l"])  # reborrow of a `&mut` parameter
                            if o.get("kind") == "arg" and o["arg"] == 1:
                                ok = True
                            else:
                                ok, why = False, "the declined handle returned in Err is not the parameter itself (%s)" % o.get("kind")
                if ok:
                    rep.ok("R-DECLINE", b["key"], cfg=tag)
                else:
                    rep.bad("R-DECLINE", b["key"], why, F.loc(b), tag)
                # gate-false edge: no events
                bad = [p for p in A.paths[b["key"]] if p.exit == "ret" and p.tag == "Err" and any(e["vec"] != ZERO for e in p.events)]
                if bad:
                    rep.bad("R-DECLINE", b["key"] + "/zero-events", balance.path_report(F, b, bad[0], "the decline path must not touch count or ownership"), F.loc(b), tag)
                else:
                    rep.ok("R-DECLINE", b["key"] + "/zero-events", cfg=tag)
    rep.floor("R-DECLINE", 4, "the by-value and the by-reference checked conversions to UniqueArc")


def run(ctx, rep):
    balance.rule_unique_view(ctx, rep)  # nothing lends out the shared handle inside a UniqueArc: "sole owner by type" stays true
    rule_unwrap(ctx, rep)
    # premise of every verdict on "sole owner": the count equals the number of owning handles on every path of every
    # operation, unwinding included (the balance rules of C01/C04)
    # (global: the histories quantified over contain operations of every handle kind, and a count that no longer equals the
    # number of owners - wherever it was broken - falsifies the sole-owner verdict these functions act on)
    balance.rule_bal(ctx, rep)
    balance.rule_unw(ctx, rep)
    balance.rule_racy_assert(ctx, rep, strict=True)  # no assertion about a re-read count that a racing clone or drop can falsify: the operation would panic where it must succeed or decline
    from . import c12 as _c12

    _c12.union_dispatch(ctx, rep)  # ... including owners held by an ArcUnion: they are counted on the block of the Arc they were made from
    from . import c11 as _c11

    _c11.rule_refcnt_pair(ctx, rep)  # ... and owners lent by arc-swap: a guard's debt is settled by comparing `as_ptr` with `into_ptr`; if the glue lets them differ a count nobody owned is released and a co-owner is taken for the sole owner
    from . import c03

    c03.rule_gate_def(ctx, rep)  # exactly-one-winner under races rests on the Acquire gate (and on C02)

    def family(F):
        # (every function that hands out a UniqueArc: `into_inner` trusts the type, whoever built the value)
        for b in F.body_list:
            if b["kind"] in ("Fn", "AssocFn") and "output" in b and F.mentions_adt(b["output"], F.handle_paths.get("UniqueArc", "-")):
                yield b["key"]
        for h, name, tr in (("Arc", "try_unique", None), ("Arc", "try_unwrap", None), ("Arc", "unwrap_or_clone", None), ("UniqueArc", "try_from", "TryFrom"), ("UniqueArc", "into_inner", None), ("UniqueArc", "from_arc", None), ("UniqueArc", "from_arc_ref", None)):
            for b in F.method(h, name, tr):
                yield b["key"]

    from . import c01 as _c01

    _c01.rule_destroy(ctx, rep)  # whoever ends up the last owner - an unwrap that observed 1 from its own decrement included - destroys or moves out the value once and frees the block once (shapes S1-S3)
    from . import c05

    c05.rule_free_type(ctx, rep)  # "the allocation is released": the sole owner gives the block back as the type (and layout) it was handed out as
    c03.rule_gate_for(ctx, rep, family)  # every way these functions come to hold a UniqueArc is behind the Acquire gate
    rep.floor("R-GATE", 2, "UniqueArc constructions / unchecked-constructor call sites in the unwrap family")


def main(argv):
    return core.run_property(
        PROP,
        "other",
        run,
        argv,
        explanation=(
            "Path-set shape of try_unique, TryFrom<Arc>, try_unwrap, UniqueArc::into_inner, unwrap_or_clone from MIR paths with callee summaries: "
            "sole-owner path - the handle flows by moves into the UniqueArc; into_inner hides it from its destructor, moves the payload field to the "
            "return place, frees the block as the typed sole owner exactly once, and no user destructor runs; decline path - zero count/ownership "
            "events and the `Err` carries the parameter itself (unwrap_or_clone: one Clone::clone, then release of one owner). Exactly-one-winner "
            "under races is the conjunction of C02/C03 (each thread tests its own handle against 1). Not decided: run-time identity of the returned value."
            ' Added later: R-FREE-TYPE as a premise ("the allocation is released": the sole owner gives the block back as the type and layout it was handed out as); the payload read is recognised by pointer normal form.'
            ' R-DESTROY as a premise; R-UNIQUE-VIEW; the gate family is every function returning a UniqueArc.'
            ' Round thirteen/fourteen: R-RACY-ASSERT inside R-UNW (seed: `debug_assert!(count > 1)` with the handle disarmed); c12.union_dispatch as a premise.'
            ' Round nineteen: R-REFCNT-PAIR of C11 as a premise (seed: the arc-swap glue of Arc hands out the block pointer from into_ptr and the value pointer from as_ptr; a dropped load() guard then releases a count it never took and try_unwrap succeeds beside a live owner).'
            ' Round fifteen: strict R-RACY-ASSERT.'
        ),
        rule_text="instances = (function, path-set | no-destructor | moves-data | decline)",
        trusted_base=["rustc nightly MIR (moves, elaborated drops) and trait resolution", "std model table (Result::map / unwrap_or_else call their callable at most once)"],
        assumptions=["Clone::clone of the payload is ownership-balanced"],
    )
