"""C16 - reference-count overflow terminates the process instead of wrapping."""
from .. import atomics, balance, cfg, core, model
from ..effects import ZERO, vget
from ..facts import operand_const, operand_local, operand_place
from . import c04

PROP = "C16"


INT_BITS = {"u8": 8, "i8": 8, "u16": 16, "i16": 16, "u32": 32, "i32": 32, "u64": 64, "i64": 64, "u128": 128, "i128": 128}


def _ty_bits(F, ty_idx, wb):
    s = F.ts(ty_idx)
    if s in ("usize", "isize"):
        return wb, s[0] == "i"
    if s in INT_BITS:
        return INT_BITS[s], s[0] == "i"
    return None, False


def width_eval(F, B, op, wb, depth=0):
    """Value of an integer operand if the target's pointer width were `wb` bits: named std constants (`isize::MAX`, `usize::BITS`)
    are recomputed, casts truncate to the width of their target type, local constants are evaluated from their initialiser."""
    import re

    if depth > 12:
        return None
    c = operand_const(op)
    if c is not None:
        text = c.get("text") or ""
        m = re.search(r"<impl (\w+)>::(MAX|MIN|BITS)$", text)
        if m:
            nm, what = m.group(1), m.group(2)
            nb = wb if nm in ("usize", "isize") else INT_BITS.get(nm)
            if nb is None:
                return None
            signed = nm[0] == "i"
            if what == "BITS":
                return nb
            if what == "MAX":
                return (1 << (nb - 1)) - 1 if signed else (1 << nb) - 1
            return -(1 << (nb - 1)) if signed else 0
        for cb in F.raw.get("const_bodies", []):
            if cb["key"] == text or text.endswith("::" + cb["key"]) or cb["key"].endswith(text):
                CB = cfg.Body(cb)
                return width_eval(F, CB, {"cp": {"l": 0, "p": []}}, wb, depth + 1)
        if "int" in c:
            nb, _sg = _ty_bits(F, c["ty"], wb)
            v = c["int"]
            if nb is not None and v >= (1 << nb):
                return None  # a literal that does not fit the narrower type: such a program would not compile there
            return v
        return None
    pl = operand_place(op)
    if pl is None:
        return None
    if pl["p"]:
        if len(pl["p"]) == 1 and isinstance(pl["p"][0], dict) and pl["p"][0].get("f") == 0 and pl["p"][0].get("adt") == "(tuple)":
            d = B.single_def(pl["l"])
            if d and d[0] == "assign" and d[3]["k"] == "binop" and d[3]["op"].endswith("WithOverflow"):
                return _wfold(F, B, d[3]["op"][: -len("WithOverflow")], d[3], wb, depth)
        return None
    d = B.single_def(pl["l"])
    if d is None or d[0] != "assign":
        return None
    rv = d[3]
    if rv["k"] == "use":
        return width_eval(F, B, rv["op"], wb, depth + 1)
    if rv["k"] == "cast" and rv["cast"].startswith("IntToInt"):
        v = width_eval(F, B, rv["op"], wb, depth + 1)
        nb, signed = _ty_bits(F, rv["ty"], wb)
        if v is None or nb is None:
            return None
        v &= (1 << nb) - 1
        if signed and v >> (nb - 1):
            v -= 1 << nb
        return v
    if rv["k"] == "binop":
        return _wfold(F, B, rv["op"].replace("Unchecked", ""), rv, wb, depth)
    if rv["k"] == "unop" and rv["op"] == "Not":
        v = width_eval(F, B, rv["a"], wb, depth + 1)
        nb, _sg = _ty_bits(F, B.b["locals"][pl["l"]]["ty"], wb)
        if v is None or nb is None:
            return None
        return (~v) & ((1 << nb) - 1)
    return None


def _wfold(F, B, op, rv, wb, depth):
    x = width_eval(F, B, rv["a"], wb, depth + 1)
    y = width_eval(F, B, rv["b"], wb, depth + 1)
    if x is None or y is None:
        return None
    try:
        return {"Add": lambda: x + y, "Sub": lambda: x - y, "Mul": lambda: x * y, "Shl": lambda: x << y, "Shr": lambda: x >> y, "BitAnd": lambda: x & y,
                "BitOr": lambda: x | y, "BitXor": lambda: x ^ y, "Div": lambda: x // y, "Rem": lambda: x % y}[op]()
    except (KeyError, ZeroDivisionError, ValueError):
        return None


def _merged_with_small_consts(B, l, t, imax, depth=0):
    """`let old = if count.compare_exchange(1, 2, ..).is_ok() { 1 } else { count.fetch_add(1, ..) }`: the compared value is, on
    every path, either the increment's own result or a constant below the limit (the old value of a bounded compare-and-swap
    increment, judged on its own by the cas-bounded instance)."""
    if depth > 6:
        return False
    ds = B.defs().get(l, [])
    if len(ds) == 1 and ds[0][0] == "assign" and ds[0][3]["k"] == "use":
        pl = operand_place(ds[0][3]["op"])
        return pl is not None and not pl["p"] and _merged_with_small_consts(B, pl["l"], t, imax, depth + 1)
    if len(ds) < 2:
        return False
    seen_inc = False
    for d in ds:
        if d[0] == "call":
            if d[2] is t:
                seen_inc = True
                continue
            return False
        rv = d[3]
        if rv["k"] != "use":
            return False
        c = operand_const(rv["op"])
        if c is not None:
            if c.get("int") is None or not (0 <= c["int"] <= imax):
                return False
            continue
        o = B.origin(rv["op"])
        if o.get("kind") == "call" and o["term"] is t:
            seen_inc = True
            continue
        return False
    return seen_inc


def run(ctx, rep):
    from . import c12 as _c12

    _c12.union_dispatch(ctx, rep)  # a clone made through an ArcUnion increments - and tests - the count word of the Arc it holds, not a word at the other variant's offset
    from . import c05 as _c05

    _c05.rule_data_offset(ctx, rep)  # ... and a clone made from a value pointer (ArcBorrow, OffsetArc, from_raw) finds the count word at the payload's true offset: the guard must test the word that counts
    for tag, F, E in ctx.each():
        A = balance.analysis(tag, F, E)
        bits = F.pointer_bits
        imax = (1 << (bits - 1)) - 1
        incs = [(b, B, bi, t, o) for (b, B, bi, t, cls, o) in atomics.sites(F) if cls == model.ATOMIC_RMW_ADD and atomics.receiver_is_count(F, B, t)]
        # increments by compare-and-swap between two constants (`compare_exchange(1, 2, ..)`): bounded by construction - the count
        # they leave behind is the constant `new`, which must be nowhere near the limit
        cas = [(b, B, bi, t) for (b, B, bi, t, cls, o) in atomics.sites(F) if cls == model.ATOMIC_CAS and atomics.receiver_is_count(F, B, t)]
        for b, B, bi, t in cas:
            inc = atomics.cas_increment(t)
            ik = b["key"] + "/cas-bounded"
            if atomics.cas_test(t) is not None:
                continue  # `compare_exchange(k, k)`: changes nothing
            if inc is None:
                rep.bad("R-OVFGUARD", ik, "the count word is changed by a compare-and-swap whose operands are not constants with new > current: its effect on the count cannot be bounded", F.loc(b, t["span"]), tag)
            elif inc[1] - inc[0] != 1 or inc[1] > imax:
                rep.bad("R-OVFGUARD", ik, "the compare-and-swap moves the count from %d to %d: a clone adds exactly one owner, and stays below isize::MAX" % inc, F.loc(b, t["span"]), tag)
            else:
                rep.ok("R-OVFGUARD", ik, "%d -> %d" % inc, cfg=tag)
        if not incs and not cas:
            rep.bad("R-FUNNEL", "increment-sites", "no increment site of the count word found in the crate (anchor lost)", None, tag)
        # (several sites are fine - a handle kind may increment in its own Clone - as long as *each* one is guarded: R-OVFGUARD below
        # is judged per site, and every clone entry point reaches exactly one increment)
        work = []
        for b, B, bi, t, _o in incs:
            key = b["key"]
            loc = F.loc(b, t["span"])
            # addend is the constant 1
            c = operand_const(t["args"][1])
            if c is None or c.get("int") != 1:
                rep.bad("R-OVFGUARD", key + "/addend", "the increment does not add the constant 1", loc, tag)
            else:
                rep.ok("R-OVFGUARD", key + "/addend", cfg=tag)
            # the increment may sit in a private helper that hands the value the increment returned - unchanged - to its callers
            # (`fn acquire(&self) -> usize { self.count.fetch_add(1, Relaxed) }`): the guard is then judged in each caller, with
            # the call of the helper standing for the increment
            o0 = B.origin_local(0)
            raw = o0.get("kind") == "call" and o0["term"] is t or (t["dest"]["l"] == 0 and not t["dest"]["p"])
            has_switch_on_it = any(bl["term"]["k"] == "switch" and (atomics.compare_with_const(B, bl["term"]) or {}).get("src") is not None and B.origin_local(atomics.compare_with_const(B, bl["term"])["src"]).get("term") is t for bl in b["blocks"])
            callers = []
            if raw and not has_switch_on_it and not balance.is_api(F, b):
                for cb in F.body_list:
                    CB = None
                    for cbi, cbl in enumerate(cb["blocks"]):
                        ct = cbl["term"]
                        if ct["k"] == "call" and atomics.callee_of(ct) == key:
                            CB = CB or cfg.Body(cb)
                            callers.append((cb, CB, cbi, ct))
            work += callers if callers else [(b, B, bi, t)]
        for b, B, bi, t in work:
            key = b["key"]
            loc = F.loc(b, t["span"])
            # guard: a branch comparing the value RETURNED by the increment with a constant near isize::MAX
            dl = t["dest"]["l"]
            guard = None
            for sj, bl in enumerate(b["blocks"]):
                tt = bl["term"]
                if tt["k"] != "switch":
                    continue
                d = atomics.compare_with_const(B, tt)
                if not d:
                    continue
                o = B.origin_local(d["src"])
                if (o.get("kind") == "call" and o["term"] is t) or _merged_with_small_consts(B, d["src"], t, imax):
                    guard = (sj, tt, d)
                    break
            if guard is None:
                rep.bad("R-OVFGUARD", key + "/guard", "no branch compares the value returned by the increment with a constant: a count past isize::MAX would keep growing and eventually wrap (use-after-free)", loc, tag)
                continue
            sj, tt, d = guard
            op, k = d["op"], d["k"]
            thr_ok = (op == "Gt" and k == imax) or (op == "Ge" and k in (imax, imax + 1))
            cmp_ty = F.ts(b["locals"][d["src"]]["ty"]) if d.get("src") is not None and d["src"] < len(b["locals"]) else "usize"
            if cmp_ty.startswith("i"):
                # `old > isize::MAX` on a *signed* count (`AtomicIsize`) is never true: past the limit the value is negative
                rep.bad("R-OVFGUARD", key + "/threshold", "the overflow guard compares a signed value (%s) with %d: a count that has passed isize::MAX is negative in that type, so the guard can never trip and the count runs on to wrap" % (cmp_ty, k), F.loc(b, tt["span"]), tag)
                continue
            if not thr_ok:
                rep.bad("R-OVFGUARD", key + "/threshold", "the overflow guard is `old %s %d`; it must trip exactly when the count has passed isize::MAX (%d)" % ({"Gt": ">", "Ge": ">=", "Lt": "<", "Le": "<=", "Eq": "==", "Ne": "!="}[op], k, imax), F.loc(b, tt["span"]), tag)
            else:
                rep.ok("R-OVFGUARD", key + "/threshold", "old %s %d" % (op, k), cfg=tag)
                # the same on targets of another pointer width: the threshold is re-evaluated from its defining expression
                # (`i64::MAX as usize` equals isize::MAX on this host only)
                wrong = []
                for wb in (16, 32, 64):
                    v = width_eval(F, B, d["const_op"], wb)
                    wmax = (1 << (wb - 1)) - 1
                    if v is None:
                        wrong = None
                        break
                    good_w = (op == "Gt" and v == wmax) or (op == "Ge" and v in (wmax, wmax + 1))
                    if not good_w:
                        wrong.append((wb, v, wmax))
                if wrong is None:
                    rep.notes.append("threshold expression could not be re-evaluated for other pointer widths (only the host's value was checked): %s" % key)
                    rep.ok("R-OVFGUARD", key + "/threshold-widths", "not evaluable; host width checked", cfg=tag, nontrivial=False)
                elif wrong:
                    wb, v, wmax = wrong[0]
                    rep.bad("R-OVFGUARD", key + "/threshold-widths", "on a %d-bit target the overflow guard's threshold evaluates to %#x instead of isize::MAX (%#x): the guard never trips there (or trips on sound counts) - the constant is computed from a fixed-width integer" % (wb, v, wmax), F.loc(b, tt["span"]), tag)
                else:
                    rep.ok("R-OVFGUARD", key + "/threshold-widths", "isize::MAX on 16/32/64-bit targets", cfg=tag)
            # the tripped edge calls something that neither returns nor unwinds; the handle is built only on the other edge
            trip = [tgt for tgt, tv in d["truth"].items() if tv]
            safe = [tgt for tgt, tv in d["truth"].items() if not tv]
            make_bbs = set()
            for p in A.paths[key]:
                for e in p.events:
                    if e["kind"] == "MAKE" or (e["kind"] == "CALL" and vget(e["vec"], "make_agg") > 0):
                        make_bbs.add(e["bb"])  # the handle aggregate, or a local constructor that builds it (`from_raw_inner`)
            dom = B.dominators()
            ok_edges = True
            why = None
            for tgt in trip:
                exits = set()
                for p in A.paths[key]:
                    if tgt in p.blocks and sj in p.blocks:
                        exits.add(p.exit)
                if exits - {"div"}:
                    ok_edges, why = False, "past the limit the function can still %s: the overflow path must end the process (abort), not return or raise a catchable panic" % ("/".join(sorted("return" if x == "ret" else "unwind" for x in exits - {"div"})))
                if B.reach(tgt) & make_bbs:
                    ok_edges, why = False, "a handle is constructed on the overflow branch"
            # every path that performs *this* increment and goes on to construct the handle has passed the guard (a path that
            # took another, bounded way to its count - a successful `compare_exchange(1, 2)` - does not come through here)
            for p in A.paths[key]:
                if bi in p.blocks and (set(p.blocks) & make_bbs) and sj not in p.blocks:
                    ok_edges, why = False, "the new handle is constructed on a path that does not pass the overflow guard"
            if not make_bbs:
                # the guarded increment lives in a helper of its own (`fn acquire_ref(&self)`): the tripped edge cannot return
                # (checked above), so every caller that goes on to build the handle has passed the guard; the clone entry points
                # reaching this increment exactly once is R-FUNNEL
                if balance.is_api(F, b):
                    ok_edges, why = False, "no handle construction found after the increment (anchor lost)"
            if ok_edges:
                rep.ok("R-OVFGUARD", key + "/edges", cfg=tag)
                rep.sample({"rule": "R-OVFGUARD", "config": tag, "function": key, "guard": "old %s %d" % (op, k), "abort_edge_exits": "diverge only", "at": F.loc(b, tt["span"])})
            else:
                rep.bad("R-OVFGUARD", key + "/edges", why, F.loc(b, tt["span"]), tag)
            # R-ABORT: what is called on the tripped edge, per configuration
            for tgt in trip:
                tb = b["blocks"][tgt]["term"]
                if tb["k"] == "call":
                    callee = atomics.callee_of(tb)
                    if callee in F.bodies:
                        effs = E.summary(callee)
                        is_std = any(c == "feature=std" for c in F.raw["cfg"])
                        panics = is_std and any(e["kind"] in ("PANIC", "ASSERT-FAIL") for p in A.paths.get(callee, []) for e in p.events)
                        if panics:
                            rep.bad("R-ABORT", "%s[local, std]" % callee, "in a std build the overflow branch ends the process through a *panic* (the double-panic trick of the no_std build): the installed panic hook - user code - runs first, with the count already incremented, and a hook that does not return (logs and exits, parks the thread) means the process is never aborted; std builds have `std::process::abort`", F.loc(F.body(callee)), tag)
                        elif effs and all(e.exit == "div" for e in effs):
                            rep.ok("R-ABORT", "%s[local, %s]" % (callee, "std" if any(c == "feature=std" for c in F.raw["cfg"]) else "no_std"), "computed summary: no path returns, none unwinds", cfg=tag)
                        else:
                            rep.bad("R-ABORT", "%s[local, %s]" % (callee, "std" if any(c == "feature=std" for c in F.raw["cfg"]) else "no_std"), "the local abort routine can %s" % sorted(set(e.exit for e in effs)), F.loc(F.body(callee)), tag)
                    else:
                        cls, why2 = model.classify(callee)
                        if cls == model.DIVERGE:
                            rep.ok("R-ABORT", "%s[std]" % callee, why2, cfg=tag)
                        else:
                            rep.bad("R-ABORT", "%s[std]" % callee, "the overflow branch calls %s, which is not a process abort (class %s): a panic can be caught and the count keeps growing" % (callee, cls), F.loc(b, tb["span"]), tag)
                else:
                    rep.bad("R-ABORT", key + "/abort-call", "the overflow branch does not start with a call", F.loc(b, tb["span"]), tag)
        # R-FUNNEL: every clone entry point reaches the one increment exactly once
        for name in c04.TABLE["CLONE"]:
            bs = [b for b in F.body_list if c04.api_name(F, b) == name]
            if not bs:
                rep.bad("ANCHOR-LOST", "R-FUNNEL/" + name, "clone entry point named by the property is missing", None, tag)
            for b in bs:
                vecs = [p.vec for p in A.paths[b["key"]] if p.exit == "ret"]
                msg = c04.check_class("CLONE", vecs)
                if msg:
                    rep.bad("R-FUNNEL", b["key"], msg, F.loc(b), tag)
                else:
                    rep.ok("R-FUNNEL", b["key"], cfg=tag)
                # and cannot unwind past the guard with a raised count
                bad = [p for p in A.paths[b["key"]] if p.exit == "unw" and vget(p.vec, "inc") and p.origin in ("panic",)]
                if bad:
                    rep.bad("R-FUNNEL", b["key"] + "/no-panic", balance.path_report(F, b, bad[0], "a clone path raises a catchable panic after incrementing"), F.loc(b), tag)
    rep.floor("R-OVFGUARD", 3, "addend, threshold, edges")
    rep.floor("R-ABORT", 2, "std abort and the no_std double-panic abort")
    rep.floor("R-FUNNEL", 6, "six clone entry points")


def main(argv):
    return core.run_property(
        PROP,
        "other",
        run,
        argv,
        explanation=(
            "All clone paths funnel into one fetch_add of the constant 1 on the count word (R-FUNNEL: one site; each of the six clone entry points "
            "increments exactly once on every normal path). At that site (R-OVFGUARD) the value returned by the increment - not a re-loaded one - "
            "is compared with a constant evaluated by rustc for the target (`> isize::MAX`, or an equivalent >= form); every path through the "
            "tripped edge ends without returning and without unwinding, and the new handle is constructed only behind the guard's other edge. "
            "(R-ABORT) per configuration the tripped edge calls std::process::abort (std) or the crate's own routine (no_std) whose summary is "
            "computed from its MIR: the guard local's Drop always panics, so the cleanup of the first panic panics again, which aborts (language "
            "rule, trusted). Not decided: actually reaching 2^63 owners at run time."
            ' Added later: an increment by `compare_exchange(cur, new)` between constants is a bounded site (new - cur = 1, new below the limit) and the guard is judged per path; also decided on configuration arm32 (32-bit limit).'
            ' The union dispatch rules (a clone made through an ArcUnion increments and tests the count word of the Arc it holds).'
            " Round fourteen: R-OFFSET as a premise (a clone made from a value pointer tests the word at the payload's true offset); the guard may test a value merged from the increment's result and the constant old value of a bounded CAS increment."
            ' Round fifteen: R-ABORT refuses a panic-based abort in std configurations (the panic hook runs first).'
            " Round seventeen: the guard's comparison must be unsigned."
        ),
        rule_text="instances = guard clauses at the increment site, abort resolution per configuration, clone entry points",
        trusted_base=["rustc const evaluation of the limit and MIR", "panic while panicking aborts", "std::process::abort does not return or unwind"],
        assumptions=["the increment site is the only fetch_add on the count word (checked)"],
    )
