"""C03 - mutable access only for a sole owner, ordered after all former sharers."""
from .. import atomics, balance, cfg, core, model
from ..effects import ZERO, vget
from ..facts import operand_const, operand_local, operand_place
from . import c04

PROP = "C03"

# Frozen exemption (one symbol, with reason): DESIGN.md section 4/C03 and section 6.
EXEMPT = {
    "<arc::Arc<core::mem::maybe_uninit::MaybeUninit<T>>>::as_mut_ptr": "forms `&mut data` only to return it as a raw pointer (*mut MaybeUninit<T>): any write needs client `unsafe`, so it does not grant mutable access on the basis of uniqueness",
}


def root_args(B, l, seen=None, depth=0):
    """Argument indices a local's value derives from (moves, casts, borrows, projections, calls on derived pointers)."""
    if seen is None:
        seen = set()
    if l in seen or depth > 40:
        return set()
    seen.add(l)
    out = set()
    if B.is_arg(l):
        out.add(l)
    for d in B.defs().get(l, []):
        if d[0] == "call":
            for a in d[2]["args"]:
                pl = operand_place(a)
                if pl is not None:
                    out |= root_args(B, pl["l"], seen, depth + 1)
        else:
            rv = d[3]
            if rv["k"] in ("use", "cast"):
                pl = operand_place(rv["op"])
                if pl is not None:
                    out |= root_args(B, pl["l"], seen, depth + 1)
            elif rv["k"] in ("ref", "rawptr"):
                out |= root_args(B, rv["place"]["l"], seen, depth + 1)
            elif rv["k"] == "agg":
                for o in rv["ops"]:
                    pl = operand_place(o)
                    if pl is not None:
                        out |= root_args(B, pl["l"], seen, depth + 1)
    return out


class Gates:
    """Role inference for the uniqueness gate."""

    def __init__(self, F):
        self.F = F
        self.acq_loaders = {}  # key -> ordering
        self.loaders = {}
        self.gates = {}  # key -> ordering of the load feeding it
        for b in F.body_list:
            B = cfg.Body(b)
            o = self._ret_origin(B)
            if o and o.get("kind") == "call" and atomics.atomic_class(o["term"]) == model.ATOMIC_LOAD and atomics.receiver_is_count(F, B, o["term"]):
                ordr = atomics.ordering_of(B, o["term"]["args"][1])
                self.loaders[b["key"]] = ordr
        # forwarding: a function that returns another loader's result inherits its ordering
        changed = True
        while changed:
            changed = False
            for b in F.body_list:
                if b["key"] in self.loaders:
                    continue
                B = cfg.Body(b)
                o = self._ret_origin(B)
                if o and o.get("kind") == "call":
                    callee = atomics.callee_of(o["term"])
                    if callee in self.loaders:
                        self.loaders[b["key"]] = atomics.resolve_ordering(self.loaders[callee], B, o["term"])
                        changed = True
        for b in F.body_list:
            B = cfg.Body(b)
            d = self._ret_compare(B)
            if d is None:
                mo = self._match_gate(B)
                if mo is not None and b["key"] not in self.gates:
                    self.gates[b["key"]] = (mo, None)
                continue
            op, src_origin, k = d
            inline = isinstance(src_origin, tuple)
            if op != "Eq" or k != 1:
                if inline or src_origin in self.loaders:
                    self.gates[b["key"]] = ("BAD", "compares the count with `%s %s` instead of `== 1`" % (op, k))
                continue
            if inline:
                self.gates[b["key"]] = (src_origin[1], None)  # `count.load(ord) == 1` written out in the gate itself
            elif src_origin in self.loaders:
                self.gates[b["key"]] = (atomics.resolve_ordering(self.loaders[src_origin], B, self._last_cmp_term), None)

        # `count.compare_exchange(1, 1, Acquire, Relaxed).is_ok()` as the gate's own body: the strong exchange answers Ok exactly
        # when the count is 1 and leaves the word as it is (the success ordering is the gate's ordering)
        for b in F.body_list:
            if b["key"] in self.gates or "output" not in b or F.ts(b["output"]) != "bool":
                continue
            B = cfg.Body(b)
            o = self._ret_origin(B)
            if not (o and o.get("kind") == "call" and atomics.callee_of(o["term"]) == "<core::result::Result<T, E>>::is_ok" and o["term"]["args"]):
                continue
            o2 = B.origin(o["term"]["args"][0])
            if o2.get("kind") == "rvalue" and o2["rv"]["k"] == "ref" and not o2["rv"]["place"]["p"]:
                o2 = B.origin_local(o2["rv"]["place"]["l"])
            t2 = o2.get("term") if o2.get("kind") == "call" else None
            if t2 is not None and atomics.atomic_class(t2) == model.ATOMIC_CAS and atomics.receiver_is_count(F, B, t2) and atomics.cas_test(t2) == 1 and not atomics.cas_is_weak(t2):
                self.gates[b["key"]] = (atomics.ordering_of(B, t2["args"][3]) if len(t2["args"]) > 3 else None, None)

    def _match_gate(self, B):
        """`fn is_unique(&self) -> bool { matches!(self.count(), 1) }`: the result is assigned `true` exactly behind the arm for the
        value 1 of a switch on the loaded count, `false` elsewhere. Returns the ordering of the load or None."""
        F = self.F
        b = B.b
        if "output" not in b or F.ts(b["output"]) != "bool":
            return None
        ds = B.defs().get(0, [])
        if len(ds) < 2 or not all(d[0] == "assign" and d[3]["k"] == "use" and operand_const(d[3]["op"]) is not None for d in ds):
            return None
        for bi, bl in enumerate(B.blocks):
            tt = bl["term"]
            if tt["k"] != "switch":
                continue
            o = B.origin(tt["discr"])
            if o.get("kind") != "call":
                continue
            t = o["term"]
            callee = atomics.callee_of(t)
            if callee in self.loaders:
                ordr = atomics.resolve_ordering(self.loaders[callee], B, t)
            elif atomics.atomic_class(t) == model.ATOMIC_LOAD and atomics.receiver_is_count(F, B, t):
                ordr = atomics.ordering_of(B, t["args"][1]) if len(t["args"]) > 1 else None
            else:
                continue
            ones = [tg for v, tg in tt["arms"] if v == 1]
            if len(ones) != 1 or ones[0] == tt["otherwise"]:
                continue
            edge = (bi, ones[0])
            after = B.reach(ones[0], normal_only=True)
            ok = True
            for d in ds:
                val = operand_const(d[3]["op"]).get("int")
                if val == 1 and reachable_without(B, {edge}, set(), d[1]):
                    ok = False
                if val == 0 and d[1] in after:
                    ok = False
            if ok:
                return ordr
        return None

    def _ret_origin(self, B):
        ds = B.defs().get(0, [])
        if len(ds) != 1:
            return None
        if ds[0][0] == "call":
            return {"kind": "call", "term": ds[0][2]}
        return B.origin_local(0)

    def _ret_compare(self, B):
        ds = B.defs().get(0, [])
        if len(ds) != 1 or ds[0][0] != "assign":
            return None
        rv = ds[0][3]
        cmp_local = 0
        for _ in range(4):
            # `let unique = count.load(..) == 1; ...; unique`: the returned bool is a plain copy of the comparison's result
            if rv["k"] == "use" and operand_place(rv["op"]) is not None and not operand_place(rv["op"])["p"]:
                cmp_local = operand_place(rv["op"])["l"]
                d1 = B.single_def(cmp_local)
                if not d1 or d1[0] != "assign":
                    return None
                rv = d1[3]
            else:
                break
        self._last_cmp_local = cmp_local
        if rv["k"] != "binop" or rv["op"] not in ("Eq", "Ne", "Lt", "Le", "Gt", "Ge"):
            return None
        va, vb = B.const_value(rv["a"]), B.const_value(rv["b"])
        if vb is not None and va is None:
            src, k = rv["a"], vb
        elif va is not None and vb is None:
            src, k = rv["b"], va
        else:
            return None
        o = B.origin(src)
        if o.get("kind") != "call":
            return None
        t = o["term"]
        callee = atomics.callee_of(t)
        self._last_cmp_term = t
        if callee in self.loaders:
            return rv["op"], callee, k
        if atomics.atomic_class(t) == model.ATOMIC_LOAD and atomics.receiver_is_count(self.F, B, t):
            ordr = atomics.ordering_of(B, t["args"][1]) if len(t["args"]) > 1 else None
            if ordr not in atomics.ACQUIRE_OK and rv["op"] == "Eq" and k == 1 and self._fence_on_true(B, cmp_local):
                ordr = "Acquire"  # a Relaxed load followed, on the `== 1` outcome, by `atomic::fence(Acquire)`: an acquire operation
            return rv["op"], ("inline-load", ordr), k
        return None

    def _fence_on_true(self, B, cmp_local):
        """`if unique { atomic::fence(Acquire) }` (a real fence, not `compiler_fence`): on the edge where the comparison is true no
        `return` is reachable without passing an acquire fence - or the fence is unconditional between load and return."""
        fences = [bi for bi, t in B.calls() if atomics.atomic_class(t) == model.FENCE and (atomics.callee_of(t) or "").endswith("atomic::fence") and atomics.ordering_of(B, t["args"][0]) in atomics.ACQUIRE_OK]
        if not fences:
            return False
        rets = [bi for bi, bl in enumerate(B.blocks) if bl["term"]["k"] == "return"]

        def reach_ret_avoiding(start):
            seen, todo = set(), [start]
            while todo:
                x = todo.pop()
                if x in seen or x in fences:
                    continue
                seen.add(x)
                if x in rets:
                    return True
                todo.extend(B._succ_normal[x])
            return False

        for bi, bl in enumerate(B.blocks):
            tt = bl["term"]
            if tt["k"] != "switch":
                continue
            pl = operand_place(tt["discr"])
            if pl is None or pl["p"] or (pl["l"] != cmp_local and B.origin_local(pl["l"]).get("local") != cmp_local):
                d1 = B.single_def(pl["l"]) if pl is not None and not pl["p"] else None
                if not (d1 and d1[0] == "assign" and d1[3]["k"] == "use" and (operand_place(d1[3]["op"]) or {}).get("l") == cmp_local):
                    continue
            true_tgts = [tg for tg, tv in B.switch_truth(tt).items() if tv]
            return bool(true_tgts) and all(not reach_ret_avoiding(tg) for tg in true_tgts)
        return not reach_ret_avoiding(0)


def gate_cuts(F, G, B, E=None):
    """Edges (bb, target) on which a gate test of a handle derived from argument r is known true: {r: set(edges)}."""
    cuts = {}
    weak = B.b.setdefault("_weak_gate_edges", [])
    for (bi, tgt, roots, o) in gate_edges_with_order(F, G, B, E):
        if o is not None and o != "BAD" and o not in atomics.ACQUIRE_OK:
            # `if Arc::strong_count(&a) == 1` (a Relaxed load): tells the number of owners but orders nothing - it cannot license
            # exclusive access (the former owners' accesses would not happen-before it)
            if (bi, tgt, o) not in weak:
                weak.append((bi, tgt, o))
            continue
        for r in roots:
            cuts.setdefault(r, set()).add((bi, tgt))
    return cuts


def _gate_cuts_old(F, G, B):
    cuts = {}
    for bi, bl in enumerate(B.blocks):
        tt = bl["term"]
        if tt["k"] != "switch":
            continue
        c = B.condition(tt["discr"])
        if not c or "call" not in c:
            continue
        callee = atomics.callee_of(c["call"])
        if callee not in G.gates or G.gates[callee][0] == "BAD":
            continue
        roots = set()
        for a in c["call"]["args"]:
            pl = operand_place(a)
            if pl is not None:
                roots |= root_args(B, pl["l"])
        for tgt, tv in B.switch_truth(tt).items():
            if tv != c["neg"]:
                for r in roots:
                    cuts.setdefault(r, set()).add((bi, tgt))
    return cuts


def derived_gates(F, G, E):
    """Functions that report the gate's verdict through their return variant: every returning path tagged Some/Ok went through a
    gate-true edge on argument 1, every path tagged None/Err did not (e.g. get_mut, try_unique, try_as_unique)."""
    if hasattr(G, "_derived"):
        return G._derived
    out = {}
    G._derived_neg = {}
    for b in F.body_list:
        if b["kind"] not in ("Fn", "AssocFn") or "output" not in b:
            continue
        ot = F.ty(b["output"])
        if not (ot["k"] == "adt" and ot["path"] in ("core::option::Option", "core::result::Result")):
            continue
        B = cfg.Body(b)
        G._derived = out  # guard against recursion through gate_edges_with_order
        edges = [(x, y, o) for (x, y, roots, o) in _direct_gate_edges(F, G, B) if 1 in roots]
        if not edges:
            # no branch: `(!this.is_unique()).then(|| copy)` / `this.is_unique().then_some(..)`: the variant is the gate's answer
            from .. import symx as _sx

            e = _sx.fn_value(F, b)
            while isinstance(e, tuple) and e and e[0] in ("bb", "addr"):
                e = e[-1] if e[0] == "bb" else e[1]
            if isinstance(e, tuple) and e and e[0] == "call" and e[1] in ("<bool>::then", "<bool>::then_some") and e[3]:
                c0, negd = e[3][0], False
                while isinstance(c0, tuple) and c0 and c0[0] == "un" and c0[1] == "Not":
                    c0, negd = c0[2], not negd
                if isinstance(c0, tuple) and c0 and c0[0] == "call" and c0[1] in G.gates and G.gates[c0[1]][0] != "BAD" and c0[3]:
                    a0 = c0[3][0]
                    while isinstance(a0, tuple) and a0 and a0[0] in ("addr", "proj") and (a0[0] == "addr" or all(n == "*" for n in a0[2])):
                        a0 = a0[1]
                    if a0 == ("arg", 1):
                        (G._derived_neg if negd else out)[b["key"]] = G.gates[c0[1]][0]
            continue
        try:
            prs = E.toplevel(b["key"])
        except Exception:
            continue
        pos = neg = 0
        ok = True
        orders = set()
        for p in prs:
            if p.exit != "ret" or p.tag is None:
                continue
            blocks = list(p.blocks)
            passed = [(x, y, o) for (x, y, o) in edges for i in range(len(blocks) - 1) if blocks[i] == x and blocks[i + 1] == y]
            if p.tag in ("Some", "Ok"):
                pos += 1
                if not passed:
                    ok = False
                orders |= set(o for (_x, _y, o) in passed)
            else:
                neg += 1
                if passed:
                    ok = False
        if ok and pos and neg:
            out[b["key"]] = sorted(orders, key=str)[0] if orders else None
            continue
        # the other polarity: `fn copy_if_shared(&Arc<T>) -> Option<Arc<T>>` answers `None` exactly when the handle was found
        # to be the sole owner (every None/Err path passed the gate-true edge, no Some/Ok path did)
        pos = neg = 0
        ok = True
        orders = set()
        for p in prs:
            if p.exit != "ret" or p.tag is None:
                continue
            blocks = list(p.blocks)
            passed = [(x, y, o) for (x, y, o) in edges for i in range(len(blocks) - 1) if blocks[i] == x and blocks[i + 1] == y]
            if p.tag in ("None", "Err"):
                neg += 1
                if not passed:
                    ok = False
                orders |= set(o for (_x, _y, o) in passed)
            else:
                pos += 1
                if passed:
                    ok = False
        if ok and pos and neg:
            G._derived_neg[b["key"]] = sorted(orders, key=str)[0] if orders else None
    G._derived = out
    return out


def gate_edges_with_order(F, G, B, E=None):
    out = _direct_gate_edges(F, G, B)
    if E is None:
        return out
    D = derived_gates(F, G, E)
    DN = getattr(G, "_derived_neg", {})
    if not D and not DN:
        return out
    for bi, bl in enumerate(B.blocks):
        tt = bl["term"]
        if tt["k"] != "switch":
            continue
        c = B.condition(tt["discr"])
        # `f(x).is_some()` / `.is_none()` / `.is_ok()` / `.is_err()`
        if c and "call" in c:
            nm = atomics.callee_of(c["call"]) or ""
            if nm.endswith(("::is_some", "::is_ok", "::is_none", "::is_err")) and c["call"]["args"]:
                o = B.origin(c["call"]["args"][0], through_refs=True)
                if o.get("kind") == "call" and (atomics.callee_of(o["term"]) in D or atomics.callee_of(o["term"]) in DN):
                    ck = atomics.callee_of(o["term"])
                    roots = set()
                    for a in o["term"]["args"][:1]:
                        pl = operand_place(a)
                        if pl is not None:
                            roots |= root_args(B, pl["l"])
                    positive = nm.endswith(("::is_some", "::is_ok"))
                    if ck in DN:
                        positive = not positive
                    for tgt, tv in B.switch_truth(tt).items():
                        if (tv != c["neg"]) == positive:
                            out.append((bi, tgt, roots, D[ck] if ck in D else DN[ck]))
            continue
        # `match f(x) { Some(..) / Ok(..) => .. }`
        pl = operand_place(tt["discr"])
        if pl is None:
            continue
        d = B.single_def(pl["l"])
        if d and d[0] == "assign" and d[3]["k"] == "discr" and not d[3]["place"]["p"]:
            o = B.origin_local(d[3]["place"]["l"])
            if o.get("kind") == "call" and (atomics.callee_of(o["term"]) in D or atomics.callee_of(o["term"]) in DN):
                ck = atomics.callee_of(o["term"])
                ot = F.ty(F.body(ck)["output"])
                pos_val = 1 if ot["path"] == "core::option::Option" else 0
                if ck in DN:
                    pos_val = 1 - pos_val  # the variant that means "sole owner" is None / Err here
                roots = set()
                for a in o["term"]["args"][:1]:
                    apl = operand_place(a)
                    if apl is not None:
                        roots |= root_args(B, apl["l"])
                hit = False
                for v, tgt in tt["arms"]:
                    if v == pos_val:
                        hit = True
                        out.append((bi, tgt, roots, D[ck] if ck in D else DN[ck]))
                if not hit and len(tt["arms"]) == 1 and tt["arms"][0][0] == 1 - pos_val and tt.get("otherwise") is not None:
                    out.append((bi, tt["otherwise"], roots, D[ck] if ck in D else DN[ck]))  # `if let Some(copy) = f(x) { .. }`: the else edge
    return out


def _forwarding_bodies(F):
    """Local functions that return what a callable parameter returns when applied to a transient Arc of their first argument
    (`with_arc(&self, f) -> U { f(&transient) }`), possibly through another such function."""
    c = F.__dict__.get("_fwd_bodies")
    if c is not None:
        return c
    FN = ("core::ops::function::FnOnce", "core::ops::function::FnMut", "core::ops::function::Fn")
    out = set()
    for b in F.body_list:
        if b["kind"] not in ("Fn", "AssocFn"):
            continue
        ds = cfg.Body(b).defs().get(0, [])
        if ds and all(d[0] == "call" and d[2].get("callee_trait") in FN for d in ds):
            out.add(b["key"])
    grew = True
    while grew:
        grew = False
        for b in F.body_list:
            if b["key"] in out or b["kind"] not in ("Fn", "AssocFn"):
                continue
            ds = cfg.Body(b).defs().get(0, [])
            if ds and all(d[0] == "call" and atomics.callee_of(d[2]) in out for d in ds):
                out.add(b["key"])
                grew = True
    F.__dict__["_fwd_bodies"] = out
    return out


def _forwarded_gate(F, G, t):
    """If call t applies a forwarding function (`with_arc`) to a callable that is the uniqueness gate (fn item `Arc::is_unique`, or a
    closure whose result is a gate call on its argument), the ordering of the gate's load; None otherwise."""
    from .. import implsel

    callee = atomics.callee_of(t)
    if callee not in _forwarding_bodies(F):
        return None
    r = t.get("resolved")
    args = r["args"] if isinstance(r, dict) else (t.get("callee_args") or [])
    for a in args:
        if "t" not in a:
            continue
        ti = F.strip_refs(a["t"])
        tt = F.ty(ti)
        if tt["k"] == "fndef":
            k = tt["def"] if tt["def"] in F.bodies else implsel.fn_item(F, ti)[0]
            if k in G.gates and G.gates[k][0] != "BAD":
                return G.gates[k][0]
        elif tt["k"] == "closure" and tt["def"] in F.bodies:
            CB = cfg.Body(F.body(tt["def"]))
            o = CB.origin_local(0)
            if o.get("kind") == "call":
                k = atomics.callee_of(o["term"])
                if k in G.gates and G.gates[k][0] != "BAD":
                    return G.gates[k][0]
    return None


def _direct_gate_edges(F, G, B):
    """All edges on which `count == 1` is known for a handle derived from some argument, with the ordering of the load:
    [(bb, target, roots, ordering)] - covers `if h.is_unique()` and the inlined `if load(h) == 1`."""
    out = []
    if not getattr(G, "_fwd_done", False):
        # a handle kind's own uniqueness test written through its lending helper - `fn is_unique(&self) -> bool {
        # self.with_arc(|a| a.is_unique()) }` - is a gate too: it answers for the very handle passed first
        G._fwd_done = True
        for fb in F.body_list:
            if fb["kind"] not in ("Fn", "AssocFn") or fb["key"] in G.gates or "output" not in fb or F.ts(fb["output"]) != "bool":
                continue
            FB = cfg.Body(fb)
            o = FB.origin_local(0)
            if o.get("kind") != "call" or not o["term"]["args"]:
                continue
            fg0 = _forwarded_gate(F, G, o["term"])
            pl0 = operand_place(o["term"]["args"][0])
            if fg0 is not None and pl0 is not None and 1 in root_args(FB, pl0["l"]):
                G.gates[fb["key"]] = (fg0, None)
    for bi, bl in enumerate(B.blocks):
        tt = bl["term"]
        if tt["k"] != "switch":
            continue
        c = B.condition(tt["discr"])
        if not c:
            continue
        if "call" in c:
            callee = atomics.callee_of(c["call"])
            fg = _forwarded_gate(F, G, c["call"])
            if fg is not None:
                # `OffsetArc::with_arc(self, Arc::is_unique)`: the test applied to the transient Arc of the very handle passed first
                roots = set()
                for a in c["call"]["args"][:1]:
                    pl = operand_place(a)
                    if pl is not None:
                        roots |= root_args(B, pl["l"])
                for tgt, tv in B.switch_truth(tt).items():
                    if tv != c["neg"]:
                        out.append((bi, tgt, roots, fg))
                continue
            if callee in G.gates and G.gates[callee][0] != "BAD":
                roots = set()
                for a in c["call"]["args"]:
                    pl = operand_place(a)
                    if pl is not None:
                        roots |= root_args(B, pl["l"])
                for tgt, tv in B.switch_truth(tt).items():
                    if tv != c["neg"]:
                        out.append((bi, tgt, roots, G.gates[callee][0]))
            elif callee in ("<core::result::Result<T, E>>::is_ok", "<core::result::Result<T, E>>::is_err") and c["call"]["args"]:
                # `count.compare_exchange(1, 1, Acquire, Relaxed).is_ok()`: the strong form answers Ok exactly when the count is 1
                # (the weak form may refuse a sole owner spuriously: not a gate)
                o2 = B.origin(c["call"]["args"][0])
                if o2.get("kind") == "rvalue" and o2["rv"]["k"] == "ref" and not o2["rv"]["place"]["p"]:
                    o2 = B.origin_local(o2["rv"]["place"]["l"])
                t2 = o2.get("term") if o2.get("kind") == "call" else None
                if t2 is not None and atomics.atomic_class(t2) == model.ATOMIC_CAS and atomics.receiver_is_count(F, B, t2) and atomics.cas_test(t2) == 1 and not atomics.cas_is_weak(t2):
                    ordr = atomics.ordering_of(B, t2["args"][3]) if len(t2["args"]) > 3 else None
                    roots = set()
                    for a in t2["args"][:1]:
                        pl = operand_place(a)
                        if pl is not None:
                            roots |= root_args(B, pl["l"])
                    want_true = callee.endswith("is_ok")
                    for tgt, tv in B.switch_truth(tt).items():
                        if (tv != c["neg"]) == want_true:
                            out.append((bi, tgt, roots, ordr))
            elif not c["neg"] and (callee in G.loaders or (atomics.atomic_class(c["call"]) == model.ATOMIC_LOAD and atomics.receiver_is_count(F, B, c["call"]))):
                # `match Arc::count(&this) { 1 => .., _ => .. }`: a switch on the loaded count itself, the arm for the value 1
                ordr = atomics.resolve_ordering(G.loaders[callee], B, c["call"]) if callee in G.loaders else atomics.ordering_of(B, c["call"]["args"][1])
                roots = set()
                for a in c["call"]["args"][:1]:
                    pl = operand_place(a)
                    if pl is not None:
                        roots |= root_args(B, pl["l"])
                ones = [tg for v, tg in tt["arms"] if v == 1]
                if len(ones) == 1 and ones[0] != tt["otherwise"] and sum(1 for _v, tg in tt["arms"] if tg == ones[0]) == 1:
                    out.append((bi, ones[0], roots, ordr))
            continue
        if c.get("op") in ("Eq", "Ne"):
            va, vb = B.const_value(c["a"]), B.const_value(c["b"])
            src = c["a"] if (vb == 1 and va is None) else (c["b"] if (va == 1 and vb is None) else None)
            if src is None:
                continue
            o = B.origin(src)
            if o.get("kind") != "call":
                continue
            t = o["term"]
            callee = atomics.callee_of(t)
            ordr = None
            if callee in G.loaders:
                ordr = atomics.resolve_ordering(G.loaders[callee], B, t)
            elif atomics.atomic_class(t) == model.ATOMIC_LOAD and atomics.receiver_is_count(F, B, t):
                ordr = atomics.ordering_of(B, t["args"][1])
            else:
                continue
            roots = set()
            for a in t["args"][:1]:
                pl = operand_place(a)
                if pl is not None:
                    roots |= root_args(B, pl["l"])
            for tgt, tv in B.switch_truth(tt).items():
                eq = (tv != c["neg"]) == (c["op"] == "Eq")
                if eq:
                    out.append((bi, tgt, roots, ordr))
    return out


def reachable_without(B, cut_edges, cut_blocks, goal):
    seen = set()
    todo = [0]
    while todo:
        x = todo.pop()
        if x in seen:
            continue
        seen.add(x)
        if x == goal:
            return True
        if x in cut_blocks:
            continue
        for s in B._succ[x]:
            if (x, s) in cut_edges:
                continue
            todo.append(s)
    return False


def is_new_class(E, key):
    effs = [e for e in E.summary(key) if e.exit == "ret"]
    return bool(effs) and all(c04.is_new(e.vec) for e in effs)


def is_move_class(E, key):
    effs = [e for e in E.summary(key) if e.exit == "ret"]
    return bool(effs) and all(c04.is_zero(e.vec) for e in effs)


def fresh_value(F, E, B, op, depth=0):
    """Is the operand a handle that is necessarily the sole owner: fresh from a constructor, or derived from a UniqueArc?"""
    if depth > 12:
        return False
    pl = operand_place(op)
    if pl is None:
        return False
    # derived from a UniqueArc-typed place (sole owner by type)
    if _through_unique(F, B, pl, set()):
        return True
    if pl["p"]:
        # the payload of `Some(..)` / `Ok(..)` returned by a local function all of whose Some/Ok paths build a fresh sole owner
        # (`fn copy_if_shared(&Arc<T>) -> Option<Arc<T>>`: `if let Some(copy) = copy_if_shared(this) { *this = copy }`)
        if len(pl["p"]) == 2 and isinstance(pl["p"][0], dict) and "dc" in pl["p"][0] and str(pl["p"][0].get("name", "")) in ("Some", "Ok") and isinstance(pl["p"][1], dict) and pl["p"][1].get("f") == 0:
            o = B.origin_local(pl["l"])
            if o.get("kind") == "call":
                ck = atomics.callee_of(o["term"])
                if ck in F.bodies:
                    effs = [e for e in E.summary(ck) if e.exit == "ret" and e.tag in ("Some", "Ok")]
                    return bool(effs) and all(c04.is_new(e.vec) for e in effs)
        return False
    ds = B.defs().get(pl["l"], [])
    if not ds:
        return False
    for d in ds:
        if d[0] == "call":
            t = d[2]
            callee = atomics.callee_of(t)
            r = t.get("resolved")
            via = r.get("via_from") if isinstance(r, dict) else None
            if via and via["local"]:
                callee = via["def"]
            if callee in F.bodies:
                if is_new_class(E, callee):
                    continue
                if is_move_class(E, callee) and any(fresh_value(F, E, B, a, depth + 1) for a in t["args"] if operand_place(a) is not None and F.tokens(operand_place(a).get("ty", 0))[0]):
                    continue
            return False
        rv = d[3]
        if rv["k"] == "use":
            if not fresh_value(F, E, B, rv["op"], depth + 1):
                return False
        elif rv["k"] == "agg" and rv.get("agg") == "adt":
            hn = F.path_to_handle.get(rv["adt"])
            if hn == "UniqueArc":
                continue
            if hn == "Arc":
                # built from a pointer: fresh iff the pointer comes from an allocation helper
                o = _origin_through_places(B, rv["ops"][0])
                if o.get("kind") == "call":
                    c2 = atomics.callee_of(o["term"])
                    if c2 in F.bodies and _is_alloc_helper(E, c2):
                        continue
                    if _ptr_from_alloc(F, E, B, o["term"], 0):
                        continue
                return False
            return False
        else:
            return False
    return True


def _is_alloc_helper(E, key):
    effs = [e for e in E.summary(key) if e.exit == "ret"]
    return bool(effs) and all(vget(e.vec, "alloc") == 1 and vget(e.vec, "init") == 1 and vget(e.vec, "own") == 0 for e in effs)


def _ptr_from_alloc(F, E, B, t, depth):
    if depth > 8:
        return False
    c = atomics.callee_of(t)
    if model.classify(c)[0] == model.ALLOC:
        return True
    if c in F.bodies and _is_alloc_helper(E, c):
        return True
    for a in t["args"]:
        o = _origin_through_places(B, a)
        if o.get("kind") == "call" and _ptr_from_alloc(F, E, B, o["term"], depth + 1):
            return True
    return False


def _origin_through_places(B, op):
    """Origin of an operand, looking through field projections of locals (`match NonNull::new(p) { Some(p) => p, .. }` reads
    `(opt as Some).0`: the pointer is still the one the call produced)."""
    o = B.origin(op)
    for _ in range(6):
        if o.get("kind") == "place" and "deref" not in o["place"]["p"]:
            o = B.origin_local(o["place"]["l"])
        else:
            break
    return o


def _mints_owner(F, t):
    if t.get("callee_trait") == "core::clone::Clone":
        return True
    callee = atomics.callee_of(t)
    if callee in F.bodies:
        eng = F.__dict__.get("_c03_engine")
        if eng is None:
            from .. import effects as _eff

            eng = F.__dict__["_c03_engine"] = _eff.Engine(F)
        try:
            return any(e.exit == "ret" and vget(e.vec, "inc") > 0 for e in eng.summary(callee))
        except Exception:
            return False
    return False


def _through_unique(F, B, pl, seen, depth=0):
    """Does the place derive (by projection/borrow/move/deref-call) from a UniqueArc-typed value?"""
    if depth > 30 or pl["l"] in seen:
        return False
    seen.add(pl["l"])
    lt = B.b["locals"][pl["l"]]["ty"]
    if F.handle_name(F.strip_refs(lt)) == "UniqueArc":
        return True
    for pe in pl["p"]:
        if isinstance(pe, dict) and pe.get("adt") == F.handle_paths.get("UniqueArc"):
            return True
    for d in B.defs().get(pl["l"], []):
        if d[0] == "call":
            t = d[2]
            # pointer/reference-preserving calls on a derived value (Deref of ManuallyDrop, ptr(), inner(), as_ptr() ...) - but
            # not calls that mint another owner of the same block (`self.0.clone()`: the clone of a sole owner is not one)
            if _mints_owner(F, t):
                continue
            for a in t["args"]:
                ap = operand_place(a)
                if ap is not None and _through_unique(F, B, ap, seen, depth + 1):
                    return True
        else:
            rv = d[3]
            src = None
            if rv["k"] in ("use", "cast"):
                src = operand_place(rv["op"])
            elif rv["k"] in ("ref", "rawptr"):
                src = rv["place"]
            elif rv["k"] == "agg":
                for o in rv["ops"]:
                    ap = operand_place(o)
                    if ap is not None and F.ty(ap.get("ty", 0))["k"] != "adt" or (ap is not None and not F.ts(ap["ty"]).startswith("core::marker::PhantomData")):
                        if ap is not None and _through_unique(F, B, ap, seen, depth + 1):
                            return True
            if src is not None and _through_unique(F, B, src, seen, depth + 1):
                return True
    return False


def unjustified_producers(F, E, G, b):
    """`&mut` borrows of the payload in body b that are not behind the gate / a refresh / a sole-owner type: [(what, span)]."""
    out = []
    B = cfg.Body(b)
    cuts = None
    for bi, bl in enumerate(b["blocks"]):
        for s in bl["stmts"]:
            if s["k"] != "assign":
                continue
            rv = s["rv"]
            if not (rv["k"] == "ref" and rv["mut"] and _has_data(F, rv["place"])):
                continue
            root_pl = rv["place"]
            if _fresh_pointer(F, E, B, root_pl) or _through_unique(F, B, root_pl, set()):
                continue
            roots = root_args(B, root_pl["l"])
            if cuts is None:
                cuts = gate_cuts(F, G, B, E)
            if not _justified(F, E, B, cuts, roots, bi):
                out.append(("mutable borrow of the payload", s["span"]))
    return out


def _gate_def(F, G, rep, tag):
    # ---- R-GATE-DEF / R-ORD-5
    for k, (ordr, why) in G.gates.items():
        b = F.body(k)
        if ordr == "BAD":
            rep.bad("R-GATE-DEF", k, "the uniqueness test %s: it would grant exclusive access while other owners exist, or refuse a sole owner" % why, F.loc(b), tag)
        elif ordr in atomics.ACQUIRE_OK:
            rep.ok("R-GATE-DEF", k, "count == 1 via an %s load" % ordr, cfg=tag)
            rep.ok("R-ORD-5", k, cfg=tag)
        else:
            rep.ok("R-GATE-DEF", k, cfg=tag)
            rep.bad("R-ORD-5", k, "the load feeding the uniqueness test is %s; it must be Acquire (or SeqCst) to order the mutable access after the accesses of owners that have since released (pairs with the Release decrement)" % ordr, F.loc(b), tag)
    if not G.gates:
        rep.bad("ANCHOR-LOST", "R-GATE-DEF", "no function of the shape `load(count) == 1` found", None, tag)


def rule_gate_def(ctx, rep, with_release=True):
    """The uniqueness gate is `Acquire load(count) == 1` (shared by C01, C02, C03, C08, C09: their schedule clauses rest on it),
    and the decrements it synchronises with are Release."""
    for tag, F, E in ctx.each():
        _gate_def(F, Gates(F), rep, tag)
    rep.floor("R-GATE-DEF", 1, "one gate definition")
    if with_release:
        from . import c02

        c02.rule_dec_release(ctx, rep)


RAW_WRITES = ("core::ptr::write", "<*mut T>::write", "core::ptr::write_volatile", "<*mut T>::write_volatile", "core::ptr::write_unaligned", "<*mut T>::write_unaligned", "core::ptr::write_bytes", "<*mut T>::write_bytes", "core::ptr::replace", "<*mut T>::replace", "core::ptr::swap", "<*mut T>::swap", "core::ptr::drop_in_place", "<*mut T>::drop_in_place")
RAW_COPIES = ("core::ptr::copy_nonoverlapping", "core::ptr::copy", "core::intrinsics::copy_nonoverlapping", "core::intrinsics::copy")


def _rooted_in_handle_arg(F, B, b, l):
    """The place is reached from a parameter that is (a reference to) an owning handle - not from a raw block pointer a constructor
    or a private guard passes around before any handle exists, and not inside an `unsafe fn`, whose callers carry the obligation."""
    for ai in root_args(B, l):
        if 1 <= ai <= len(b.get("inputs", [])) and F.tokens(F.strip_refs(b["inputs"][ai - 1]))[0] > 0:
            return True
    return False


def _written_through(B, l):
    """Is the raw pointer defined into local `l` written through in this body: destination of a `ptr::write`-style call or copy, or
    dereferenced on the left of an assignment? (`addr_of_mut!` that only ends up as the `*const T` a function hands out is not.)"""
    def same(op):
        o = B.origin(op)
        return o.get("local") == l

    for bi, t in B.calls():
        path = atomics.callee_of(t) or ""
        if not t["args"]:
            continue
        if path in RAW_WRITES and same(t["args"][0]):
            return True
        if (path in RAW_COPIES and len(t["args"]) > 1 and same(t["args"][1])) or (path.endswith(">::copy_to") or path.endswith(">::copy_to_nonoverlapping")) and len(t["args"]) > 1 and same(t["args"][1]):
            return True
        if (path.endswith(">::copy_from") or path.endswith(">::copy_from_nonoverlapping")) and same(t["args"][0]):
            return True
    for bl in B.blocks:
        for s in bl["stmts"]:
            if s["k"] == "assign" and s["lhs"]["p"] and s["lhs"]["p"][0] == "deref":
                o = B.origin_local(s["lhs"]["l"])
                if o.get("local") == l or s["lhs"]["l"] == l:
                    return True
    return False


def rule_gate(ctx, rep):
    """R-GATE over every producer of exclusive access in the crate (and R-GATE-DEF)."""
    for tag, F, E in ctx.each():
        A = balance.analysis(tag, F, E)
        G = Gates(F)
        _gate_def(F, G, rep, tag)
        # ---- producers
        unsafe_producers = {}  # key of unsafe fn -> set of arg indices whose uniqueness the caller must guarantee
        nprod = 0
        for b in F.body_list:
            if b["kind"] not in ("Fn", "AssocFn"):
                continue
            B = cfg.Body(b)
            cuts = None
            for bi, bl in enumerate(b["blocks"]):
                tt_ = bl["term"]
                stmts_ = list(bl["stmts"])
                if tt_["k"] == "drop" and _has_data(F, tt_["place"]):
                    # `(*p).data = v` drops the old value in place first: a write like any other
                    stmts_.append({"k": "assign", "lhs": tt_["place"], "rv": {"k": "use", "op": {"const": "drop"}}, "span": tt_["span"]})
                for s in stmts_:
                    if s["k"] != "assign":
                        continue
                    rv = s["rv"]
                    prod = None
                    root_pl = None
                    if _has_data(F, s["lhs"]) and not s["span"].get("exp_internal"):
                        prod, root_pl = "write into the payload", s["lhs"]
                    elif rv["k"] == "ref" and rv["mut"] and _has_data(F, rv["place"]) and not s["span"].get("exp_internal"):
                        prod, root_pl = "mutable borrow of the payload", rv["place"]
                    elif rv["k"] == "rawptr" and rv.get("mut") and _has_data(F, rv["place"]) and not s["span"].get("exp_internal") and not b.get("unsafe") and _rooted_in_handle_arg(F, B, b, rv["place"]["l"]) and _written_through(B, s["lhs"]["l"]):
                        # `addr_of_mut!((*p).data.field)`: taken to be written through (`.write(v)`), which needs the same licence as `&mut`
                        prod, root_pl = "mutable raw pointer to the payload", rv["place"]
                    elif rv["k"] == "ref" and rv["mut"] and rv["place"]["p"] and rv["place"]["p"][0] == "deref" and _via_data_pointer_handle(F, B, rv["place"]["l"]) is not None:
                        # `&mut *p` where p is the value pointer stored in an OffsetArc / ArcBorrow: the payload without passing through INNER
                        prod, root_pl = "mutable borrow of the payload", _via_data_pointer_handle(F, B, rv["place"]["l"])
                    elif rv["k"] == "cast" and _is_arc_to_unique_cast(F, B, rv):
                        prod, root_pl = "cast of `&mut Arc` to `&mut UniqueArc`", operand_place(rv["op"])
                    elif rv["k"] == "agg" and rv.get("agg") == "adt" and F.path_to_handle.get(rv["adt"]) == "UniqueArc":
                        prod, root_pl = "construction of a UniqueArc", operand_place(rv["ops"][0])
                        if fresh_value(F, E, B, rv["ops"][0]):
                            nprod += 1
                            rep.ok("R-GATE", "%s/%s" % (b["key"], "wrap-fresh"), cfg=tag)
                            continue
                    if prod is None or root_pl is None:
                        continue
                    nprod += 1
                    ik = "%s/%s" % (b["key"], {"write into the payload": "payload-write", "mutable raw pointer to the payload": "mut-payload-rawptr", "mutable borrow of the payload": "mut-payload-borrow", "cast of `&mut Arc` to `&mut UniqueArc`": "cast-to-unique-ref", "construction of a UniqueArc": "wrap-unique"}[prod])
                    loc = F.loc(b, s["span"])
                    if b["key"] in EXEMPT:
                        if b["key"] not in [x["key"] for x in rep.exempt]:
                            rep.exempt.append({"key": b["key"], "reason": EXEMPT[b["key"]]})
                        continue
                    # fresh block (constructor writing into memory no handle refers to yet)?
                    if _fresh_pointer(F, E, B, root_pl):
                        rep.ok("R-GATE", ik, "fresh allocation", cfg=tag)
                        continue
                    if _through_unique(F, B, root_pl, set()):
                        rep.ok("R-GATE", ik, "sole owner by type (UniqueArc)", cfg=tag)
                        continue
                    roots = root_args(B, root_pl["l"])
                    if b.get("unsafe") and roots and (prod != "mutable borrow of the payload" or not balance.is_api(F, b)):
                        # an unsafe constructor, or a crate-private unsafe accessor (`unsafe fn data_mut_unchecked(&mut Arc) -> &mut T`)
                        unsafe_producers.setdefault(b["key"], set()).update(roots)
                        rep.ok("R-GATE", ik, "unsafe: obligation moves to its call sites", cfg=tag)
                        continue
                    if cuts is None:
                        cuts = gate_cuts(F, G, B, E)
                    ok = _justified(F, E, B, cuts, roots, bi)
                    if ok:
                        rep.ok("R-GATE", ik, cfg=tag)
                    else:
                        rep.bad("R-GATE", ik, "%s in %s is reachable from the function entry without passing the true edge of the uniqueness test on the same handle (and without the handle having been replaced by a fresh allocation): mutable access would be handed out while other owners exist" % (prod, b["key"]), loc, tag)
            # a `&mut` to the *whole block* (count word included) conjured from a handle's pointer: `self.p.as_mut()` - exclusive access
            # to memory that other owners read and whose count other threads update
            for bi, t in B.calls():
                path = atomics.callee_of(t) or ""
                if path != "<core::ptr::non_null::NonNull<T>>::as_mut" or not t.get("arg_tys"):
                    continue
                at = F.ty(F.strip_refs(t["arg_tys"][0]))
                if not (at["k"] == "adt" and at["path"] == "core::ptr::non_null::NonNull" and F.is_adt(at["args"][0]["t"], F.inner_path)):
                    continue
                nprod += 1
                ik = "%s/mut-block-borrow" % b["key"]
                pl = operand_place(t["args"][0])
                o = B.origin(t["args"][0])
                src = o["rv"]["place"] if o.get("kind") == "rvalue" and o["rv"]["k"] in ("ref", "rawptr") else (o.get("place") if o.get("kind") == "place" else None)
                if src is not None and (_fresh_pointer(F, E, B, src) or _through_unique(F, B, src, set())):
                    rep.ok("R-GATE", ik, "fresh allocation / sole owner by type", cfg=tag)
                    continue
                if pl is not None and _fresh_pointer(F, E, B, {"l": pl["l"], "p": []}):
                    rep.ok("R-GATE", ik, "fresh allocation", cfg=tag)
                    continue
                roots = root_args(B, pl["l"]) if pl is not None else set()
                if b.get("unsafe") and roots:
                    rep.ok("R-GATE", ik, "unsafe: obligation stays with the caller", cfg=tag)
                    continue
                if cuts is None:
                    cuts = gate_cuts(F, G, B, E)
                if roots and _justified(F, E, B, cuts, roots, bi):
                    rep.ok("R-GATE", ik, cfg=tag)
                else:
                    rep.bad("R-GATE", ik, "`NonNull::as_mut()` on a handle's block pointer in %s creates a `&mut` to the whole shared block - count word included - without the handle having been found to be the sole owner: other owners read the value and other threads update the count behind that exclusive reference" % b["key"], F.loc(b, t["span"]), tag)
            # the same re-typing spelled as a call: `(arc as *mut Arc<T>).cast::<UniqueArc<T>>()`
            for bi, t in B.calls():
                r = t.get("resolved")
                path = atomics.callee_of(t) or ""
                if not (path.endswith(">::cast") and isinstance(r, dict) and t["args"]):
                    continue
                tys = [a["t"] for a in r["args"] if "t" in a]
                if len(tys) != 2 or F.handle_name(tys[0]) != "Arc" or F.handle_name(tys[1]) != "UniqueArc":
                    continue
                nprod += 1
                ik = "%s/cast-to-unique-ref" % b["key"]
                pl = operand_place(t["args"][0])
                roots = root_args(B, pl["l"]) if pl is not None else set()
                if b.get("unsafe") and roots:
                    unsafe_producers.setdefault(b["key"], set()).update(roots)
                    rep.ok("R-GATE", ik, "unsafe constructor: obligation moves to its call sites", cfg=tag)
                    continue
                if cuts is None:
                    cuts = gate_cuts(F, G, B, E)
                if _justified(F, E, B, cuts, roots, bi):
                    rep.ok("R-GATE", ik, cfg=tag)
                else:
                    rep.bad("R-GATE", ik, "cast of `&mut Arc` to `&mut UniqueArc` in %s is reachable from the function entry without passing the true edge of the uniqueness test on the same handle: mutable access would be handed out while other owners exist" % b["key"], F.loc(b, t["span"]), tag)
        # ---- call sites of unsafe producers
        ncall = 0
        for b in F.body_list:
            B = cfg.Body(b)
            cuts = None
            for bi, t in B.calls():
                callee = atomics.callee_of(t)
                if callee not in unsafe_producers:
                    continue
                ncall += 1
                ik = "%s/call:%s" % (b["key"], F.body(callee)["name"])
                for ai in unsafe_producers[callee]:
                    a = t["args"][ai - 1]
                    if fresh_value(F, E, B, a):
                        rep.ok("R-GATE", ik, "argument is fresh / sole owner by type", cfg=tag)
                        continue
                    if _holds_fresh_block(F, E, B, a):
                        rep.ok("R-GATE", ik, "argument is a private construction guard around a block straight from the allocator (no handle exists yet)", cfg=tag)
                        continue
                    pl = operand_place(a)
                    if pl is not None:
                        o = B.origin(a)
                        src = o["rv"]["place"] if o.get("kind") == "rvalue" and o["rv"]["k"] in ("ref", "rawptr") else (o.get("place") if o.get("kind") == "place" else None)
                        if src is not None and _through_unique(F, B, src, set()):
                            rep.ok("R-GATE", ik, "argument reached through a UniqueArc: sole owner by type", cfg=tag)
                            continue
                    roots = root_args(B, pl["l"]) if pl is not None else set()
                    if b.get("unsafe") and roots and b["key"] != callee:
                        unsafe_producers.setdefault(b["key"], set()).update(roots)
                    if cuts is None:
                        cuts = gate_cuts(F, G, B, E)
                    if _justified(F, E, B, cuts, roots, bi):
                        rep.ok("R-GATE", ik, cfg=tag)
                    else:
                        rep.bad("R-GATE", ik, "the unchecked constructor %s is called with a handle that has not been found to be the sole owner on every path reaching the call" % callee, F.loc(b, t["span"]), tag)


def rule_gate_for(ctx, rep, members):
    """R-GATE restricted to a family of functions (used by C08/C09: the sole-owner branch of their functions must sit behind the
    Acquire gate). `members(F)` yields the body keys of the family."""
    tmp = core.Report(rep.prop)
    rule_gate(ctx, tmp)
    keys = set()
    for tag, F, E in ctx.each():
        keys |= set(members(F))
    n = 0
    for k in tmp.order:
        inst = tmp.instances[k]
        if inst["rule"] != "R-GATE":
            continue
        fn = inst["key"].rsplit("/", 1)[0]
        if fn not in keys:
            continue
        n += 1
        if inst["ok"]:
            for c in inst["configs"] or [None]:
                rep.ok("R-GATE", inst["key"], inst.get("okmsg"), cfg=c)
        else:
            for c in inst["configs"] or [None]:
                rep.bad("R-GATE", inst["key"], inst["msgs"][0] if inst["msgs"] else "", inst["locs"][0] if inst["locs"] else None, c)
    return n


def run(ctx, rep):
    balance.rule_unique_view(ctx, rep)  # nothing lends out the shared handle inside a UniqueArc: "sole owner by type" stays true
    rule_gate(ctx, rep)
    from . import c02 as _c02

    _c02.rule_release_order(ctx, rep)  # sole ownership is also granted to whoever observes 1 from its own decrement (`drop`, an `into_inner`): an acquire must follow before the value is touched
    # premise of the verdict: the count equals the number of owning handles on every path, unwinding included
    from . import c12 as _c12

    _c12.union_dispatch(ctx, rep)  # ArcUnion owners are counted on the block of the Arc they were made from (tag arithmetic, per-variant types)
    balance.rule_bal(ctx, rep)
    balance.rule_unw(ctx, rep)
    balance.rule_racy_assert(ctx, rep, strict=True)  # no assertion about a re-read count that a racing clone or drop can falsify: the operation would panic where it must succeed or decline
    for tag, F, E in ctx.each():
        A = balance.analysis(tag, F, E)
        # ---- decline behaviour and the panicking deprecated writers
        for name in ("get_mut",):
            for b in F.method("Arc", name):
                bad = [p for p in A.paths[b["key"]] if p.exit == "ret" and p.tag == "None" and any(e["vec"] != ZERO for e in p.events)]
                if bad:
                    rep.bad("R-DECLINE", b["key"], balance.path_report(F, b, bad[0], "the declining path touches count or ownership"), F.loc(b), tag)
                else:
                    rep.ok("R-DECLINE", b["key"], cfg=tag)
        balance.rule_cbzero(ctx, rep) if tag == ctx.configs[0][0] else None
    from . import c09

    c09.rule_decline(ctx, rep)
    rule_panic_decline(ctx, rep)
    from . import c02

    c02.rule_dec_release(ctx, rep)  # the Acquire gate orders nothing unless the decrements it reads from are Release
    from . import c07 as _c07

    _c07.rule_guard(ctx, rep)  # a handle re-pointed behind a transient must be written back on every exit, or the count of its old block no longer matches its owners
    balance.rule_write_provenance(ctx, rep)  # an owner's pointer must allow the writes owners make (count, get_mut, the final drop)
    balance.rule_writeback(ctx, rep)
    balance.rule_count_addr(ctx, rep)
    rep.floor("R-COUNT-ADDR", 1, "one instance per run")
    balance.rule_use_after_release(ctx, rep)  # the gate is only meaningful if nobody keeps using a block after giving its count back
    rep.floor("R-USE-AFTER-RELEASE", 1, "the one decrementing body")
    rep.floor("R-GATE-DEF", 1, "one gate definition")
    rep.floor("R-GATE", 6, "payload &mut producers, UniqueArc constructions, unsafe-constructor call sites")


def rule_panic_decline(ctx, rep):
    """The deprecated writers (Arc::write, Arc::as_mut_slice) start by calling a checking helper whose every returning path went
    through the `Ok` arm of a function returning `Result<&mut UniqueArc, _>` (the declining arm panics), and never borrow the payload themselves."""
    from .. import atomics

    for tag, F, E in ctx.each():
        A = balance.analysis(tag, F, E)
        for h, name in (("Arc", "write"), ("Arc", "as_mut_slice")):
            bs = F.method(h, name)
            if not bs:
                rep.bad("ANCHOR-LOST", "R-PANIC-DECLINE/%s::%s" % (h, name), "deprecated writer named by the property is missing", None, tag)
            for b in bs:
                B = cfg.Body(b)
                callees = [atomics.callee_of(t) for _bi, t in B.calls()]
                first = callees[0] if callees else None
                direct = any(e["kind"] == "DATAREF" and e["detail"]["mut"] for p in A.paths[b["key"]] for e in p.events)
                fb = F.body(first) if first else None
                inline_match = False
                if fb is not None and "output" in fb and F.ts(fb["output"]).startswith("core::result::Result<") and F.mentions_adt(fb["output"], F.handle_paths.get("UniqueArc")):
                    # the writer matches on the `Result<&mut UniqueArc, _>` itself (`Err(this) => { drop(val); not_unique(..) }`): it is
                    # its own checking helper
                    inline_match = True
                    first, fb = b["key"], b
                ok = fb is not None and not direct
                why = None
                if not ok:
                    why = "the deprecated writer must obtain `&mut UniqueArc` from the panicking uniqueness check before anything else and never touch the payload directly (first call: %s, direct payload borrow: %s)" % (first, direct)
                else:
                    # the helper returns only when a Result<&mut UniqueArc, _>-returning callee said Ok
                    n = 0
                    for p in A.paths[first]:
                        if p.exit != "ret":
                            continue
                        n += 1
                        tags = []
                        for e in p.events:
                            if e["kind"] == "CALL":
                                cb = F.body(e["detail"].get("callee")) or {}
                                if "output" in cb and F.ts(cb["output"]).startswith("core::result::Result<") and F.mentions_adt(cb["output"], F.handle_paths.get("UniqueArc")):
                                    tags.append(e["detail"].get("tag"))
                        if tags != ["Ok"]:
                            if _returns_only_behind_gate(F, E, fb):
                                continue  # the helper tests the gate itself: `if Arc::count(arc) != 1 { not_unique(..) }` (an Acquire test)
                            ok, why = False, balance.path_report(F, fb, p, "the checking helper returns although the uniqueness test declined (it must panic instead of granting write access)")
                    if n == 0:
                        ok, why = False, "the checking helper %s never returns" % first
                    if ok and not inline_match and not F.mentions_adt(fb["output"], F.handle_paths.get("UniqueArc")) and not _returns_only_behind_gate(F, E, fb):
                        ok, why = False, "the first call of the deprecated writer (%s) does not return `&mut UniqueArc`" % first
                if ok:
                    rep.ok("R-PANIC-DECLINE", b["key"], cfg=tag)
                else:
                    rep.bad("R-PANIC-DECLINE", b["key"], why, F.loc(b), tag)
    rep.floor("R-PANIC-DECLINE", 2, "the two deprecated writers")


def _returns_only_behind_gate(F, E, fb):
    """Every `return` of the helper is unreachable from its entry once the gate-true edges (an Acquire uniqueness test of its first
    argument) are removed: the declining side cannot return."""
    B = cfg.Body(fb)
    G = Gates(F)
    cuts = gate_cuts(F, G, B, E)
    rets = [bi for bi, bl in enumerate(fb["blocks"]) if bl["term"]["k"] == "return"]
    if not rets or not cuts.get(1):
        return False
    return all(not reachable_without(B, cuts.get(1, set()), set(), bi) for bi in rets)


def _has_data(F, pl):
    for pe in pl["p"]:
        if isinstance(pe, dict) and pe.get("adt") == F.inner_path and F.data_field and pe.get("f") == F.data_field[0]:
            return True
    return False


def data_pointer_handles(F):
    """Handle types that store the *value's* address (their pointer field does not point at INNER): OffsetArc, ArcBorrow, ArcUnion."""
    out = {}
    for h, hp in F.handle_paths.items():
        adt = F.adts.get(hp)
        if not adt or adt["kind"] != "Struct" or h == "UniqueArc":
            continue
        for f in adt["variants"][0]["fields"]:
            ft = F.ty(f["ty"])
            pointee = None
            if ft["k"] in ("ptr", "ref"):
                pointee = ft["t"]
            elif ft["k"] == "adt" and ft["path"] == "core::ptr::non_null::NonNull":
                pointee = next((a["t"] for a in ft.get("args", []) if "t" in a), None)
            if pointee is None:
                continue
            pt = F.ty(pointee)
            if not (pt["k"] == "adt" and pt["path"] == F.inner_path) and not F.handle_name(pointee):
                out[hp] = h
    return out


def _via_data_pointer_handle(F, B, l, depth=0):
    """If raw/reference local `l` is (a cast / `as_ptr` of) the value pointer stored in a data-pointer handle, the place it was read from."""
    from .. import symx

    dph = getattr(F, "_dph", None)
    if dph is None:
        dph = F._dph = data_pointer_handles(F)
    o = B.origin_local(l)
    for _ in range(8):
        if o.get("kind") == "call":
            t = o["term"]
            if atomics.callee_of(t) in symx.IDENTITY_CALLS and t["args"]:
                o = B.origin(t["args"][0])
                continue
            return None
        if o.get("kind") == "place":
            pl = o["place"]
            if any(isinstance(pe, dict) and pe.get("adt") in dph for pe in pl["p"]):
                return pl
            return None
        # (a reference *to* the pointer field - `&mut self.ptr` - is not the value pointer: dereferencing it yields the field)
        return None
    return None


def _is_arc_to_unique_cast(F, B, rv):
    tt = F.ty(rv["ty"])
    if tt["k"] not in ("ptr", "ref"):
        return False
    if F.handle_name(tt["t"]) != "UniqueArc":
        return False
    pl = operand_place(rv["op"])
    if pl is None or "ty" not in pl:
        return False
    st = F.ty(pl["ty"])
    return st["k"] in ("ptr", "ref") and F.handle_name(st["t"]) == "Arc"


def _holds_fresh_block(F, E, B, op):
    """The operand is (a reference to) a value of a private non-handle type that was built - by an aggregate or by a private
    constructor function - around a pointer that comes straight from an allocation helper: `SliceFill::new(allocate(len), header)`."""
    from .. import symx

    e = symx.expr(F, B, op)
    while e[0] in ("addr", "cast"):
        e = e[1] if e[0] == "addr" else e[2]
    parts = ()
    if e[0] == "call" and e[1] in F.bodies and not balance.is_api(F, F.body(e[1])):
        out = F.body(e[1]).get("output")
        ot = F.ty(out) if out is not None else {}
        if ot.get("k") == "adt" and ot.get("local") and F.path_to_handle.get(ot["path"]) is None and not (F.adts.get(ot["path"]) or {}).get("reachable", True):
            parts = e[3]
    elif e[0] == "agg" and e[1] == "adt" and e[2] in F.adts and F.path_to_handle.get(e[2]) is None and not F.adts[e[2]].get("reachable", True):
        parts = e[4]
    for x in parts:
        while x[0] == "cast":
            x = x[2]
        if x[0] == "call" and (model.classify(x[1])[0] == model.ALLOC or (x[1] in F.bodies and _is_alloc_helper(E, x[1]))):
            return True
    return False


def _fresh_pointer(F, E, B, pl):
    """The place is rooted at a pointer that comes straight from an allocation (no handle exists yet)."""
    o = B.origin_local(pl["l"])
    seen = 0
    while o.get("kind") == "call" and seen < 8:
        t = o["term"]
        if _ptr_from_alloc(F, E, B, t, 0):
            return True
        c = atomics.callee_of(t)
        cls = model.classify(c)[0]
        if cls == model.NEUTRAL and t["args"]:
            o = B.origin(t["args"][0])
            seen += 1
            continue
        return False
    return False


REPLACERS = ("core::mem::replace", "core::ptr::write", "<*mut T>::write", "core::ptr::replace")


def refresh_blocks(F, E, B, roots, depth=0):
    """Blocks after which the handle behind one of `roots` (a `&mut Handle`) is a freshly constructed sole owner:
    `*r = fresh`, `mem::replace(r, fresh)`, `ptr::write(r, fresh)`, or a call of a local helper that does so on every path."""
    out = set()
    for bi, bl in enumerate(B.blocks):
        for s in bl["stmts"]:
            if s["k"] == "assign" and s["lhs"]["p"] == ["deref"] and s["lhs"]["l"] in roots and s["rv"]["k"] == "use":
                if fresh_value(F, E, B, s["rv"]["op"]):
                    out.add(bi)
        t = bl["term"]
        if t["k"] != "call" or not t["args"]:
            continue
        callee = atomics.callee_of(t)
        a0 = operand_place(t["args"][0])
        if a0 is None or not (root_args(B, a0["l"]) & set(roots)):
            continue
        if callee in REPLACERS and len(t["args"]) >= 2 and fresh_value(F, E, B, t["args"][1]):
            out.add(bi)
        elif callee in F.bodies and depth < 3:
            cb = F.body(callee)
            if cb.get("inputs") and F.ty(cb["inputs"][0])["k"] == "ref" and F.ty(cb["inputs"][0])["mut"]:
                CB = cfg.Body(cb)
                inner = refresh_blocks(F, E, CB, {1}, depth + 1)
                # the helper may also *test* the handle itself (`if !this.is_unique() { *this = fresh }`): on return the
                # handle is a sole owner if every path passed the gate-true edge or a fresh assignment
                G = F.__dict__.get("_gates_cache")
                if G is None:
                    G = F.__dict__["_gates_cache"] = Gates(F)
                edges = gate_cuts(F, G, CB, E).get(1, set())
                rets = [i for i, x in enumerate(cb["blocks"]) if x["term"]["k"] == "return"]
                # (a return that ends the very block holding the fresh assignment has passed it)
                if (inner or edges) and rets and not any(r not in inner and reachable_without(CB, edges, inner, r) for r in rets):
                    out.add(bi)
                    continue
                # ... or stores a value it was itself given (`fn replace_shared(this: &mut Self, fresh: Self)`): fresh at the
                # call site is what counts
                for k in range(2, len(cb.get("inputs") or []) + 1):
                    if k - 1 >= len(t["args"]) or not fresh_value(F, E, B, t["args"][k - 1]):
                        continue
                    stores = set()
                    for cj, cbl in enumerate(cb["blocks"]):
                        for s in cbl["stmts"]:
                            if s["k"] == "assign" and s["lhs"]["p"] == ["deref"] and 1 in root_args(CB, s["lhs"]["l"]) and s["rv"]["k"] == "use" and _moved_from_param(CB, s["rv"]["op"], k):
                                stores.add(cj)
                        ct = cbl["term"]
                        if ct["k"] == "call" and atomics.callee_of(ct) in REPLACERS and len(ct["args"]) >= 2:
                            c0 = operand_place(ct["args"][0])
                            if c0 is not None and 1 in root_args(CB, c0["l"]) and _moved_from_param(CB, ct["args"][1], k):
                                stores.add(cj)
                    if stores and rets and not any(r not in stores and reachable_without(CB, set(), stores, r) for r in rets):
                        out.add(bi)
                        break
    return out


def _moved_from_param(B, op, k, depth=0):
    """The operand is parameter k itself, moved (possibly through temporaries)."""
    pl = operand_place(op)
    if pl is None or pl["p"] or depth > 6:
        return False
    if pl["l"] == k:
        return True
    d = B.single_def(pl["l"])
    if d and d[0] == "assign" and d[3]["k"] == "use":
        return _moved_from_param(B, d[3]["op"], k, depth + 1)
    return False


def _justified(F, E, B, cuts, roots, goal_bb):
    """Every path entry -> goal passes a gate-true edge for one of `roots`, or a block that assigns a fresh handle to it."""
    cut_edges = set()
    for r in roots:
        cut_edges |= cuts.get(r, set())
    cut_blocks = refresh_blocks(F, E, B, roots)
    if False:
        for bi, bl in enumerate(B.blocks):
            for s in bl["stmts"]:
                if False:
                    cut_blocks.add(bi)
    if not cut_edges and not cut_blocks:
        return False
    if goal_bb in cut_blocks:
        return True
    return not reachable_without(B, cut_edges, cut_blocks, goal_bb)


def main(argv):
    return core.run_property(
        PROP,
        "other",
        run,
        argv,
        explanation=(
            "Gate dominance over every producer of exclusive access. The gate is found by shape (a function returning `load(count field) == 1`), "
            "and the load feeding it must be Acquire/SeqCst (R-ORD-5, pairs with C02's Release decrement). Producers are enumerated from MIR: "
            "`&mut` borrows of the payload field through a handle's pointer, casts `&mut Arc`->`&mut UniqueArc`, and UniqueArc constructions. "
            "Each must be, on every CFG path from the function entry, behind the true edge of a gate test on the same handle, or behind an "
            "assignment of a freshly constructed handle to it, or rooted in a fresh allocation / a value typed UniqueArc (sole owner by type); for "
            "unsafe constructors the obligation is checked at every call site instead. Decline paths leave the handle untouched (zero events, "
            "same value); the deprecated writers obtain their `&mut UniqueArc` only from the check that panics on decline. One frozen exemption "
            "(Arc<MaybeUninit<T>>::as_mut_ptr, returns a raw pointer). Not decided: the verdict as a run-time value; schedules beyond the lemma."
            " Producers also include plain writes into (and drops of) a payload place. Premises added later: C02's release-order rules R-ORD-2/3/6 (whoever observed 1 from its own decrement performs an acquire before touching the value), the ArcUnion dispatch rules (R-TAG, Clone/Drop R-ARMS), `compare_exchange(1, 1, Acquire, _)` in its strong form as a gate. Also decided on configuration arm32."
            ' R-UNIQUE-VIEW: no safe function lends out the shared handle inside a UniqueArc; a clone of a handle reached through a UniqueArc is not a sole owner.'
            ' Round thirteen/fourteen: R-GATE also over `addr_of_mut!` of the payload written through in a safe body; the gate may be `compare_exchange(1, 1, Acquire, Relaxed).is_ok()`; R-PANIC-DECLINE accepts writers and helpers whose returns all sit behind an Acquire gate edge; R-PROVENANCE; R-RACY-ASSERT inside R-UNW.'
            ' Round fifteen: `NonNull::<block>::as_mut()` is a producer of R-GATE (a `&mut` to the whole shared block); strict R-RACY-ASSERT.'
        ),
        rule_text="instances = gate definitions, producers of exclusive access, call sites of unchecked constructors, decline paths",
        trusted_base=["rustc nightly MIR, dominance computed on it", "release/acquire lemma (C02)", "C04: the count word equals the number of owners"],
        assumptions=["the count word equals the number of owning handles (C04)"],
    )
