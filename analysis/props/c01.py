"""C01 - a shared value lives exactly as long as some owning handle does."""
from .. import balance, cfg, core
from ..effects import ZERO, dcount, imbalance, vget
from ..facts import OWNING_HANDLES

PROP = "C01"

# count-neutral conversions the property enumerates: (handle, method, trait)
MOVES = [
    ("Arc", "into_raw_offset", None), ("Arc", "from_raw_offset", None),
    ("Arc", "into_thin", None), ("Arc", "from_thin", None),
    ("Arc", "protected_into_thin", None), ("Arc", "protected_from_thin", None),
    ("ArcUnion", "from_first", None), ("ArcUnion", "from_second", None),
    ("Arc", "from", "From"),  # header erasure both ways, and the other From impls are NEW-class (filtered below)
    ("UniqueArc", "shareable", None),
    ("Arc", "assume_init", None), ("UniqueArc", "assume_init", None),
    ("UniqueArc", "assume_init_slice", None), ("UniqueArc", "assume_init_slice_with_header", None),
]


def _owner_handle(F, b, depth=0, seen=None):
    """Handle type whose own code a body belongs to: the inherent impl it sits in, or - for a private free/nested function - the
    common owner of all its local callers (`fn drop_slow` nested inside `Arc::drop_inner` is still Arc's release path).
    Returns (handle name or None, is-trait-impl path or None)."""
    imp = b.get("impl") or {}
    if imp:
        hn = F.handle_name(imp["self_ty"])
        if hn is not None or imp.get("trait") or balance.is_api(F, b):
            return hn, imp.get("trait")
        # a private inherent method of a non-handle type (`ArcInner::release(&self) -> bool`): it belongs to whoever calls it
    owners = _owner_handles(F, b, depth, seen)
    if len(owners) == 1:
        return next(iter(owners))
    return None, None


def _owner_handles(F, b, depth=0, seen=None):
    """The set of (handle, trait) owners of a private function: those of its local callers; for the destructor of a private
    non-handle type (a guard), those of the functions that hold a value of that type."""
    imp = b.get("impl") or {}
    guard_adt = None
    if imp:
        hn = F.handle_name(imp["self_ty"])
        st = F.ty(imp["self_ty"])
        private_guard = imp.get("trait") == "core::ops::drop::Drop" and hn is None and st["k"] == "adt" and st.get("local") and not (F.adts.get(st["path"]) or {}).get("reachable", True)
        if private_guard:
            guard_adt = st["path"]
        elif hn is not None or imp.get("trait") or balance.is_api(F, b):
            return {(hn, imp.get("trait"))}
    if depth > 3 or (guard_adt is None and balance.is_api(F, b)):
        return {(None, None)}
    seen = seen or set()
    if b["key"] in seen:
        return set()
    seen = seen | {b["key"]}
    owners = set()
    for c in F.body_list:
        if c["key"] == b["key"] or c["kind"] == "Closure":
            continue
        uses = any(bl["term"]["k"] == "call" and balance._callee_key(bl["term"]) == b["key"] for bl in c["blocks"])
        if guard_adt is not None and not uses:
            cimp = c.get("impl") or {}
            own_method = cimp and F.ty(cimp["self_ty"]).get("path") == guard_adt
            uses = not own_method and any(bl["term"]["k"] == "drop" and F.ty(bl["term"].get("ty", 0)).get("path") == guard_adt for bl in c["blocks"])
        if uses:
            owners |= _owner_handles(F, c, depth + 1, seen)
    return owners or {(None, None)}


def rule_funnel(ctx, rep):
    for tag, F, E in ctx.each():
        for b, bi, t, cls in balance.count_sites(F):
            if cls in ("atomic_load", "fence"):
                continue
            hn, trait_ = _owner_handle(F, b)
            ik = "%s/%s" % (b["key"], cls)
            if cls == "atomic_cas":
                from .. import atomics as _at

                # an increment by compare-and-swap between constants is an increment (a failed swap changes nothing);
                # anything else the algebra cannot account for
                if _at.cas_test(t) is not None:
                    continue  # a test of the word that changes nothing
                cls = "atomic_add" if _at.cas_increment(t) is not None else "atomic_other"
            allowed = ("Arc", "UniqueArc") if cls == "atomic_new" else ("Arc",)
            if cls == "atomic_other":
                rep.bad("R-FUNNEL", ik, "the count word is accessed by something other than new/fetch_add/fetch_sub/load (%s): the balance algebra cannot account for it" % (t["resolved"]["def"]), F.loc(b, t["span"]), tag)
            elif hn in allowed and not trait_ or (hn == "Arc" and trait_ in ("core::clone::Clone", "core::ops::drop::Drop") and cls in ("atomic_add", "atomic_sub")) or (cls == "atomic_add" and (trait_ == "core::clone::Clone" or (trait_ or "").endswith("ref_cnt::RefCnt")) and hn in OWNING_HANDLES) or (cls == "atomic_add" and not trait_ and hn == "ArcBorrow"):  # (`ArcBorrow::clone_arc` is the borrow's clone)
                # (an owning handle kind may take its reference itself in its own `Clone` - the count word is the same one; that the
                # increment is guarded against overflow there too is C16's R-OVFGUARD, that it is balanced R-BAL)
                rep.ok("R-FUNNEL", ik, cfg=tag)
            else:
                rep.bad("R-FUNNEL", ik, "a %s of the count word lives in %s, outside Arc's own clone/release/constructor code: every handle kind must funnel through Arc's single increment and decrement" % (cls, b["key"]), F.loc(b, t["span"]), tag)
        for b, bi, t, what in balance.free_sites(F):
            owners = _owner_handles(F, b)
            ik = "%s/free" % b["key"]
            if owners and all(hn in ("Arc", "UniqueArc") and (not trait_ or trait_ == "core::ops::drop::Drop") for hn, trait_ in owners):
                rep.ok("R-FUNNEL", ik, cfg=tag)
            else:
                rep.bad("R-FUNNEL", ik, "a block is freed (%s) in %s, outside Arc's release path and UniqueArc's unwrap" % (what, b["key"]), F.loc(b, t["span"]), tag)
    rep.floor("R-FUNNEL", 4, "at least one increment, one decrement, one count initialisation and one free site (today: 1 + 1 + 3 + 2; sites may be merged by refactors)")


def _free_uses(F, A, key):
    """(body, path, event) wherever the freeing function `key` runs: a call of it, or - for the destructor of a private guard
    type (`struct FreeOnDrop`) - the drop of a value of that type."""
    kb = F.body(key) or {}
    imp = kb.get("impl") or {}
    adt = F.ty(imp["self_ty"]).get("path") if imp.get("trait") == "core::ops::drop::Drop" else None
    for b2 in F.body_list:
        if b2["key"] == key:
            continue
        for p in A.paths.get(b2["key"], []):
            for e in p.events:
                d = e["detail"] if isinstance(e["detail"], dict) else {}
                if e["kind"] == "CALL" and d.get("callee") == key and d.get("outcome") is None:
                    yield b2, p, e
                elif adt is not None and e["kind"] == "DROP" and d.get("adt") == adt:
                    yield b2, p, e


def rule_destroy(ctx, rep):
    """FREE only in shape S1 (after a decrement that observed 1) or S2 (sole owner by type)."""
    for tag, F, E in ctx.each():
        A = balance.analysis(tag, F, E)
        sites = balance.free_sites(F)
        for b, bi, t, what in sites:
            key = b["key"]
            ik = "%s/free" % key
            by_value_unique = any(F.handle_name(x) == "UniqueArc" for x in b.get("inputs", []))
            if by_value_unique:
                # S2: sole owner by type; on every path that frees: no decrement, the owner is retired without its destructor
                ok = True
                for p in A.paths.get(key, []):
                    if vget(p.vec, "free_raw") or vget(p.vec, "free_s1"):
                        if vget(p.vec, "dec") or vget(p.vec, "own") != -1 or vget(p.vec, "free_raw") != 1:
                            ok = False
                            rep.bad("R-DESTROY", ik, balance.path_report(F, b, p, "shape S2 (free by the sole owner) requires: no decrement, exactly one free, the owner hidden from its destructor"), F.loc(b, t["span"]), tag)
                            break
                if ok:
                    rep.ok("R-DESTROY", ik, "S2", cfg=tag)
                continue
            # S3 in place: the function itself observes `count == 1` on its own handle (an acquire load, C02 R-ORD-2) on every path
            # that frees, without decrementing (`fn take_if_unique(this) { if this.is_unique() { free } else { hand back } }`)
            from . import c03 as _c03

            G0 = _c03.Gates(F)
            own_edges = [(x, y) for (x, y, roots, o) in _c03.gate_edges_with_order(F, G0, cfg.Body(b)) if roots]
            fps = [p for p in A.paths.get(key, []) if vget(p.vec, "free_raw")]
            def _gate_before_free(p):
                blocks = list(p.blocks)
                fe = next((e for e in p.events if vget(e["vec"], "free_raw")), None)
                upto = blocks.index(fe["bb"]) if fe is not None and fe["bb"] in blocks else len(blocks)
                return any(blocks[i] == x and blocks[i + 1] == y for i in range(min(upto, len(blocks) - 1)) for (x, y) in own_edges)

            if own_edges and fps and all(not vget(p.vec, "dec") and _gate_before_free(p) for p in fps) and any(F.handle_name(x) in ("Arc", "UniqueArc") for x in b.get("inputs", [])):
                rep.ok("R-DESTROY", ik, "S3 in place", cfg=tag)
                continue
            # S1 in place: the function decrements the count itself and frees only on paths that come after that decrement
            # (`Arc::into_inner`: `if count.fetch_sub(1, Release) != 1 { return None } .. free`); that the decrement's result is
            # compared with 1 and the free sits on the `== 1` side is the dec-gate instance below (it covers every body with a
            # direct decrement), the ordering C02 R-ORD-2
            if fps is not None:
                frees_here = [p for p in A.paths.get(key, []) if vget(p.vec, "free_raw") or vget(p.vec, "free_s1")]
                def _s1_or_typed(p):
                    if not vget(p.vec, "free_raw"):
                        return vget(p.vec, "dec") == 1
                    # ... or the path hands the handle to a function typed as sole owner, which frees it (`Ok(unique) =>
                    # UniqueArc::into_inner(unique)`: shape S2, judged at that function's own free site)
                    if vget(p.vec, "dec"):
                        return False
                    for e in p.events:
                        if vget(e["vec"], "free_raw"):
                            d = e["detail"] if isinstance(e["detail"], dict) else {}
                            cb = F.body(d.get("callee") or "")
                            if e["kind"] != "CALL" or cb is None or not any(F.handle_name(x) == "UniqueArc" for x in cb.get("inputs", [])):
                                return False
                    return True

                if frees_here and all(_s1_or_typed(p) for p in frees_here) and any(not vget(p.vec, "free_raw") for p in frees_here) and any(b0["key"] == key for b0, _u, _ps in balance.release_units(F, E)):
                    rep.ok("R-DESTROY", ik, "S1 in place", cfg=tag)
                    continue
            # S1: the body must be private and every caller must reach it only after a decrement that observed 1
            if balance.is_api(F, b):
                rep.bad("R-DESTROY", ik, "a function reachable from outside the crate frees the block directly (%s) without being typed as sole owner" % what, F.loc(b, t["span"]), tag)
                continue
            callers = 0
            ok = True
            from . import c03

            G = c03.Gates(F)
            todo, seen_keys = [key], {key}
            while todo:
                fk = todo.pop()
                acq_cache = {}
                for b2, p, e in _free_uses(F, A, fk):
                    callers += 1
                    if not vget(e["vec"], "free_raw"):
                        continue  # paired with a decrement that observed 1 inside (shape S1)
                    # shape S3: the owner observed `count == 1` through an acquire load on this path (no decrement needed)
                    if b2["key"] not in acq_cache:
                        acq_cache[b2["key"]] = [(x, y) for (x, y, roots, o) in c03.gate_edges_with_order(F, G, cfg.Body(b2)) if 1 in roots]  # the ordering of that observation is C02's concern (R-ORD-2), not a lifetime matter
                    acq_edges = acq_cache[b2["key"]]
                    blocks = list(p.blocks)
                    upto = blocks.index(e["bb"]) if e["bb"] in blocks else len(blocks)
                    passed = any(blocks[i] == x and blocks[i + 1] == y for i in range(min(upto, len(blocks) - 1)) for (x, y) in acq_edges)
                    if passed and not vget(p.vec, "dec"):
                        continue
                    # shape S2 through a helper: the caller is typed as the sole owner (takes a UniqueArc by value),
                    # does not decrement, frees exactly once and retires its owner without the destructor
                    if any(F.handle_name(x) == "UniqueArc" for x in b2.get("inputs", [])) and not vget(p.vec, "dec") and vget(p.vec, "own") == -1 and vget(p.vec, "free_raw") == 1:
                        continue
                    if vget(p.vec, "free_s1") and not vget(p.vec, "free_raw"):
                        continue  # the path as a whole pairs this free with its own decrement that observed 1
                    # shape S0: a construction guard gives back a block that came straight from the allocator on this path and that
                    # no handle has ever owned (filling it unwound)
                    tt = b2["blocks"][e["bb"]]["term"] if isinstance(e.get("bb"), int) and e["bb"] < len(b2["blocks"]) else None
                    if e["kind"] == "DROP" and tt is not None and tt["k"] == "drop" and vget(p.vec, "alloc") >= 1 and not vget(p.vec, "dec") and vget(p.vec, "own") == 0 and c03._holds_fresh_block(F, E, cfg.Body(b2), {"mv": tt["place"]}):
                        continue
                    if not balance.is_api(F, b2) and b2["kind"] in ("Fn", "AssocFn"):
                        # a private function that frees without a test of its own (`drop_slow`, a guard's constructor): the
                        # obligation moves on to whoever calls it
                        if b2["key"] not in seen_keys:
                            seen_keys.add(b2["key"])
                            todo.append(b2["key"])
                        continue
                    ok = False
                    rep.bad("R-DESTROY", ik, balance.path_report(F, b2, p, "the freeing helper %s is called on a path with neither a preceding decrement of the count word that observed 1 nor an observation `count == 1` by the owner" % fk), F.loc(b2, e["span"]), tag)
            if callers == 0:
                rep.bad("R-DESTROY", ik, "freeing helper %s has no caller: cannot establish shape S1" % key, F.loc(b), tag)
            elif ok:
                rep.ok("R-DESTROY", ik, "S1", cfg=tag)
        # the decrement's result must be compared with 1 and the free must sit on the ==1 side (judged on release units: the
        # decrement, its test and the free may be spread over private helpers)
        for b0, unit, paths in balance.release_units(F, E):
            for d in balance.gate_sides(F, unit, paths):
                t = d["term"]
                ik = "%s/dec-gate" % b0["key"]
                if not any(balance.path_frees(p) for p in paths):
                    rep.bad("R-DESTROY", ik, "the body that decrements the count word never reaches a free: the last release would leak the block", F.loc(unit, t["span"]), tag)
                    continue
                if d["problem"] == "no-test":
                    rep.bad("R-DESTROY", ik, "no branch tests the value returned by the decrement against a constant: the free is not guarded by `old == 1`", F.loc(unit, t["span"]), tag)
                    continue
                if d["problem"] == "not-eq-1":
                    rep.bad("R-DESTROY", ik, "the decrement's old value is tested with `%s %s`, not `== 1`: the block would be freed while owners remain, or never" % (d["op"], d["k"]), F.loc(unit, d["switch"]["span"]), tag)
                    continue
                good = True
                msg = None
                if any(balance.path_frees(p) for p in d["paths_other"]):
                    good, msg = False, "a free is reachable on the branch where the decrement observed a value other than 1"
                if not any(balance.path_frees(p) for p in d["paths_one"]):
                    good, msg = False, "the branch where the decrement observed 1 does not reach the free"
                if good:
                    rep.ok("R-DESTROY", ik, cfg=tag)
                else:
                    rep.bad("R-DESTROY", ik, msg, F.loc(unit, d["switch"]["span"]), tag)
                if good:
                    # every way out of the last owner's release - return, or unwinding started by user code (a panicking payload
                    # destructor) - has returned the block to the allocator exactly once
                    ik2 = "%s/last-owner-exits" % b0["key"]
                    worst = None
                    n_exits = 0
                    for p in d["paths_one"]:
                        if p.notes:
                            continue
                        if p.exit == "unw" and (p.origin or "std") not in ("user", "panic"):
                            continue
                        n_exits += 1
                        nfree = balance.path_frees(p)
                        if nfree != 1 and worst is None:
                            worst = (p, nfree)
                    if worst:
                        p, nfree = worst
                        how = "returns" if p.exit == "ret" else "unwinds (started by %s)" % ("user code, e.g. a panicking payload destructor" if p.origin == "user" else "a library panic")
                        rep.bad("R-DESTROY", ik2, balance.path_report(F, unit, p, "the release that observed the last owner %s having returned the block to the allocator %d times instead of once: %s" % (how, nfree, "the memory is leaked" if nfree == 0 else "double free")), F.loc(unit, d["switch"]["span"]), tag)
                    elif n_exits:
                        rep.ok("R-DESTROY", ik2, "%d exits" % n_exits, cfg=tag)
    rep.floor("R-DESTROY", 3, "at least one free site (today two: the release path and the sole owner's unwrap; they may share one guard type), the decrement gate, the last-owner exits")


def rule_moves(ctx, rep):
    for tag, F, E in ctx.each():
        A = balance.analysis(tag, F, E)
        seen = 0
        for h, name, trait in MOVES:
            for b in F.method(h, name, trait):
                prs = [p for p in A.paths.get(b["key"], []) if p.exit == "ret"]
                if not prs:
                    continue
                # NEW-class From impls (from T, Box, Vec, &[T], &str, String) are not conversions between handles
                if trait == "From" and not any(F.tokens(t)[0] for t in b["inputs"]):
                    continue
                seen += 1
                bad = None
                for p in prs:
                    v = p.vec
                    if any(vget(v, k) for k in ("inc", "dec", "init", "alloc", "free_s1", "free_raw")) or vget(v, "own") != 0:
                        bad = p
                        break
                if bad:
                    rep.bad("R-MOVE", b["key"], balance.path_report(F, b, bad, "a conversion that consumes its source must be count-neutral and must neither allocate nor free"), F.loc(b), tag)
                else:
                    rep.ok("R-MOVE", b["key"], cfg=tag)
    rep.floor("R-MOVE", 13, "conversions named by the property (13 in the default configuration)")


def rule_sameblock(ctx, rep):
    """Conversions that consume a handle return a handle to the very same block (pointer normal forms; the offset lemma
    `(&(*P).data) - offset_of_data == P` is validated on the layout matrix by C05)."""
    from .. import ptrclass
    from . import c11

    for tag, F, E in ctx.each():
        N = ptrclass.Norm(F)
        PF = N.handle_ptr_fields

        def block_of(n):
            n = c11.simp(n)
            while n[0] == "mk" and n[1] == "UniqueArc":
                n = c11.simp(n[2])
            if n[0] == "mk" and n[1] in ("Arc", "ThinArc"):
                return c11.simp(n[2])
            if n[0] == "mk" and n[1] == "OffsetArc":
                return c11.simp(("sub_off", n[2]))
            return None

        def arg_block(ty_idx):
            hn = F.handle_name(ty_idx)
            a = ("arg", 1)
            if hn == "UniqueArc":
                inner = [f for f in F.adts[F.handle_paths["UniqueArc"]]["variants"][0]["fields"]][0]
                return ("stored", ("stored", a, inner["name"]), PF.get("Arc"))
            if hn in ("Arc", "ThinArc"):
                return ("stored", a, PF.get(hn))
            if hn == "OffsetArc":
                return ("sub_off", ("stored", a, PF.get("OffsetArc")))
            return None

        for h, name, trait in MOVES:
            for b in F.method(h, name, trait):
                if not b.get("inputs") or not F.tokens(b["inputs"][0])[0]:
                    continue
                want = arg_block(b["inputs"][0])
                if want is None:
                    continue
                n = N.ret(b["key"])
                got = block_of(n)
                if got is None:
                    continue  # not a handle-to-handle conversion this rule understands (e.g. into a union word: C12)
                if got == c11.simp(want):
                    rep.ok("R-SAMEBLOCK", b["key"], ptrclass.show(n), cfg=tag)
                else:
                    rep.bad("R-SAMEBLOCK", b["key"], "the conversion returns %s: its block pointer is not the argument's block pointer (%s), so counts would be taken from / given back to a different address for some payload shapes" % (ptrclass.show(n), ptrclass.show(c11.simp(want))), F.loc(b), tag)
    rep.floor("R-SAMEBLOCK", 8, "handle-to-handle conversions")


def run(ctx, rep):
    balance.rule_release_retarget(ctx, rep)  # release-then-store through `&mut Handle` must store on unwinding exits too
    rule_sameblock(ctx, rep)
    from .. import guards

    guards.rules(ctx, rep)  # a partial-initialisation guard is a second destroyer of payload values: never after the owner exists, never ahead of the writes
    from . import c12 as _c12

    _c12.union_dispatch(ctx, rep)  # ArcUnion owners are counted on the block of the Arc they were made from (tag arithmetic, per-variant types)
    balance.rule_bal(ctx, rep)
    balance.rule_unw(ctx, rep)
    rule_funnel(ctx, rep)
    from . import c10 as _c10

    _c10.rule_thick(ctx, rep)  # ... and reads that length from the very block it re-fattens (a prefix type whose `data` field sits elsewhere reads another word)
    _c10.rule_prot_mut(ctx, rep)  # a thin handle destroys (and frees) as many elements as the recorded length says: nothing lets safe code change it
    from . import c11 as _c11

    _c11.rule_refcnt_pair(ctx, rep)  # arc-swap settles a guard's debt by comparing `as_ptr` with `into_ptr`: if the glue lets them differ it releases a count nobody owned
    balance.rule_payload_dup(ctx, rep)  # a value read out bitwise while its handle is still armed is destroyed twice if something unwinds
    balance.rule_payload_gap(ctx, rep)  # ... and a payload destroyed in place leaves a hole until it is written again
    rule_destroy(ctx, rep)
    from . import c03

    c03.rule_gate_def(ctx, rep)  # shape S3 (an owner frees after observing `count == 1`) is only sound if that observation is the Acquire `== 1` gate over Release decrements
    rule_moves(ctx, rep)
    from . import c06

    c06.rule_moveonce(ctx, rep)  # values moved bitwise into a block: their source is disarmed exactly once, or they are destroyed twice
    # what a handle destroys at its last release is what its constructor wrote: every payload field written before the handle
    # (typed as initialised) exists, as many elements as the block was sized for (the constructor rules of C06)
    c06.rule_init(ctx, rep)
    c06.rule_lenflow(ctx, rep)
    c06.rule_iterloop(ctx, rep)
    from . import c07 as _c07

    _c07.rule_guard(ctx, rep)  # a handle re-pointed behind a lent transient reaches the caller's place on both exits, or one block is released twice and the other never
    balance.rule_write_provenance(ctx, rep)  # an owner's pointer must allow the writes owners make (count, get_mut, the final drop)
    balance.rule_writeback(ctx, rep)
    rep.floor("R-WRITEBACK", 0, "OffsetArc::make_mut today; a copy-on-write that never moves the handle out of its place has nothing to write back")
    rep.floor("R-BAL", 150, "API bodies (default configuration has 170+)")
    for tag, F, E in ctx.each():
        if E.unmodelled:
            for u in sorted(E.unmodelled):
                rep.bad("UNMODELLED-PRIMITIVE", u, "std primitive with ownership/atomic/allocation meaning has no model row: fail closed", None, tag)
        for k in sorted(E.recursion):
            rep.bad("UNSUPPORTED-SHAPE", k, "recursive call graph: summaries are computed bottom-up and need an acyclic graph", None, tag)


def main(argv):
    return core.run_property(
        PROP,
        "other",
        run,
        argv,
        explanation=(
            "Exhaustive static path analysis of every API body's MIR (drops elaborated, callees resolved by rustc, all feature "
            "configurations of the tier): on every normal and unwind path the reference-count word and the set of owning handle "
            "values change in lock-step (I = delta(count) - delta(owners) equals the signature-derived expectation: 0, +1 for "
            "handle->raw pointer, -1 for unsafe raw pointer->handle and for Drop impls); blocks are freed only after a decrement "
            "that observed 1 or by the typed sole owner; all handle kinds funnel through Arc's single increment/decrement; "
            "conversions are allocation-free and count-neutral. Decided: the count=owners invariant is preserved by every "
            "operation (hence by every finite history). Not decided: that reads through a live handle observe the right bytes; "
            "client-side unsafe misuse of from_raw-style functions."
            ' Premises added later: the ArcUnion dispatch rules (R-TAG evaluated over sample words and payload alignments, Clone/Drop R-ARMS: a union owner is counted on the block of the Arc it was made from); R-PROT-MUT (nothing lets safe code change the recorded length a thin handle destroys by); R-PAYLOAD-DUP (a payload read out bitwise while its handle is still armed is destroyed twice if anything unwinds in between); compare-and-swap between constants is an increment event. Also decided on a 32-bit non-x86 target (configuration arm32) for cfg arms the host never compiles.'
            ' R-PAYLOAD-GAP (a payload destroyed in place through an armed handle is written again before anything can fail), R-REFCNT-PAIR (arc-swap glue: as_ptr and into_ptr agree).'
            ' Round thirteen/fourteen: R-GUARD and R-PROVENANCE (the pointer of every handle literal does not derive from a shared reference to the block) as premises; R-WRITEBACK also for a duplicate rebuilt as a literal; R-RACY-ASSERT inside R-UNW (an assertion on a re-read count that a racing thread can falsify is a reachable exit).'
        ),
        rule_text="instances = (rule, API body or site); an instance is non-trivial when at least one ownership/count event lies on one of its paths",
        trusted_base=["rustc nightly MIR construction, drop elaboration and trait resolution", "std model table analysis/model.py", "user callbacks are themselves ownership-balanced"],
        assumptions=["std primitives behave as in analysis/model.py", "unsafe callers honour the contracts of from_raw-style functions", "user callbacks are ownership-balanced"],
    )
