"""C05 - each block fits its contents and is freed once with the layout it was requested."""
import itertools

from .. import atomics, balance, cfg, core, inline, layout, model, ptrclass, symx
from ..facts import operand_place
from . import c07

PROP = "C05"


def callers_of(F, key):
    out = []
    for b in F.body_list:
        B = None
        for bi, bl in enumerate(b["blocks"]):
            t = bl["term"]
            if t["k"] == "call" and atomics.callee_of(t) == key:
                if B is None:
                    B = cfg.Body(b)
                out.append((b, B, bi, t))
    return out


def subst_args(e, mapping):
    if not isinstance(e, tuple):
        return e
    if e and e[0] == "arg" and e[1] in mapping:
        return mapping[e[1]]
    return tuple(subst_args(x, mapping) if isinstance(x, tuple) else x for x in e)


def free_args(e, out):
    if not isinstance(e, tuple):
        return
    if e and e[0] == "arg":
        out.add(e[1])
        return
    if e and e[0] == "call" and e[2] == "for_value":
        return  # only the static type of the value matters (sized payloads); the evaluator ignores the argument
    for x in e:
        if isinstance(x, tuple):
            free_args(x, out)


def input_ty_str(F, b, i):
    try:
        return F.ts(b["inputs"][i - 1])
    except (IndexError, KeyError):
        return "?"


def roots_for(F, b, B, e, call_term, depth=0):
    """Lift an expression over Layout-typed parameters of body b to its callers. Yields (root body, B, expr, outer call term)."""
    fa = set()
    free_args(e, fa)
    layout_args = [i for i in fa if "Layout" in input_ty_str(F, b, i)]
    if not layout_args or depth > 5:
        yield (b, B, e, call_term)
        return
    cs = callers_of(F, b["key"])
    if not cs:
        yield (b, B, e, call_term)
        return
    for cb, cB, bi, t in cs:
        mapping = {}
        for i in fa:
            if i - 1 < len(t["args"]):
                mapping[i] = symx.expr(F, cB, t["args"][i - 1])
        e2 = subst_args(e, mapping)
        for r in roots_for(F, cb, cB, e2, t, depth + 1):
            yield r


def inner_of_nonnull(F, ty_idx):
    t = F.ty(ty_idx)
    if t["k"] == "adt" and t["path"] == "core::ptr::non_null::NonNull":
        x = t["args"][0]["t"]
        if F.is_adt(x, F.inner_path):
            return x
    if t["k"] in ("ptr", "ref") and F.is_adt(t["t"], F.inner_path):
        return t["t"]
    return None


def rule_repr(ctx, rep):
    for tag, F, E in ctx.each(da=False):
        want_c = [F.inner_path] + [a["path"] for a in F.raw["adts"] if a["name"] in ("HeaderSlice", "HeaderWithLength") and a["reachable"]]
        for p in want_c:
            a = F.adts.get(p or "")
            if a and a["repr_c"]:
                rep.ok("R-REPR", "%s repr(C)" % p, cfg=tag)
            else:
                rep.bad("R-REPR", "%s repr(C)" % p, "%s must be repr(C): the allocation side computes its layout by hand assuming declaration order and C padding, the release side uses the compiler's layout of the type" % p, None, tag)
        if F.count_field and F.count_field[0] == 0:
            rep.ok("R-REPR", "count word is field 0 of the block", cfg=tag)
        else:
            rep.bad("R-REPR", "count word is field 0 of the block", "the count word must be the first field of the block", None, tag)
        for a in F.raw["adts"]:
            if a["name"] == "HeaderSliceWithLengthProtected":
                if a["repr_transparent"]:
                    rep.ok("R-REPR", "%s repr(transparent)" % a["path"], cfg=tag)
                else:
                    rep.bad("R-REPR", "%s repr(transparent)" % a["path"], "pointer casts between the protected wrapper and the plain header-slice need repr(transparent)", None, tag)
    rep.floor("R-REPR", 5, "3 repr(C) types, count-first, 1 transparent wrapper")


def rule_layout(ctx, rep):
    full = ctx.tier == "thorough"
    shapes = layout.shape_list(full)
    cells_total = 0
    for tag, F, E in ctx.each(da=False):
        L = layout.Layouts(F)
        lens = layout.len_list(full, F.pointer_bits)
        nsites = 0
        for b in F.body_list:
            B = cfg.Body(b)
            for bi, t in B.calls():
                if model.classify(atomics.callee_of(t) or "")[0] != model.ALLOC:
                    continue
                nsites += 1
                e0 = symx.expr(F, B, t["args"][0])
                for rb, rB, e, outer in roots_for(F, b, B, e0, None):
                    ik = "%s <- %s" % (b["key"].split("::")[-1], rb["key"])
                    # the type the block is handed out as
                    pointee = None
                    if outer is not None:
                        dl = outer["dest"]["l"]
                        pointee = inner_of_nonnull(F, rb["locals"][dl]["ty"])
                    if pointee is None:
                        pointee = _arc_aggregate_pointee(F, rb)
                    if pointee is None:
                        from .. import inline

                        pointee = _arc_aggregate_pointee(F, inline.inlined(F, rb["key"]))  # handle built by a private constructor tail
                    if pointee is None and "output" in rb:
                        pointee = inner_of_nonnull(F, rb["output"])  # an allocation helper that returns the typed block pointer itself
                    if pointee is None:
                        rep.bad("R-LAYOUT", ik, "cannot determine the block type the allocation is handed out as", F.loc(rb), tag)
                        continue
                    fa = set()
                    free_args(e, fa)
                    int_args = sorted(i for i in fa if input_ty_str(F, rb, i) == "usize")
                    other = sorted(i for i in fa if i not in int_args)
                    if other:
                        rep.bad("R-LAYOUT", ik, "the requested layout depends on a run-time argument that is not a length: %s in %s" % (other, symx.show(e)), F.loc(rb), tag)
                        continue
                    tparams = sorted(set(F.ty(x)["name"] for x in F.walk(pointee) if F.ty(x)["k"] == "param"))
                    unsized = L.is_unsized(pointee)
                    bad = None
                    ncell = 0
                    try:
                        for combo in itertools.product(shapes, repeat=len(tparams)):
                            sh = dict(zip(tparams, combo))
                            for n in (lens if (int_args or unsized) else [0]):
                                ncell += 1
                                args = {i: n for i in int_args}
                                ts, ta = L.type_layout(pointee, sh, n)
                                try:
                                    v = L.eval(e, sh, args, n)
                                    req = (v[1], v[2])
                                except layout.Panic:
                                    req = "panic"
                                if ts > L.imax - (ta - 1):
                                    if req != "panic" and bad is None:
                                        bad = (sh, n, req, "overflow: the true size %d does not fit, yet a block of %s is requested instead of panicking" % (ts, req))
                                elif req == "panic":
                                    pass  # refusing a representable size is not a C05 matter
                                elif req != (ts, ta) and bad is None:
                                    bad = (sh, n, req, "requested (size, align) = %s but the block is handed out and later freed as %s with (size, align) = (%d, %d)" % (req, F.ts(pointee), ts, ta))
                    except layout.Unknown as ex:
                        rep.bad("R-LAYOUT", ik, "the requested layout cannot be evaluated (%s): %s" % (ex, symx.show(e)), F.loc(rb), tag)
                        continue
                    except layout.UB:
                        rep.bad("R-OVF", ik, "an overflowing layout computation is consumed with an unchecked unwrap: %s" % symx.show(e), F.loc(rb), tag)
                        continue
                    cells_total += ncell
                    if bad:
                        sh, n, req, msg = bad
                        rep.bad("R-LAYOUT", ik, "%s  [witness: %s, length %d]  requested = %s" % (msg, ", ".join("%s: size %d align %d" % (k, v[0], v[1]) for k, v in sh.items()), n, symx.show(e)), F.loc(rb), tag)
                    else:
                        rep.ok("R-LAYOUT", ik, cfg=tag)
                        if tag == "default":
                            rep.sample({"rule": "R-LAYOUT", "site": ik, "requested": symx.show(e), "handed_out_as": F.ts(pointee), "cells": ncell})
    rep.evaluations += cells_total
    rep.floor("R-LAYOUT", 2, "at least the header+slice chain and one sized chain (today 3: header+slice, From<Box>, new_uninit)")



def rule_data_offset(ctx, rep):
    """The offset subtracted by from_raw equals the repr(C) offset of the payload field, for every payload shape."""
    shapes = layout.shape_list(ctx.tier == "thorough")
    cells_total = 0
    for tag, F, E in ctx.each(da=False):
        L = layout.Layouts(F)
        # data offset expression
        from .. import ptrclass

        for b in F.body_list:
            # role: the function that maps a payload pointer to the payload's offset in its block (a method of the block type or
            # a free function: identified by use, see ptrclass.offset_fns)
            if b["key"] not in ptrclass.offset_fns(F):
                continue
            B = cfg.Body(b)
            e = symx.local_expr(F, B, 0, 0)
            pointee = F.ty(b["inputs"][0])["t"]
            block_ty = next((i for i, t in enumerate(F.types) if t["k"] == "adt" and t["path"] == F.inner_path and [a["t"] for a in t["args"] if "t" in a] == [pointee]), None)
            if block_ty is None:
                rep.bad("R-OFFSET", b["key"] + "/data-offset", "cannot find the block type for the payload type %s of the offset function" % F.ts(pointee), F.loc(b), tag)
                continue
            bad = None
            try:
                for sh_t in shapes:
                    sh = {x: sh_t for x in set(F.ty(y)["name"] for y in F.walk(block_ty) if F.ty(y)["k"] == "param")}
                    v = L.eval(e, sh, {}, 0)
                    r = L.type_layout(block_ty, sh, 0, want_fields=True)
                    want = r[2][F.data_field[0]]
                    cells_total += 1
                    if v != want and bad is None:
                        bad = (sh, v, want)
            except (layout.Unknown, layout.Panic, layout.UB) as ex:
                rep.bad("R-OFFSET", b["key"] + "/data-offset", "cannot evaluate the data offset expression %s (%s)" % (symx.show(e), type(ex).__name__ + " " + str(ex)), F.loc(b), tag)
                continue
            if bad:
                rep.bad("R-OFFSET", b["key"] + "/data-offset", "the offset subtracted when a raw data pointer is taken back is %s = %d, but the payload sits at offset %d of the repr(C) block [witness %s]" % (symx.show(e), bad[1], bad[2], bad[0]), F.loc(b), tag)
            else:
                rep.ok("R-OFFSET", b["key"] + "/data-offset", symx.show(e), cfg=tag)
    rep.evaluations += cells_total
    rep.floor("R-OFFSET", 1, "the data offset expression")


def _arc_aggregate_pointee(F, b):
    for bl in b["blocks"]:
        for s in bl["stmts"]:
            if s["k"] == "assign" and s["rv"]["k"] == "agg" and F.path_to_handle.get(s["rv"].get("adt")) == "Arc":
                pl = operand_place(s["rv"]["ops"][0])
                if pl is not None and "ty" in pl:
                    return inner_of_nonnull(F, pl["ty"])
    return None


def payload_of_handle(F, idx):
    """INNER<payload> type idx list for a handle type (Arc<X> -> X; UniqueArc<X> -> X)."""
    t = F.ty(idx)
    hn = F.handle_name(idx)
    if hn in ("Arc", "UniqueArc"):
        return [a["t"] for a in t["args"] if "t" in a][0]
    return None


def rule_retype(ctx, rep):
    """Every pointer re-typing between two block types that a handle survives is between types of equal layout."""
    full = ctx.tier == "thorough"
    shapes = layout.shape_list(False)
    lens = [0, 1, 2, 3, 7] + ([17, 1 << 20] if full else [])
    for tag, F, E in ctx.each(da=False):
        L = layout.Layouts(F)
        seen = {}
        for b in F.body_list:
            B = cfg.Body(b)
            pairs = []
            for bi, bl in enumerate(b["blocks"]):
                for s in bl["stmts"]:
                    if s["k"] != "assign" or s["rv"]["k"] != "cast":
                        continue
                    rv = s["rv"]
                    pl = operand_place(rv["op"])
                    if pl is None or "ty" not in pl:
                        continue
                    src, dst = pl["ty"], rv["ty"]
                    a, b2 = inner_of_nonnull(F, src), inner_of_nonnull(F, dst)
                    if rv["cast"].startswith("Transmute"):
                        pa, pb = payload_of_handle(F, src), payload_of_handle(F, dst)
                        if pa is not None and pb is not None:
                            pairs.append((("payload", pa), ("payload", pb), s["span"], "transmute", bi))
                            continue
                    if a is not None and b2 is not None and a != b2:
                        pairs.append((("inner", a), ("inner", b2), s["span"], rv["cast"].split("(")[0], bi))
                t = bl["term"]
                if t["k"] == "call" and atomics.callee_of(t) in ("<*mut T>::cast", "<*const T>::cast", "<core::ptr::non_null::NonNull<T>>::cast"):
                    r = t["resolved"]
                    ga = [x["t"] for x in r["args"] if "t" in x]
                    if len(ga) == 2 and F.is_adt(ga[0], F.inner_path) and F.is_adt(ga[1], F.inner_path) and ga[0] != ga[1]:
                        pairs.append((("inner", ga[0]), ("inner", ga[1]), t["span"], "cast()", bi))
            for (ka, a), (kb, b2), span, how, cast_bb in pairs:
                ik = "%s -> %s" % (F.ts(a), F.ts(b2))
                # a re-typing behind a run-time test of the two layouts (`if Layout::new::<T>() != Layout::new::<U>() { slow path }`)
                # is judged on the shapes that pass the test: the branch conditions whose edge every path to the cast takes
                guards = _dominating_conditions(F, B, b, cast_bb)
                tparams = sorted(set(F.ty(x)["name"] for x in list(F.walk(a)) + list(F.walk(b2)) if F.ty(x)["k"] == "param"))
                ua, ub = L.is_unsized(a), L.is_unsized(b2)
                bad = None
                try:
                    for combo in itertools.product(shapes, repeat=min(len(tparams), 2)):
                        sh = dict(zip(tparams, combo))
                        for extra in tparams[2:]:
                            sh[extra] = combo[0]
                        if guards and not _guards_hold(L, guards, sh):
                            continue
                        for n in (lens if (ua and ub) else [0]):
                            la = L.type_layout(a, sh, n)
                            lb = L.type_layout(b2, sh, n)
                            if ua != ub:
                                # thin <-> fat: the sized view is the prefix; compare with an empty tail
                                pass
                            if la != lb and bad is None:
                                bad = (sh, n, la, lb)
                except layout.Unknown as ex:
                    rep.bad("R-RETYPE", ik, "layout not determined (%s); the cast at %s relies on it" % (ex, F.loc(b, span)), F.loc(b, span), tag)
                    continue
                if bad:
                    rep.bad("R-RETYPE", ik, "a handle's block pointer is re-typed (%s in %s) between types whose layouts differ: %s vs %s for %s, tail length %d - the block would be freed with a layout it was not requested with" % (how, b["key"], bad[2], bad[3], bad[0], bad[1]), F.loc(b, span), tag)
                else:
                    rep.ok("R-RETYPE", ik, cfg=tag)
    rep.floor("R-RETYPE", 3, "header erasure (both ways), str, protected<->unchecked, MaybeUninit->init, thin<->thick")


def _dominating_conditions(F, B, b, goal):
    """[(condition expression, required truth)] for the boolean branches one of whose edges lies on every path to block `goal`."""
    from . import c03

    out = []
    for sj, bl in enumerate(b["blocks"]):
        tt = bl["term"]
        if tt["k"] != "switch" or sj == goal:
            continue
        c = B.condition(tt["discr"])
        if not c:
            continue
        truth = B.switch_truth(tt)
        if len(truth) != 2:
            continue
        for tgt, tv in truth.items():
            others = {(sj, x) for x in truth if x != tgt}
            # every path to the goal goes through (sj -> tgt): cutting that edge makes the goal unreachable, cutting the other does not
            if not c03.reachable_without(B, {(sj, tgt)}, set(), goal) and c03.reachable_without(B, others, set(), goal):
                want = tv != c["neg"]
                if "call" in c:
                    e = symx.local_expr(F, B, c["call"]["dest"]["l"], 0) if not c["call"]["dest"]["p"] else None
                else:
                    e = ("bin", c["op"], symx.expr(F, B, c["a"]), symx.expr(F, B, c["b"]))
                if e is not None:
                    out.append((e, want))
    return out


def _guards_hold(L, guards, sh):
    for e, want in guards:
        try:
            v = L.eval(e, sh, {}, 0)
        except (layout.Unknown, layout.Panic, layout.UB):
            continue  # not a condition on layouts: no restriction
        if isinstance(v, int) and bool(v) != want:
            return False
    return True


def _nobb(e):
    from . import c06

    return c06.nobb(e)


def _array_args(e, out=None):
    """Arguments of every `Layout::array::<_>(n)` inside a symbolic expression."""
    if out is None:
        out = []
    if isinstance(e, tuple):
        if e and e[0] == "call" and len(e) > 3 and e[1] == "<core::alloc::layout::Layout>::array" and e[3]:
            out.append(e[3][0])
        for x in e:
            _array_args(x, out)
    return out


def rule_fatlen(ctx, rep):
    """Every fabrication of a fat block pointer (slice_from_raw_parts re-typed to INNER<..[T]..>) takes its length either from the
    value the block was sized with, or from the length stored in that very block; Box<INNER<[..]>> frees with the layout that length implies."""
    for tag, F, E in ctx.each(da=False):
        n = 0
        for b in F.body_list:
            B = cfg.Body(b)
            for bi, t in B.calls():
                if atomics.callee_of(t) not in ("core::ptr::slice_from_raw_parts_mut", "core::ptr::slice_from_raw_parts", "<core::ptr::non_null::NonNull<[T]>>::slice_from_raw_parts"):
                    continue
                # does the result become a block pointer?
                dl = t["dest"]["l"]
                becomes_block = False
                for bl in b["blocks"]:
                    for s in bl["stmts"]:
                        if s["k"] == "assign" and s["rv"]["k"] == "cast":
                            pl = operand_place(s["rv"]["op"])
                            if pl is not None and inner_of_nonnull(F, s["rv"]["ty"]) is not None:
                                o = B.origin(s["rv"]["op"])
                                if o.get("kind") == "call" and o["term"] is t:
                                    becomes_block = True
                if not becomes_block:
                    continue
                n += 1
                ik = "%s/fat-pointer-length" % b["key"]
                _priv = lambda k: not balance.is_api(F, F.body(k))  # private accessors (`fn inner(&self) -> &ArcInner<..>`) are part of the expression
                len_e = _nobb(symx.normalize_calls(F, symx.expr(F, B, t["args"][1]), _priv))
                ptr_e = _nobb(symx.normalize_calls(F, symx.expr(F, B, t["args"][0]), _priv))
                data_name = F.data_field[1]
                ok = False
                why = "the length of the fabricated fat block pointer is %s" % symx.show(symx.expr(F, B, t["args"][1]))
                # (B) the block's own stored length, read through the pointer being re-typed
                if len_e[0] == "proj" and ptr_e[0] in ("proj", "arg") and len_e[2][-3:] == (data_name, "header", "length"):
                    base = ("proj", len_e[1], len_e[2][:-3]) if len_e[2][:-3] else len_e[1]
                    if base == ptr_e:
                        ok = True
                # (A) the value the allocation was sized with
                b_site = b
                if not ok and b["kind"] in ("Fn", "AssocFn") and not balance.is_api(F, b) and len_e[0] == "arg":
                    # the fat pointer is made in a private helper that is handed the length (`fn with_len(mem, len)`): judged
                    # at its one call site, with the argument it is given there
                    sites = [(cb, t3) for cb in F.body_list for _bj, t3 in cfg.Body(cb).calls() if atomics.callee_of(t3) == b["key"]]
                    if len(sites) == 1 and len_e[1] - 1 < len(sites[0][1]["args"]):
                        cb, t3 = sites[0]
                        len_e = _nobb(symx.normalize_calls(F, symx.expr(F, cfg.Body(cb), t3["args"][len_e[1] - 1]), _priv))
                        b_site = cb
                if not ok:
                    owner = (F.body(b_site.get("owner")) or b_site) if b_site["kind"] == "Closure" else b_site
                    OB = cfg.Body(owner)
                    sized_with = []
                    for bj, t2 in OB.calls():
                        if atomics.callee_of(t2) == "<core::alloc::layout::Layout>::array":
                            sized_with.append(_nobb(symx.expr(F, OB, t2["args"][0])))
                        elif atomics.callee_of(t2) in F.bodies and not t2["dest"]["p"]:
                            # the layout may be computed by a private helper (`fn header_and_slice_layout(len) -> Layout`)
                            ce = symx.local_expr(F, OB, t2["dest"]["l"], 0)
                            r = symx.inline_call(F, ce) if ce[0] == "call" else None
                            if r is not None:
                                sized_with += [_nobb(x) for x in _array_args(r)]
                    # ... or multiplied out by hand: `size_of::<T>().checked_mul(len)` / `size_of::<T>() * len` (that the product
                    # is the slice part of the requested layout is R-LAYOUT's evaluation, with this length as the tail length)
                    def _len_factor(x, y):
                        for u, v in ((x, y), (y, x)):
                            if u[0] == "call" and u[1] == "core::mem::size_of":
                                sized_with.append(v)

                    def _walk_mul(e, depth=0):
                        if not isinstance(e, tuple) or depth > 40:
                            return
                        if e and e[0] == "call" and e[2] in ("checked_mul", "wrapping_mul", "saturating_mul", "overflowing_mul", "unchecked_mul") and len(e[3]) == 2:
                            _len_factor(_strip_casts(_nobb(e[3][0])), _strip_casts(_nobb(e[3][1])))
                        if e and e[0] == "bin" and str(e[1]).startswith("Mul"):
                            _len_factor(_strip_casts(_nobb(e[2])), _strip_casts(_nobb(e[3])))
                        for x in e:
                            if isinstance(x, tuple):
                                _walk_mul(x, depth + 1)

                    for bj, t2 in OB.calls():
                        if (atomics.callee_of(t2) or "").endswith(("::checked_mul", "::wrapping_mul", "::saturating_mul", "::overflowing_mul", "::unchecked_mul")) and len(t2["args"]) == 2:
                            _len_factor(_nobb(symx.expr(F, OB, t2["args"][0])), _nobb(symx.expr(F, OB, t2["args"][1])))
                        elif atomics.callee_of(t2) in F.bodies and not balance.is_api(F, F.body(atomics.callee_of(t2))) and not t2["dest"]["p"]:
                            # ... inside a private helper (`fn slice_size::<T>(len)`, `Self::value_size(len)`)
                            _walk_mul(symx.normalize_calls(F, symx.local_expr(F, OB, t2["dest"]["l"], 0), _priv))
                    for bl2 in owner["blocks"]:
                        for s2 in bl2["stmts"]:
                            if s2["k"] == "assign" and s2["rv"]["k"] == "binop" and s2["rv"]["op"].startswith("Mul"):
                                _len_factor(_nobb(symx.expr(F, OB, s2["rv"]["a"])), _nobb(symx.expr(F, OB, s2["rv"]["b"])))
                    cand = len_e
                    if b_site["kind"] == "Closure" and len_e[0] == "proj" and len_e[1] == ("arg", 1) and len_e[2]:
                        try:
                            k = int(len_e[2][0])
                        except ValueError:
                            k = None
                        if k is not None:
                            for bl in owner["blocks"]:
                                for s in bl["stmts"]:
                                    if s["k"] == "assign" and s["rv"]["k"] == "agg" and s["rv"].get("agg") == "closure" and s["rv"].get("def") == b_site["key"] and k < len(s["rv"]["ops"]):
                                        cand = _nobb(symx.expr(F, OB, s["rv"]["ops"][k]))
                    if any(cand == x for x in sized_with):
                        ok = True
                    else:
                        why += ", which is neither the length the block was allocated for (%s) nor the length stored in the block: a `Box<INNER<[..]>>` made from this pointer frees the block with a layout it was not requested with" % ([symx.show(x) for x in sized_with] or "no Layout::array in the enclosing function")
                if ok:
                    rep.ok("R-FATLEN", ik, cfg=tag)
                else:
                    rep.bad("R-FATLEN", ik, why, F.loc(b, t["span"]), tag)
    rep.floor("R-FATLEN", 1, "at least one fabricated fat block pointer (today: the allocation closure and the thin-to-fat helper)")


def _layout_neutral_retype(F, B, op):
    """The cast only adds or removes `MaybeUninit<_>` / `ManuallyDrop<_>` around (parts of) the pointee: both are guaranteed to
    have the size, alignment and ABI of what they wrap, so the block is freed with the layout it was requested with."""
    o = B.origin(op, through_casts=False)
    if o.get("kind") != "rvalue" or o["rv"]["k"] != "cast":
        return False
    src = operand_place(o["rv"]["op"])
    if src is None or "ty" not in src:
        return False

    WR = ("core::mem::maybe_uninit::MaybeUninit", "core::mem::manually_drop::ManuallyDrop")

    def canon(i):
        t = F.ty(i)
        k = t["k"]
        if k == "adt":
            args = [canon(a["t"]) for a in t["args"] if "t" in a]
            if t["path"] in WR and args:
                return args[0]
            return t["path"] + ("<" + ", ".join(args) + ">" if args else "")
        if k == "slice":
            return "[" + canon(t["t"]) + "]"
        if k == "array":
            return "[" + canon(t["t"]) + "; " + str(t["len"]) + "]"
        if k in ("ref", "ptr"):
            return "*" + canon(t["t"])
        if k == "tuple":
            return "(" + ", ".join(canon(x) for x in t["ts"]) + ")"
        return t["s"]

    return canon(src["ty"]) == canon(o["rv"]["ty"])


def rule_free_type(ctx, rep):
    """The release side frees the block through the handle's own, un-retyped pointer. (Also judged in the configurations with
    debug assertions on: a release path may exist there only - a debug build that poisons the vacated payload before freeing.)"""
    for tag, F, E in ctx.each():
        for b, bi, t, what in balance.free_sites(F):
            B = cfg.Body(b)
            ik = b["key"] + "/free-type"
            # find the Box::from_raw feeding this drop
            ok = False
            why = "no Box::from_raw of the handle's pointer found"
            for bj, t2 in B.calls():
                if atomics.callee_of(t2) in ("<alloc::boxed::Box<T, alloc::alloc::Global>>::from_raw", "<alloc::boxed::Box<T, A>>::from_raw"):
                    N = ptrclass.Norm(F)
                    raw = symx.expr(F, B, t2["args"][0])
                    n = N.norm(raw, {})
                    x = n
                    while x[0] == "stored":
                        x = x[1]
                    retyped = raw[0] == "cast" and raw[1] == "PtrToPtr" and not _layout_neutral_retype(F, B, t2["args"][0])
                    pty = F.ts(t2["arg_tys"][0]) if t2.get("arg_tys") else ""
                    if "; 0]" in pty and F.mentions_adt(t2["arg_tys"][0], F.inner_path):
                        # `Box::from_raw(thin.ptr.as_ptr())`: the thin handle's stored pointer is typed at the prefix of the block
                        # (slice tail `[T; 0]`): freed through it, no element is destroyed and the layout is the header's alone
                        why = "the block is freed through the thin prefix type %s (its slice tail is typed `[T; 0]`): the elements are never destroyed and the block goes back with the layout of the header alone - a thin handle must re-fatten its pointer first" % pty
                        ok = False
                        break
                    if n[0] == "stored" and x == ("arg", 1) and not retyped:
                        ok = True
                    elif n[0] == "arg" and not retyped and not balance.is_api(F, b):
                        # a private helper taking the raw block pointer (`fn drop_slow(inner: *mut ArcInner<T>)`): every caller
                        # must hand it its own handle's stored, un-retyped pointer
                        k = n[1]
                        sites = 0
                        good = True
                        for c in F.body_list:
                            CB = None
                            for bl in c["blocks"]:
                                t3 = bl["term"]
                                if t3["k"] == "call" and balance._callee_key(t3) == b["key"] and len(t3["args"]) >= k:
                                    if CB is None:
                                        CB = cfg.Body(c)
                                    sites += 1
                                    raw3 = symx.expr(F, CB, t3["args"][k - 1])
                                    n3 = N.norm(raw3, {})
                                    y = n3
                                    while y[0] == "stored":
                                        y = y[1]
                                    if not (n3[0] == "stored" and y == ("arg", 1)) or (raw3[0] == "cast" and raw3[1] == "PtrToPtr"):
                                        good = False
                                        why = "the block pointer passed to the freeing helper by %s is %s, not the handle's stored block pointer" % (c["key"], ptrclass.show(n3))
                        if sites and good:
                            ok = True
                    elif retyped:
                        why = "the pointer given to Box::from_raw is re-typed first (%s)" % symx.show(raw)
                    else:
                        why = "the pointer given to Box::from_raw is %s, not the handle's stored block pointer" % ptrclass.show(n)
            if not ok and not balance.is_api(F, b) and any(F.ty(i)["k"] == "adt" and F.ty(i)["path"] == "alloc::boxed::Box" and F.mentions_adt(i, F.inner_path) for i in b.get("inputs", [])):
                # the freeing function is handed the block as a `Box<INNER>` (`fn drop_slow(b: Box<ArcInner<T>>)`): the Box is built
                # by whoever calls it - judged on the callers' bodies with the private helpers in between inlined
                g = cfg.call_graph(F)
                callers = [c for c in F.body_list if c["kind"] in ("Fn", "AssocFn") and balance.is_api(F, c) and b["key"] in cfg.reachable_from(g, [c["key"]])]
                good = bool(callers)
                for c in callers:
                    ib = inline.inlined(F, c["key"]) or c
                    IB = cfg.Body(ib)
                    N2 = ptrclass.Norm(F)
                    found = False
                    for _bj, t2 in IB.calls():
                        if atomics.callee_of(t2) in ("<alloc::boxed::Box<T, alloc::alloc::Global>>::from_raw", "<alloc::boxed::Box<T, A>>::from_raw"):
                            raw = symx.expr(F, IB, t2["args"][0])
                            n = N2.norm(raw, {})
                            x = n
                            while x[0] == "stored":
                                x = x[1]
                            if n[0] == "stored" and x == ("arg", 1) and not (raw[0] == "cast" and raw[1] == "PtrToPtr"):
                                found = True
                    if not found:
                        good = False
                        why = "no Box::from_raw of the handle's own stored pointer found in %s, which hands the block to %s" % (c["key"], b["key"])
                if good:
                    ok = True
            if not ok and what == "dealloc":
                ok2, why2 = _dealloc_free_type(F, E, b)
                if ok2 is not None:
                    ok, why = ok2, why2
            if ok:
                rep.ok("R-FREE-TYPE", ik, cfg=tag)
            else:
                rep.bad("R-FREE-TYPE", ik, why, F.loc(b, t["span"]), tag)
    rep.floor("R-FREE-TYPE", 1, "at least one free site (today two)")


def _strip_place(e, casts):
    """Strip address-of, trailing dereferences (and, if asked, pointer casts): the pointer an expression is about."""
    while True:
        if casts and e[0] == "cast":
            e = e[2]
        elif e[0] == "addr":
            e = e[1]
        elif e[0] == "proj" and e[2] and e[2][-1] == "*":
            e = ("proj", e[1], tuple(e[2][:-1])) if len(e[2]) > 1 else e[1]
        else:
            return e


def _strip_casts(e):
    while isinstance(e, tuple) and e and e[0] == "cast":
        e = e[2]
    return e


def _flat_derefs(e):
    """Dereferences of references on the way to a field are transparent (`(*x).p` is `(**y).p` for `y = &x`, as auto-deref through
    `ManuallyDrop` or a helper taking `&self` produces them): a place compared as root + field names."""
    if isinstance(e, tuple) and e and e[0] == "proj":
        names = tuple(n for n in e[2] if n != "*")
        root = _flat_derefs(e[1])
        if root[0] == "proj":
            return ("proj", root[1], tuple(root[2]) + names)
        return ("proj", root, names) if names else root
    if isinstance(e, tuple) and e and e[0] == "addr":
        return _flat_derefs(e[1])
    return e


def _dealloc_free_type(F, E, b):
    """The open-coded release `dealloc(p as *mut u8, Layout::for_value(&*p))`, possibly inside the destructor of a private guard
    value (`struct FreeOnDrop { inner, layout }`): judged in every function that drops such a guard, with constructor and
    destructor of the guard inlined. p must be the handle's own stored, un-retyped block pointer, and the layout must be taken from
    that very pointer (so it is the layout of the type - and length - the block was handed out as).
    Returns (None, None) if this is not that shape at all."""
    from .. import ptrclass

    imp = b.get("impl") or {}
    holders = [b]
    if imp.get("trait") == "core::ops::drop::Drop" and F.handle_name(imp["self_ty"]) is None:
        gp = F.ty(imp["self_ty"]).get("path")
        holders = [c for c in F.body_list if c["key"] != b["key"] and F.ty((c.get("impl") or {}).get("self_ty", 0)).get("path") != gp and any(bl["term"]["k"] == "drop" and F.ty(bl["term"].get("ty", 0)).get("path") == gp for bl in c["blocks"])]
        if not holders:
            return False, "the freeing guard type is never dropped by a function of the crate"
    N = ptrclass.Norm(F)
    seen = 0
    for hb in holders:
        ib = inline.inlined_with_drops(F, hb["key"]) or hb
        B = cfg.Body(ib)
        for _bi, t in B.calls():
            if model.classify(atomics.callee_of(t) or "")[0] != model.DEALLOC or len(t["args"]) < 2:
                continue
            seen += 1
            raw = symx.expr(F, B, t["args"][0])
            pe = _strip_place(raw, True)
            n = N.norm(pe, {})
            x = n
            while x[0] == "stored":
                x = x[1]
            from . import c03

            fresh = pe[0] == "call" and pe[1] in F.bodies and c03._is_alloc_helper(E, pe[1])  # a construction guard giving back a block no handle ever owned: the typed pointer the allocation helper returned
            if not (n[0] == "stored" and x == ("arg", 1)) and not fresh:
                return False, "in %s the pointer given to dealloc is %s, not the handle's stored block pointer" % (hb["key"], ptrclass.show(n))
            le = symx.expr(F, B, t["args"][1])
            if not (le[0] == "call" and le[1] in ("<core::alloc::layout::Layout>::for_value", "<core::alloc::layout::Layout>::for_value_raw") and le[3]):
                return False, "in %s the layout given to dealloc is %s, not `Layout::for_value` of the block itself" % (hb["key"], symx.show(le))
            if _nobb(_flat_derefs(_strip_place(le[3][0], False))) != _nobb(_flat_derefs(pe)):
                return False, "in %s the layout given to dealloc is computed from %s, which is not the (un-retyped) pointer being freed (%s)" % (hb["key"], symx.show(le[3][0]), symx.show(pe))
            gi = le[6] if len(le) > 6 else ()
            if not gi or not F.is_adt(gi[0], F.inner_path):
                return False, "in %s the layout given to dealloc is that of %s, not of the block type" % (hb["key"], le[4])
    if not seen:
        return None, None
    return True, None


def run(ctx, rep):
    rule_repr(ctx, rep)
    balance.rule_zst_div(ctx, rep)  # "any size ... including zero-sized": no division by a payload size that may be zero
    rule_layout(ctx, rep)
    rule_data_offset(ctx, rep)
    rule_retype(ctx, rep)
    rule_fatlen(ctx, rep)
    from . import c10

    from . import c07 as _c07

    _c07.rule_guard(ctx, rep)  # "exactly that block is returned once": a replacement made behind with_arc_mut's transient must reach the handle on both exits, or the old block is freed twice and the new one never
    c10.rule_thin_ctor(ctx, rep)  # R-FATLEN accepts "the length stored in the block": that equals the length the block was sized with only through the checked thin conversion
    rule_free_type(ctx, rep)
    from . import c06

    c06.rule_moveonce(ctx, rep)  # the storage of a consumed Box/Vec goes back to the allocator exactly as it was obtained (a zero-sized Box owns none)
    c07.rule_null(ctx, rep)


def main(argv):
    return core.run_property(
        PROP,
        "translation_validation",
        run,
        argv,
        explanation=(
            "Translation-validation flavour: the `Layout` expression reaching every raw `alloc` call is extracted from MIR def-use chains on every run "
            "(across the helper chain, parameters substituted at each caller) and evaluated exhaustively on the property's shape matrix - header and "
            "element (size, align) with sizes 0..64 multiples of alignments 1..64, lengths 0..17 and huge - against the repr(C) layout, computed from "
            "the ADT table, of the block type the allocation is handed out (and, via Box<INNER<X>>, later freed) as; overflowing shapes must panic, never "
            "yield a short block. Same for the data offset subtracted by from_raw versus the payload field's repr(C) offset. R-REPR: the types relied on "
            "are repr(C)/repr(transparent) with the count word first. R-RETYPE: every re-typing of a block pointer between two block types (header "
            "erasure, str, protected wrapper, MaybeUninit -> init, thin <-> thick, transmute of handles) is between types of equal layout on the matrix. "
            "R-FREE-TYPE: both free sites build the Box from the handle's own stored pointer. R-NULL: null-checked allocation. Evaluation of an "
            "extracted expression, not execution of the crate. Not decided: what the allocator does with the layout."
            " Round thirteen/fourteen: R-GUARD as a premise (a replacement behind with_arc_mut's transient reaches the handle on both exits); the block type may be read off an allocation helper's return type; bitwise NOT on integers is evaluated."
            ' Round fifteen: R-ZST-DIV (no division by a generic payload size without a non-zero test); integer methods (`wrapping_neg` ...) are evaluated.'
            ' Round sixteen: R-FREE-TYPE also in the debug-assertion configurations; layout-neutral re-typings (MaybeUninit / ManuallyDrop) accepted; no free through the thin prefix type.'
        ),
        rule_text="programs = (allocation site, root caller) pairs and re-typing casts; each is evaluated on every cell of the shape matrix; a disagreement is reported with a concrete (H, T, len) witness",
        trusted_base=["std's documented Layout::extend/array/pad_to_align arithmetic and the repr(C) layout algorithm (re-implemented in analysis/layout.py)", "rustc MIR def-use", "Box<T> frees with Layout::for_value of its pointee"],
        assumptions=["the global allocator honours the layout it is given"],
    )
