"""C10 - a ThinArc is an exact one-word stand-in for the fat Arc."""
from .. import atomics, balance, cfg, core, ptrclass, symx
from ..effects import vget
from ..facts import operand_place
from . import c04, c07

PROP = "C10"


def prot_path(F):
    c = [a for a in F.raw["adts"] if a["name"] == "HeaderSliceWithLengthProtected" and a["reachable"]]
    return c[0]["path"] if len(c) == 1 else None


def hwl_path(F):
    c = [a for a in F.raw["adts"] if a["name"] == "HeaderWithLength" and a["reachable"]]
    return c[0]["path"] if len(c) == 1 else None


def in_typestate(F, PROT, ty_idx):
    """Does the type mention the protected payload or ThinArc (values that already carry the length invariant)?"""
    thin = F.handle_paths.get("ThinArc")
    return F.mentions_adt(ty_idx, PROT) or F.mentions_adt(ty_idx, thin)


def strip_deref_calls(e):
    """a.header.length reached through Deref::deref(&a): normalise `deref(&x).*` to x."""
    if not isinstance(e, tuple):
        return e
    if e[0] == "call" and e[2] in ("read", "cast", "as_ptr") and len(e[3]) == 1 and e[1] in ("core::ptr::read", "<*const T>::read", "<*mut T>::read", "<core::ptr::non_null::NonNull<T>>::cast", "<core::ptr::non_null::NonNull<T>>::as_ptr", "<*const T>::cast", "<*mut T>::cast"):
        # a place read spelled `addr_of!(place).read()`, a pointer re-typed with `.cast()`: the same place / the same address
        return strip_deref_calls(e[3][0])
    if e[0] == "call" and e[2] in ("deref", "inner", "slice", "length", "header") and e[3]:
        inner = strip_deref_calls(e[3][0])
        if e[2] in ("slice", "length", "header"):
            return ("proj", inner, (e[2],))
        return inner
    if e[0] == "addr":
        return strip_deref_calls(e[1])
    if e[0] == "proj":
        r = strip_deref_calls(e[1])
        names = tuple(n for n in e[2] if n != "*")
        if r[0] == "proj":
            return ("proj", r[1], tuple(r[2]) + names)
        return ("proj", r, names) if names else r
    if e[0] == "cast":
        return strip_deref_calls(e[2])
    return tuple(strip_deref_calls(x) if isinstance(x, tuple) else x for x in e)


def _is_length_pair(a, b):
    """(`<root>.length`, `<root>.slice.len()`) in either order: the root both sides talk about, or None."""
    for x, y in ((a, b), (b, a)):
        if x[0] == "proj" and x[2][-1:] == ("length",) and y[0] == "call" and y[2] == "len" and y[3]:
            z = strip_deref_calls(y[3][0])
            if z[0] == "proj" and z[2][-1:] == ("slice",) and z[1] == x[1]:
                # root agreement; inner may be reached via `.inner` of the protected wrapper on both sides
                return x[1]
    return None


def _tuple_of(e):
    """`&*&(a, b, ..)` -> the component expressions of a tuple literal compared by reference (what `assert_eq!` builds)."""
    for _ in range(6):
        if e[0] == "addr":
            e = e[1]
        elif e[0] == "proj" and e[2] == ("*",):
            e = e[1]
        else:
            break
    return e[4] if e[0] == "agg" and e[1] == "tuple" else None


def length_check_edges(F, B):
    """Switches testing `<stored length> == <slice>.len()` on the same root: [(bb, true_target, root)]"""
    out = []
    for bi, bl in enumerate(B.blocks):
        tt = bl["term"]
        if tt["k"] != "switch":
            continue
        c = B.condition(tt["discr"])
        if not c:
            continue
        if "call" in c and (c["call"].get("callee") or "") in ("core::cmp::PartialEq::eq", "core::cmp::PartialEq::ne") and len(c["call"]["args"]) == 2:
            # `(a.header.length, ..) == (a.slice.len(), ..)`: std's tuple equality holds only if every component pair is equal
            ta, tb = (_tuple_of(symx.expr(F, B, x)) for x in c["call"]["args"])
            if ta is None or tb is None or len(ta) != len(tb):
                continue
            is_eq = c["call"]["callee"].endswith("::eq")
            for xa, xb in zip(ta, tb):
                root = _is_length_pair(strip_deref_calls(xa), strip_deref_calls(xb))
                if root is not None:
                    for tgt, tv in B.switch_truth(tt).items():
                        if ((tv != c["neg"]) == is_eq):
                            out.append((bi, tgt, root))
            continue
        if "op" not in c or c["op"] not in ("Eq", "Ne"):
            continue
        a = strip_deref_calls(symx.expr(F, B, c["a"]))
        b = strip_deref_calls(symx.expr(F, B, c["b"]))
        root = _is_length_pair(a, b)
        if root is not None:
            for tgt, tv in B.switch_truth(tt).items():
                eq_true = (tv != c["neg"]) == (c["op"] == "Eq")
                if eq_true:
                    out.append((bi, tgt, root))
    return out


def _thin_ctor(F, PROT, thin, rep, tag):
    # ------------------------------------------------------------ R-THIN-CTOR
    intro = {}  # body key -> list of (span, what)
    for b in F.body_list:
        if b["kind"] not in ("Fn", "AssocFn", "Closure"):
            continue
        for bl in b["blocks"]:
            for s in bl["stmts"]:
                if s["k"] != "assign":
                    continue
                rv = s["rv"]
                if rv["k"] == "cast":
                    pl = operand_place(rv["op"])
                    if pl is None or "ty" not in pl:
                        continue
                    if in_typestate(F, PROT, rv["ty"]) and not in_typestate(F, PROT, pl["ty"]):
                        intro.setdefault(b["key"], []).append((s["span"], "cast %s -> %s" % (F.ts(pl["ty"]), F.ts(rv["ty"]))))
                elif rv["k"] == "agg" and rv.get("agg") == "adt" and rv["adt"] in (thin, PROT):
                    ops_in = any(in_typestate(F, PROT, (operand_place(o) or {}).get("ty", 0)) for o in rv["ops"] if operand_place(o))
                    intro.setdefault(b["key"], []).append((s["span"], "construction of %s" % rv["adt"].split("::")[-1]))
    unsafe_ctors = set()
    checked = 0
    work = list(intro.items())
    seen_keys = set()
    while work:
        key, sites = work.pop()
        if key in seen_keys:
            continue
        seen_keys.add(key)
        b = F.body(key)
        owner = (F.body(b.get("owner")) or b) if b["kind"] == "Closure" else b
        params_in = any(in_typestate(F, PROT, t) for t in owner.get("inputs", []))
        ik = "%s/typestate-entry" % key
        if params_in:
            rep.ok("R-THIN-CTOR", ik, "derived from a value already carrying the invariant", cfg=tag)
            continue
        if owner.get("unsafe"):
            unsafe_ctors.add(owner["key"])
            rep.ok("R-THIN-CTOR", ik, "unsafe constructor: obligation moves to its call sites", cfg=tag)
            # callers
            for cb in F.body_list:
                for bi, bl in enumerate(cb["blocks"]):
                    t = bl["term"]
                    if t["k"] == "call" and atomics.callee_of(t) == owner["key"]:
                        work.append((cb["key"], [(t["span"], "call of " + owner["key"])]))
                        intro.setdefault(cb["key"], [])
                        _call_site(F, cb, bi, t, rep, tag, PROT)
            continue
        # a safe function that conjures the typestate directly: must be behind the length check
        B = cfg.Body(b)
        edges = length_check_edges(F, B)
        rep.bad("R-THIN-CTOR", ik, "a safe function creates a value typed as length-checked (%s) without going through the checked conversion" % sites[0][1], F.loc(b, sites[0][0]), tag) if not edges else rep.ok("R-THIN-CTOR", ik, cfg=tag)


def _thick(F, PROT, rep, tag):
        # ------------------------------------------------------------ R-THICK
        thick = [b for b in F.body_list if b["kind"] in ("Fn", "AssocFn") and any(F.handle_name(F.strip_refs(t)) == "ThinArc" for t in b.get("inputs", [])) and "output" in b and (F.ty(b["output"])["k"] == "ptr" or F.ts(b["output"]).startswith("core::ptr::non_null::NonNull<")) and F.mentions_adt(b["output"], PROT)]
        if len(thick) != 1:
            rep.bad("R-THICK", "re-fattening helper", "expected exactly one helper turning `&ThinArc` into a fat block pointer, found %d" % len(thick), None, tag)
        else:
            tb = thick[0]
            B = cfg.Body(tb)
            e = symx.normalize_calls(F, symx.local_expr(F, B, 0, 0), lambda k: not balance.is_api(F, F.body(k)))  # a private `inner()` accessor is part of the helper
            calls = []
            _collect(e, calls)
            sl = [c for c in calls if c[2] in ("slice_from_raw_parts_mut", "slice_from_raw_parts")]
            ok = False
            why = "no slice_from_raw_parts found"
            if len(sl) == 1:
                ptr_e = strip_deref_calls(sl[0][3][0])
                len_e = strip_deref_calls(sl[0][3][1])
                data_name = F.data_field[1] if F.data_field else "data"
                thin_field = ptrclass.Norm(F).handle_ptr_fields.get("ThinArc")
                if (len_e[0] == "proj" and ptr_e[0] == "proj" and len_e[1] == ptr_e[1] and ptr_e[2][-1:] == (thin_field,)
                        and tuple(len_e[2]) == tuple(ptr_e[2]) + (data_name, "header", "length")):
                    ok = True
                else:
                    why = "the length of the synthesised fat pointer is %s, not the length stored in the same allocation (%s.data.header.length)" % (symx.show(sl[0][3][1]), symx.show(sl[0][3][0]))
            if ok:
                rep.ok("R-THICK", tb["key"], symx.show(e), cfg=tag)
                rep.sample({"rule": "R-THICK", "helper": tb["key"], "fat_pointer": symx.show(e)}) if tag == "default" else None
            else:
                rep.bad("R-THICK", tb["key"], why, F.loc(tb), tag)
            # everything that needs the fat pointer goes through the helper
            g = cfg.call_graph(F)
            for h, name, tr in (("ThinArc", "deref", "Deref"), ("ThinArc", "with_arc", None), ("ThinArc", "with_arc_mut", None), ("ThinArc", "clone", "Clone"), ("ThinArc", "drop", "Drop"), ("Arc", "protected_from_thin", None)):
                for b in F.method(h, name, tr):
                    fat = any(F.mentions_adt(lc["ty"], PROT) and (F.handle_name(F.strip_refs(lc["ty"])) == "Arc" or F.ty(F.strip_refs(lc["ty"]))["k"] == "ptr") for lc in b["locals"])
                    if tb["key"] in cfg.reachable_from(g, [b["key"]]):
                        rep.ok("R-THICK", b["key"] + " uses the helper", cfg=tag)
                    elif not fat:
                        rep.ok("R-THICK", b["key"] + " uses the helper", "works on the thin pointer alone (no fat pointer or fat Arc in its body)", cfg=tag)
                    else:
                        rep.bad("R-THICK", b["key"] + " uses the helper", "%s does not obtain its fat pointer from the length-reading helper" % b["key"], F.loc(b), tag)


def _is_prefix_payload(F, ti, HWL):
    """`HeaderSlice<HeaderWithLength<H>, [T; 0]>`: the sized prefix a thin pointer is typed at."""
    t = F.ty(ti)
    if t["k"] != "adt":
        return False
    args = [a["t"] for a in t.get("args", []) if "t" in a]
    return len(args) == 2 and F.is_adt(args[0], HWL) and F.ty(args[1])["k"] == "array" and str(F.ty(args[1]).get("len")) == "0"


def _no_prefix_owner(F, HWL, rep, tag):
    """No owning `Arc` is ever typed at the thin pointer's prefix type: dropping such a handle as the last owner destroys the header
    only and frees a zero-element layout (seed C10m: arc-swap's `dec` written as `drop(Arc::from_raw(ptr))` on the thin pointer).
    Every owner taken back from a thin pointer goes through the length-reading helper (`Arc::from_thin` / `thin_to_thick`)."""
    bad = None
    for b in F.body_list:
        for lc in b["locals"]:
            ti = F.strip_refs(lc["ty"])
            if F.handle_name(ti) in ("Arc", "UniqueArc", "OffsetArc"):
                inner = [a["t"] for a in F.ty(ti).get("args", []) if "t" in a]
                if inner and _is_prefix_payload(F, inner[0], HWL) and bad is None:
                    bad = (b, F.ts(lc["ty"]))
    ik = "no owner typed at the thin prefix"
    if bad is None:
        rep.ok("R-THICK", ik, cfg=tag)
    else:
        rep.bad("R-THICK", ik, "%s holds a value of type %s: an owning handle typed at the zero-length prefix of a thin allocation - released as the last owner it runs no element destructor and frees the block with the prefix's layout; owners come back from a thin pointer through the helper that reads the stored length" % (bad[0]["key"], bad[1]), F.loc(bad[0]), tag)


def rule_thick(ctx, rep):
    """R-THICK alone (premise of C11: what `from_raw(into_raw(x))` gives back is read through the same helper)."""
    for tag, F, E in ctx.each():
        PROT = prot_path(F)
        if not PROT or not F.handle_paths.get("ThinArc"):
            continue
        _thick(F, PROT, rep, tag)
        if hwl_path(F):
            _no_prefix_owner(F, hwl_path(F), rep, tag)
    rep.floor("R-THICK", 3, "the re-fattening helper + at least two users")


def _prot_mut(F, PROT, HWL, thin, rep, tag):
    if True:
        # ------------------------------------------------------------ R-PROT-MUT
        nmut = 0
        for b in F.body_list:
            for bl in b["blocks"]:
                for s in bl["stmts"]:
                    if s["k"] != "assign":
                        continue
                    places = []
                    if s["lhs"]["p"]:
                        places.append(("assignment", s["lhs"]))
                    rv = s["rv"]
                    if rv["k"] in ("ref", "rawptr") and rv["mut"]:
                        places.append(("mutable borrow", rv["place"]))
                    for how, pl in places:
                        idx = None
                        for i, pe in enumerate(pl["p"]):
                            if isinstance(pe, dict) and pe.get("adt") == PROT:
                                idx = i
                        if idx is None:
                            continue
                        nmut += 1
                        rest = [pe.get("name") for pe in pl["p"][idx + 1 :] if isinstance(pe, dict) and "f" in pe]
                        ik = "%s/%s .%s" % (b["key"], how, ".".join(["inner"] + [str(r) for r in rest]))
                        ok = rest[:2] == ["header", "header"] or rest[:1] == ["slice"]
                        if ok:
                            rep.ok("R-PROT-MUT", ik, cfg=tag)
                        else:
                            rep.bad("R-PROT-MUT", ik, "mutable access reaches the protected payload at `.%s`: only the user header and the slice may be mutated, the recorded length must stay equal to the slice length" % ".".join(["inner"] + [str(r) for r in rest]), F.loc(b, s["span"]), tag)
        padt = F.adts[PROT]
        fld = padt["variants"][0]["fields"][0]
        if fld["pub"]:
            rep.bad("R-PROT-MUT", "protected field is private", "the wrapped header-slice is a public field: safe code could change the recorded length", None, tag)
        else:
            rep.ok("R-PROT-MUT", "protected field is private", cfg=tag)
        for im in F.impls:
            tr = im.get("trait") or ""
            st = F.ty(im["self_ty"])
            if st["k"] == "adt" and st["path"] in (PROT, thin) and tr in ("core::ops::deref::DerefMut", "core::convert::AsMut", "core::borrow::BorrowMut"):
                rep.bad("R-PROT-MUT", "%s for %s" % (tr, st["s"]), "a %s impl would hand out `&mut` to the whole length-carrying payload" % tr.split("::")[-1], "%s:%s" % (im["span"]["file"], im["span"]["line"]), tag)
        rep.ok("R-PROT-MUT", "no DerefMut/AsMut/BorrowMut on ThinArc or the protected payload", cfg=tag)
        # accessors returning &mut into the protected payload must be header_mut / slice_mut shaped (covered above by places)
        # no safe function hands out `&mut` to a length-carrying payload outside the protected wrapper on the strength of a thin
        # handle (`ThinArc::get_mut(&mut self) -> Option<&mut HeaderSlice<HeaderWithLength<H>, [T]>>`: the recorded length is a
        # public field there, and every fat pointer rebuilt from the thin one trusts it)
        for b in F.body_list:
            if b["kind"] not in ("Fn", "AssocFn") or b.get("unsafe") or not balance.is_api(F, b) or "output" not in b:
                continue
            if not any(F.mentions_adt(t, thin) or F.mentions_adt(t, PROT) for t in b.get("inputs", [])):
                continue
            leak = None
            for ti in F.walk(b["output"]):
                tt = F.ty(ti)
                if tt["k"] == "ref" and tt.get("mut") and F.mentions_adt(tt["t"], HWL) and not F.mentions_adt(tt["t"], PROT):
                    leak = ti
            ik = "%s/returns &mut to the recorded length" % b["key"]
            if leak is not None:
                rep.bad("R-PROT-MUT", ik, "safe function `%s` returns %s: mutable access to a payload whose recorded length is a plain field, obtained from a thin handle - safe code could change the length that every re-fattening of the thin pointer (Deref, Clone, Drop) trusts" % (b["sig"], F.ts(leak)), F.loc(b), tag)


def rule_prot_mut(ctx, rep):
    """R-PROT-MUT alone (premise of C01: a thin handle destroys as many elements as its block's recorded length says)."""
    for tag, F, E in ctx.each():
        PROT, HWL, thin = prot_path(F), hwl_path(F), F.handle_paths.get("ThinArc")
        if not PROT or not HWL or not thin:
            continue
        _prot_mut(F, PROT, HWL, thin, rep, tag)
    rep.floor("R-PROT-MUT", 4, "header_mut, slice_mut, private field, no DerefMut")


def rule_thin_ctor(ctx, rep):
    """Every entry into the length-checked typestate from safe code is behind `recorded length == slice length` (shared with C07:
    a lying iterator whose len() changes between calls must end in the checked conversion's panic)."""
    for tag, F, E in ctx.each():
        PROT = prot_path(F)
        thin = F.handle_paths.get("ThinArc")
        if PROT and thin:
            _thin_ctor(F, PROT, thin, rep, tag)
    rep.floor("R-THIN-CTOR", 2, "the typestate entry and at least one checked call site (today 3 instances)")


def run(ctx, rep):
    # the thin handle stays an owner of its block on every path, unwinding out of lent callbacks included
    def scope(F):
        def thin(b):
            tys = list(b.get("inputs", [])) + ([b["output"]] if "output" in b else [])
            st = (b.get("impl") or {}).get("self_ty")
            if st is not None:
                tys.append(st)
            prot = next((p for p, a in F.adts.items() if a["name"] == "HeaderSliceWithLengthProtected"), "-")
            return any(F.handle_name(F.strip_refs(t)) == "ThinArc" or F.mentions_adt(t, prot) or F.mentions_adt(t, F.handle_paths.get("ThinArc", "-")) for t in tys)

        return balance.scope_closure(F, [b for b in F.body_list if b["kind"] in ("Fn", "AssocFn") and thin(b)])

    balance.rule_bal(ctx, rep, scope=scope)  # (of the thin handle's operations and conversions, and of what they are built from)
    balance.rule_unw(ctx, rep, scope=scope)
    for tag, F, E in ctx.each():
        A = balance.analysis(tag, F, E)
        PROT = prot_path(F)
        HWL = hwl_path(F)
        thin = F.handle_paths.get("ThinArc")
        if not PROT or not thin or not HWL:
            rep.bad("ANCHOR-LOST", "types", "HeaderSliceWithLengthProtected / HeaderWithLength / ThinArc not found", None, tag)
            continue
        _thin_ctor(F, PROT, thin, rep, tag)
        _prot_mut(F, PROT, HWL, thin, rep, tag)
        _thick(F, PROT, rep, tag)
        _no_prefix_owner(F, HWL, rep, tag)
        # ------------------------------------------------------------ identity of conversions (same allocation, count untouched)
        N = ptrclass.Norm(F)
        fA, fT = N.handle_ptr_fields.get("Arc"), N.handle_ptr_fields.get("ThinArc")
        for h, name, want in (("Arc", "protected_into_thin", ("mk", "ThinArc", ("stored", ("arg", 1), fA))), ("Arc", "protected_from_thin", ("mk", "Arc", ("stored", ("arg", 1), fT))),
                              ("Arc", "into_thin", ("mk", "ThinArc", ("stored", ("arg", 1), fA))), ("Arc", "from_thin", ("mk", "Arc", ("stored", ("arg", 1), fT)))):
            for b in F.method(h, name):
                n = N.ret(b["key"])
                vecs = [p.vec for p in A.paths[b["key"]] if p.exit == "ret"]
                msg = c04.check_class("ZERO", vecs)
                if n == want and not msg:
                    rep.ok("R-THIN-ID", b["key"], ptrclass.show(n), cfg=tag)
                else:
                    rep.bad("R-THIN-ID", b["key"], "the conversion must return a handle around the very same block pointer without touching the count: returns %s; %s" % (ptrclass.show(n), msg or ""), F.loc(b), tag)
        # ------------------------------------------------------------ refused conversion releases the Arc
        for b in F.method("Arc", "into_thin"):
            prs = [p for p in A.paths[b["key"]] if p.exit == "unw" and p.origin == "panic"]
            if not prs:
                rep.bad("R-THIN-REFUSE", b["key"], "no panicking path found in into_thin (the length check is gone)", F.loc(b), tag)
            else:
                bad = [p for p in prs if not (c04.released(p.vec) == 1 and vget(p.vec, "own") == -1)]
                if bad:
                    rep.bad("R-THIN-REFUSE", b["key"], balance.path_report(F, b, bad[0], "when the conversion is refused the Arc must be released (one decrement, one owner retired)"), F.loc(b), tag)
                else:
                    rep.ok("R-THIN-REFUSE", b["key"], cfg=tag)
    c07.rule_guard(ctx, rep)
    from . import c05

    c05.rule_repr(ctx, rep)
    c05.rule_retype(ctx, rep)  # the thin prefix type and the fat type agree on where the count, the header and the recorded length live, for every payload shape (the `[T; 0]` tail is what gives the prefix the elements' alignment)
    from . import c06

    # "the stored length equals the number of elements the block really holds": the thin constructors record `items.len()` and
    # hand the items to the fat constructor, which must then write exactly that many slots (or panic)
    c06.rule_lenflow(ctx, rep)
    c06.rule_iterloop(ctx, rep)
    c05.rule_layout(ctx, rep)  # ... in a block sized for that many (a size computation that wraps leaves the recorded length without elements behind it)
    rep.floor("R-THIN-CTOR", 2, "the typestate entry and at least one checked call site (today 3 instances)")
    rep.floor("R-PROT-MUT", 4, "header_mut, slice_mut, private field, no DerefMut")
    rep.floor("R-THICK", 3, "the re-fattening helper + at least two users (today 6)")
    rep.floor("R-THIN-ID", 4, "four thin/fat conversions")
    rep.floor("R-THIN-REFUSE", 1, "into_thin")


def _collect(e, out):
    if not isinstance(e, tuple):
        return
    if e and e[0] == "call":
        out.append(e)
    for x in e:
        if isinstance(x, tuple):
            _collect(x, out)
        elif isinstance(x, (list,)):
            for y in x:
                _collect(y, out)


def _call_site(F, cb, bi, t, rep, tag, PROT):
    """A call of an unsafe typestate constructor from a safe function must be dominated by the true edge of the length check
    on the value being converted."""
    owner = (F.body(cb.get("owner")) or cb) if cb["kind"] == "Closure" else cb
    ik = "%s/call:%s" % (cb["key"], (F.body(atomics.callee_of(t)) or {}).get("name"))
    if owner.get("unsafe") or any(in_typestate(F, PROT, x) for x in owner.get("inputs", [])):
        return
    B = cfg.Body(cb)
    edges = length_check_edges(F, B)
    arg = strip_deref_calls(symx.expr(F, B, t["args"][0])) if t["args"] else None
    good = False
    for (sbi, tgt, root) in edges:
        # the call must be unreachable once the true edge is removed, and the checked value is the converted one
        seen = set()
        todo = [0]
        reach = False
        while todo:
            x = todo.pop()
            if x in seen:
                continue
            seen.add(x)
            if x == bi:
                reach = True
                break
            for s2 in B._succ[x]:
                if (x, s2) == (sbi, tgt):
                    continue
                todo.append(s2)
        same = arg is not None and (root == arg or (root[0] == "arg" and arg[0] == "arg" and root[1] == arg[1]))
        if not reach and same:
            good = True
    if good:
        rep.ok("R-THIN-CTOR", ik, "behind `stored length == slice.len()` on the converted value", cfg=tag)
    else:
        rep.bad("R-THIN-CTOR", ik, "the unchecked conversion into the length-checked typestate is reachable without passing the true edge of `recorded length == slice length` on the value being converted: a ThinArc could be built whose stored length disagrees with its allocation", F.loc(cb, t["span"]), tag)


def main(argv):
    return core.run_property(
        PROP,
        "other",
        run,
        argv,
        explanation=(
            "The invariant `stored length = slice length` is carried by a type (the protected header-slice wrapper / ThinArc). The check makes sure "
            "nothing can forge or disturb it. R-THIN-CTOR: every cast or aggregate that introduces the typestate from a value outside it sits in an "
            "unsafe constructor, and every call of such a constructor from safe code is dominated by the true edge of a comparison between the stored "
            "length field and `slice.len()` of the very value being converted (extracted by def-use, cut-set reachability). R-PROT-MUT: every mutable "
            "borrow or assignment reaching into the protected payload ends in the user header or the slice, never the recorded length or the whole "
            "value; the field is private; no DerefMut/AsMut/BorrowMut. R-THICK: the single re-fattening helper takes the slice length from "
            "`.data.header.length` of the same pointer it re-types, and Deref, with_arc, with_arc_mut, Clone, Drop and protected_from_thin all reach "
            "it. R-THIN-ID: thin<->fat conversions return a handle around the same block pointer (pointer normal forms) with zero count events. "
            "R-THIN-REFUSE: on the refusing (panicking) path of into_thin the Arc is released. R-GUARD: with_arc_mut's write-back guard (see C07). "
            "Not decided: element addresses/values at run time."
            " Added later as premises: C06's R-LENFLOW / R-ITERLOOP (the fat constructor writes exactly as many slots as the thin constructor records, or panics) and C05's R-LAYOUT (the block is sized for that many, on every target width analysed); a signature-level clause of R-PROT-MUT."
            ' R-THICK: no owning handle is ever typed at the thin prefix type.'
            ' Round thirteen: the length check may be a comparison of tuples containing the (recorded length, slice length) pair.'
            ' Round seventeen: R-RETYPE as a premise (the thin prefix type and the fat type agree on where count, header and recorded length live).'
        ),
        rule_text="instances = typestate entry points and their call sites, mutable-access sites into the protected payload, users of the re-fattening helper, conversions",
        trusted_base=["rustc MIR, type information and privacy", "C03 (no `&mut` to a shared payload), C04 (count balance)"],
        assumptions=["unsafe callers of ThinArc::from_raw pass pointers from ThinArc::into_raw"],
    )
