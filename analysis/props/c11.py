"""C11 - raw pointers round-trip to the same allocation; handles are one word wide."""
from .. import balance, cfg, core, ptrclass, symx
from ..facts import operand_place
from . import c04, c13

PROP = "C11"


def simp(n):
    """Simplify with the offset lemma: (&(*P).data) - offset_of_data == P (offset validated on the layout matrix by C05)."""
    if not isinstance(n, tuple):
        return n
    n = tuple(simp(x) if isinstance(x, tuple) else x for x in n)
    if n[0] == "sub_off" and n[1][0] == "data":
        return n[1][1]
    if n[0] == "data" and n[1][0] == "sub_off":
        return n[1][1]  # the same lemma read the other way: the payload of the block a payload pointer belongs to
    if n[0] == "dataplace":
        return ("data", n[1], n[2] or "ref")
    return n


def subst(n, i, val):
    if not isinstance(n, tuple):
        return n
    if n == ("arg", i):
        return val
    return tuple(subst(x, i, val) if isinstance(x, tuple) else x for x in n)


def addr_of(n):
    """Address denoted by a reference/pointer normal form, ignoring how it was formed and transparent-wrapper fields."""
    n = simp(n)
    while n[0] == "field":
        n = n[1]
    n = simp(n)
    if n[0] == "data":
        return ("data", addr_of(n[1]))
    if n[0] == "stored":
        return ("stored", addr_of(n[1]), n[2])
    return n


def has_ref_data(n):
    if not isinstance(n, tuple):
        return False
    if n[0] == "data" and n[2] == "ref":
        return True
    return any(has_ref_data(x) for x in n if isinstance(x, tuple))


def _union_words_agree(F, b_as, b_into):
    """Both functions, evaluated on sample stored words (either tag) and payload alignments, return the stored word itself."""
    from . import c12

    u = F.adts.get(F.handle_paths.get("ArcUnion", ""))
    if not u:
        return False
    gen = [g["name"] for g in u["generics"] if g["kind"] == "type"]
    symx.set_facts(F)
    priv = lambda k: not balance.is_api(F, F.body(k)) or (F.body(k) or {}).get("name") in ("borrow", "is_first", "is_second", "get")
    es = [symx.normalize_calls(F, symx.fn_value(F, b), priv) for b in (b_as, b_into)]
    bits = F.pointer_bits
    for aa in c12.ALIGNS:
        for ab in c12.ALIGNS:
            al = {gen[0]: aa, gen[1]: ab}
            for P in c12.SAMPLES:
                if P >= (1 << bits) or P % max(aa, ab, 8):
                    continue
                for tagbit in (0, 1):
                    w = P | tagbit
                    leaf = c12.union_word_leaf(w, al)
                    for e in es:
                        if symx.eval_int(e, leaf, bits) != w:
                            return False
    return True


def rule_refcnt_pair(ctx, rep, only=None):
    """arc-swap's contract for `RefCnt` impls: `as_ptr(&h)` and `into_ptr(h)` denote the same pointer (it matches the pointer it
    recorded for a `load()` guard against the one it holds; if they differ - e.g. one keeps a tag bit the other strips - it
    releases a count nobody owned), and `from_ptr` takes back what `into_ptr` gave out. Judged on every `RefCnt` impl of the
    crate (pointer normal forms), in the configurations that have the feature."""
    n = 0
    for tag, F, E in ctx.each(da=False):
        N = ptrclass.Norm(F)
        impls = {}
        for b in F.body_list:
            imp = b.get("impl") or {}
            if (imp.get("trait") or "").endswith("ref_cnt::RefCnt") and b.get("name") in ("as_ptr", "into_ptr", "from_ptr"):
                hn = F.handle_name(imp["self_ty"])
                if only is not None and hn not in only:
                    continue
                impls.setdefault((hn or F.ts(imp["self_ty"])), {})[b["name"]] = b
        for hn, ms in impls.items():
            if "as_ptr" not in ms or "into_ptr" not in ms:
                continue
            n += 1
            ik = "%s as RefCnt::as_ptr=into_ptr" % hn
            a = simp(N.ret(ms["as_ptr"]["key"]))
            r = simp(N.ret(ms["into_ptr"]["key"]))
            if a == r and a[0] != "opaque":
                rep.ok("R-REFCNT-PAIR", ik, ptrclass.show(a), cfg=tag)
            elif hn == "ArcUnion" and _union_words_agree(F, ms["as_ptr"], ms["into_ptr"]):
                rep.ok("R-REFCNT-PAIR", ik, "evaluated: both yield the stored (tagged) word for every sample word and payload alignment", cfg=tag)
            else:
                rep.bad("R-REFCNT-PAIR", ik, "`RefCnt::as_ptr` returns %s but `RefCnt::into_ptr` returns %s: arc-swap compares the two to settle the debt of a `load()` guard; when they differ it drops the guard's handle although the count was never taken - the value is released while still owned" % (ptrclass.show(a), ptrclass.show(r)), F.loc(ms["as_ptr"]), tag)
    return n


def run(ctx, rep):
    from . import c10

    rule_refcnt_pair(ctx, rep)
    from . import c07 as _c07

    _c07.rule_guard(ctx, rep)  # the address a handle reports is that of the block it owns: a replacement behind with_arc_mut's transient is stored back on both exits
    balance.rule_zst_div(ctx, rep)  # the round trip works "for every payload size ... including zero-sized types"
    balance.rule_writeback(ctx, rep)
    balance.rule_release_retarget(ctx, rep)  # (a hand-written `clone_from` that releases before it stores leaves the handle with the released address when the release unwinds)
    c10.rule_thick(ctx, rep)  # a thin handle taken back from its raw pointer shows the slice its block holds: the length is read from that block's own header
    for tag, F, E in ctx.each(da=False):
        N = ptrclass.Norm(F)
        PF = N.handle_ptr_fields  # the pointer field of each handle kind (private names are not hard-wired)
        fArc, fThin, fOff, fBor = PF.get("Arc"), PF.get("ThinArc"), PF.get("OffsetArc"), PF.get("ArcBorrow")

        def nf(h, name, trait=None):
            bs = F.method(h, name, trait)
            if not bs:
                return None, None
            b = bs[0]
            if len(bs) > 1:
                # e.g. assume_init on two impls: not used here
                pass
            return b, N.ret(b["key"])

        # ---------------------------------------------------------- value address: as_ptr / into_raw vs Deref
        for h in ("Arc", "ThinArc"):
            bd, d = nf(h, "deref", "Deref")
            for name in ("as_ptr", "into_raw"):
                b, n = nf(h, name)
                if b is None or bd is None:
                    rep.bad("ANCHOR-LOST", "R-RAWPAIR/%s::%s" % (h, name), "raw accessor or Deref impl named by the property is missing", None, tag)
                    continue
                ik = "%s::%s=deref-address" % (h, name)
                if addr_of(n) == addr_of(d):
                    rep.ok("R-RAWPAIR", ik, ptrclass.show(n), cfg=tag)
                else:
                    rep.bad("R-RAWPAIR", ik, "%s::%s returns %s, but the value itself lives at %s (what Deref yields): the raw pointer is not the value's address" % (h, name, ptrclass.show(n), ptrclass.show(simp(d))), F.loc(b), tag)
        # ---------------------------------------------------------- as_ptr and into_raw agree; RefCnt forwards
        for h in ("Arc", "ThinArc"):
            b1, a = nf(h, "as_ptr")
            b2, r = nf(h, "into_raw")
            if b1 and b2:
                ik = "%s::into_raw=as_ptr" % h
                if simp(a) == simp(r):
                    rep.ok("R-RAWPAIR", ik, cfg=tag)
                else:
                    rep.bad("R-RAWPAIR", ik, "%s::into_raw returns %s but as_ptr returns %s" % (h, ptrclass.show(r), ptrclass.show(a)), F.loc(b2), tag)
            for m, inh in (("into_ptr", "into_raw"), ("as_ptr", "as_ptr"), ("from_ptr", "from_raw")):
                b3, x = nf(h, m, "RefCnt")
                b4, y = nf(h, inh)
                if b3 is None:
                    continue
                ik = "%s as RefCnt::%s=%s" % (h, m, inh)
                if b4 is not None and simp(x) == simp(y):
                    rep.ok("R-RAWPAIR", ik, cfg=tag)
                else:
                    rep.bad("R-RAWPAIR", ik, "arc-swap glue %s returns %s, the inherent %s returns %s" % (m, ptrclass.show(x), inh, ptrclass.show(y) if y else None), F.loc(b3), tag)
        # ---------------------------------------------------------- round trips recover the same stored pointer
        trips = [("Arc", "into_raw", "Arc", "from_raw", fArc), ("Arc", "into_raw", "Arc", "from_raw_slice", fArc), ("ThinArc", "into_raw", "ThinArc", "from_raw", fThin)]
        for h1, out, h2, back, fld in trips:
            b1, o = nf(h1, out)
            bs = F.method(h2, back)
            if b1 is None or not bs:
                rep.bad("ANCHOR-LOST", "R-RAWPAIR/%s->%s" % (out, back), "round-trip pair named by the property is missing", None, tag)
                continue
            for b2 in bs:
                i = N.ret(b2["key"])
                comp = simp(subst(i, 1, o))
                ik = "%s::%s(%s(h)) = h" % (h2, back, out)
                want = ("mk", h2, ("stored", ("arg", 1), fld))
                if comp == want:
                    rep.ok("R-RAWPAIR", ik, cfg=tag)
                    rep.sample({"rule": "R-RAWPAIR", "pair": ik, "out": ptrclass.show(o), "back": ptrclass.show(i)}) if tag == "default" else None
                else:
                    rep.bad("R-RAWPAIR", ik, "feeding %s's result %s to %s gives %s, not a handle around the original block pointer" % (out, ptrclass.show(o), back, ptrclass.show(comp)), F.loc(b2), tag)
        # OffsetArc conversions
        b1, o = nf("Arc", "into_raw_offset")
        b2, i = nf("Arc", "from_raw_offset")
        if b1 and b2:
            stored = o[2] if o[0] == "mk" else ("opaque", "?")
            comp = simp(subst(subst(i, 1, ("H",)), 1, ("H",)))
            # from_raw_offset(x) reads x.ptr: substitute the stored pointer of the OffsetArc built by into_raw_offset
            comp = simp(_replace_stored(i, stored))
            if comp == ("mk", "Arc", ("stored", ("arg", 1), fArc)):
                rep.ok("R-RAWPAIR", "Arc::from_raw_offset(into_raw_offset(h)) = h", cfg=tag)
            else:
                rep.bad("R-RAWPAIR", "Arc::from_raw_offset(into_raw_offset(h)) = h", "the OffsetArc round trip yields %s" % ptrclass.show(comp), F.loc(b2), tag)
            if addr_of(stored) == ("data", ("stored", ("arg", 1), fArc)):
                rep.ok("R-RAWPAIR", "OffsetArc bit pattern = value address", cfg=tag)
            else:
                rep.bad("R-RAWPAIR", "OffsetArc bit pattern = value address", "an OffsetArc stores %s, not the address of the value" % ptrclass.show(stored), F.loc(b1), tag)
        # ArcBorrow
        b1, o = nf("Arc", "borrow_arc")
        if b1:
            if o[0] == "mk" and addr_of(o[2]) == ("data", ("stored", ("arg", 1), fArc)):
                rep.ok("R-RAWPAIR", "Arc::borrow_arc stores the value address", cfg=tag)
            else:
                rep.bad("R-RAWPAIR", "Arc::borrow_arc stores the value address", "borrow_arc stores %s" % ptrclass.show(o), F.loc(b1), tag)
        b1, o = nf("OffsetArc", "borrow_arc")
        if b1:
            if o == ("mk", "ArcBorrow", ("stored", ("arg", 1), fOff)):
                rep.ok("R-RAWPAIR", "OffsetArc::borrow_arc forwards the stored value address", cfg=tag)
            else:
                rep.bad("R-RAWPAIR", "OffsetArc::borrow_arc forwards the stored value address", "stores %s" % ptrclass.show(o), F.loc(b1), tag)
        for name in ("get",):
            b1, o = nf("ArcBorrow", name)
            if b1:
                if addr_of(o) == ("stored", ("arg", 1), fBor):
                    rep.ok("R-RAWPAIR", "ArcBorrow::%s dereferences the stored address" % name, cfg=tag)
                else:
                    rep.bad("R-RAWPAIR", "ArcBorrow::%s dereferences the stored address" % name, "yields %s" % ptrclass.show(o), F.loc(b1), tag)
        b1, o = nf("ArcBorrow", "clone_arc")
        if b1:
            if simp(o) == ("mk", "Arc", ("sub_off", ("stored", ("arg", 1), fBor))):
                rep.ok("R-RAWPAIR", "ArcBorrow::clone_arc recovers the block from the stored value address", cfg=tag)
            else:
                rep.bad("R-RAWPAIR", "ArcBorrow::clone_arc recovers the block from the stored value address", "yields %s" % ptrclass.show(o), F.loc(b1), tag)
        b1, o = nf("ArcBorrow", "from_ptr")
        if b1:
            if o == ("mk", "ArcBorrow", ("arg", 1)):
                rep.ok("R-RAWPAIR", "ArcBorrow::from_ptr stores the given address", cfg=tag)
            else:
                rep.bad("R-RAWPAIR", "ArcBorrow::from_ptr stores the given address", "stores %s" % ptrclass.show(o), F.loc(b1), tag)
        # clones and clone_arc keep the address: "identical across clones and handle moves"
        for h in ("Arc", "ThinArc", "OffsetArc"):
            for b in F.method(h, "clone", "Clone"):
                n = simp(N.ret(b["key"]))
                want = ("mk", h, ("stored", ("arg", 1), PF.get(h)))
                ik = "%s::clone keeps the stored address" % h
                if n == want:
                    rep.ok("R-RAWPAIR", ik, cfg=tag)
                else:
                    rep.bad("R-RAWPAIR", ik, "a clone must hold the very pointer its source holds; %s::clone yields %s" % (h, ptrclass.show(n)), F.loc(b), tag)
        for h, fld, off in (("OffsetArc", fOff, True),):
            for b in F.method(h, "clone_arc"):
                n = simp(N.ret(b["key"]))
                want = ("mk", "Arc", ("sub_off", ("stored", ("arg", 1), fld)))
                ik = "%s::clone_arc recovers the block from the stored value address" % h
                if n == want:
                    rep.ok("R-RAWPAIR", ik, cfg=tag)
                else:
                    rep.bad("R-RAWPAIR", ik, "yields %s" % ptrclass.show(n), F.loc(b), tag)
        # heap_ptr = block start
        for h, fld in (("Arc", fArc), ("ThinArc", fThin)):
            b1, o = nf(h, "heap_ptr")
            if b1:
                if simp(o) == ("stored", ("arg", 1), fld):
                    rep.ok("R-RAWPAIR", "%s::heap_ptr = block start" % h, cfg=tag)
                else:
                    rep.bad("R-RAWPAIR", "%s::heap_ptr = block start" % h, "heap_ptr returns %s" % ptrclass.show(o), F.loc(b1), tag)
        # ---------------------------------------------------------- R-NOREF
        for h, name, tr in (("Arc", "as_ptr", None), ("Arc", "into_raw", None), ("Arc", "borrow_arc", None), ("Arc", "into_raw_offset", None), ("ArcUnion", "from_first", None), ("Arc", "into_ptr", "RefCnt"), ("Arc", "as_ptr", "RefCnt")):
            b1, o = nf(h, name, tr)
            if b1 is None:
                continue
            ik = "%s%s::%s" % (h, " as " + tr if tr else "", name)
            if has_ref_data(o):
                rep.bad("R-NOREF", ik, "the data pointer is produced through a reference to the payload (%s): it loses provenance over the count word, so from_raw on it would be undefined" % ptrclass.show(o), F.loc(b1), tag)
            else:
                rep.ok("R-NOREF", ik, cfg=tag)
        # ---------------------------------------------------------- R-STABLE
        _stable(F, rep, tag)
        # ---------------------------------------------------------- R-REPR
        for h in ("Arc", "OffsetArc", "ThinArc", "ArcBorrow", "UniqueArc"):
            adt = F.adts.get(F.handle_paths.get(h, ""))
            if adt and adt["repr_transparent"]:
                rep.ok("R-REPR", "%s repr(transparent)" % h, cfg=tag)
            else:
                rep.bad("R-REPR", "%s repr(transparent)" % h, "%s must be repr(transparent) over its pointer: its width, niche and bit pattern are otherwise unspecified" % h, None, tag)
        adt = F.adts.get(F.handle_paths.get("ArcUnion", ""))
        if adt:
            nz = [f for f in adt["variants"][0]["fields"] if not F.ts(f["ty"]).startswith("core::marker::PhantomData")]
            def _nonnull_word(ty, depth=0):
                # a NonNull, or a private one-field newtype around one (`struct TaggedPtr(NonNull<()>)`): the width and the
                # niche are then what rustc's own witnesses (W-ACCEPT c11_width) measure
                t = F.ty(ty)
                if t["k"] == "adt" and t["path"] == "core::ptr::non_null::NonNull":
                    return True
                a = F.adts.get(t.get("path", "")) if t["k"] == "adt" and t.get("local") else None
                if a and depth < 3 and a["kind"] == "Struct":
                    fs = [f for f in a["variants"][0]["fields"] if not F.ts(f["ty"]).startswith("core::marker::PhantomData")]
                    return len(fs) == 1 and _nonnull_word(fs[0]["ty"], depth + 1)
                return False

            if len(nz) == 1 and _nonnull_word(nz[0]["ty"]):
                rep.ok("R-REPR", "ArcUnion has one non-zero-sized field, a NonNull", cfg=tag)
            else:
                rep.bad("R-REPR", "ArcUnion has one non-zero-sized field, a NonNull", "ArcUnion's fields are %s" % [F.ts(f["ty"]) for f in adt["variants"][0]["fields"]], None, tag)
    from . import c05, c12

    c05.rule_data_offset(ctx, rep)
    # ---------------------------------------------------------- R-UNSIZE: the unsizing glue keeps the handle's own pointer
    n_unsize = 0
    for tag, F, E in ctx.each():
        N = ptrclass.Norm(F)
        byimpl = {}
        for b in F.body_list:
            imp = b.get("impl") or {}
            if (imp.get("trait") or "").endswith("CoerciblePtr") and F.ty(imp["self_ty"]).get("local") and b.get("name") in ("as_sized_ptr", "replace_ptr"):
                byimpl.setdefault(imp["path"], {})[b["name"]] = b
        for ip, ms in byimpl.items():
            if len(ms) != 2:
                continue
            n_unsize += 1
            hn = F.handle_name(ms["replace_ptr"]["impl"]["self_ty"]) or F.ts(ms["replace_ptr"]["impl"]["self_ty"])
            ik = "%s: CoerciblePtr" % hn
            s_ptr = N.ret(ms["as_sized_ptr"]["key"])
            r = N.ret(ms["replace_ptr"]["key"])
            inner = r
            while inner[0] == "mk":
                inner = inner[2]

            def own_stored(n):
                while n[0] == "stored":
                    n = n[1]
                return n == ("arg", 1)

            if s_ptr[0] != "stored" or not own_stored(s_ptr):
                rep.bad("R-UNSIZE", ik, "as_sized_ptr hands out %s, not the pointer stored in the handle: the unsizing machinery attaches the new metadata to that address, and replace_ptr re-wraps it as the handle's pointer" % ptrclass.show(s_ptr), F.loc(ms["as_sized_ptr"]), tag)
            elif inner != s_ptr and inner != ("arg", 2):  # `new` carries the address as_sized_ptr returned (the unsize contract)
                rep.bad("R-UNSIZE", ik, "replace_ptr builds the result around %s, but the pointer this handle stores (and hands to the coercion) is %s: after an unsize coercion the handle would point elsewhere in (or outside) its block" % (ptrclass.show(inner), ptrclass.show(s_ptr)), F.loc(ms["replace_ptr"]), tag)
            else:
                rep.ok("R-UNSIZE", ik, "both use %s" % ptrclass.show(s_ptr), cfg=tag)
    if any(c == "all" for c, _d in ctx.configs):
        rep.floor("R-UNSIZE", 3, "CoerciblePtr impls of Arc, UniqueArc, ArcBorrow (feature unsize)")
    # ---------------------------------------------------------- R-UNION-ADDR: the ArcBorrow an ArcUnion hands out carries the value's address
    for tag, F, E in ctx.each():
        u = F.adts.get(F.handle_paths.get("ArcUnion", ""))
        if u:
            c12.tag_rules(F, rep, tag, [g["name"] for g in u["generics"] if g["kind"] == "type"], rule="R-UNION-ADDR")
            # ... and a clone of the union holds the same word (or re-tags at its own variant): the address `borrow()` hands out
            # does not change by cloning
            c12._arms(F, balance.analysis(tag, F, E), rep, tag, [g["name"] for g in u["generics"] if g["kind"] == "type"], only_count=True)
    # ---------------------------------------------------------- R-WIDTH: compile-time layout witnesses
    c13.rule_witnesses(ctx, rep, prefix="c11_")
    rep.floor("R-RAWPAIR", 18, "value address, agreement, round trips, OffsetArc/ArcBorrow forms, heap_ptr")
    rep.floor("R-UNION-ADDR", 5, "stored word = into_raw | tag (2 constructors), tests, strip on both variants")
    rep.floor("R-NOREF", 5, "accessors whose result is fed back to from_raw")
    rep.floor("R-REPR", 6, "five transparent handles + ArcUnion")
    rep.floor("R-STABLE", 2, "StableDeref and CloneStableDeref for Arc")
    rep.floor("W-ACCEPT", 1, "width/niche witnesses")


def _replace_stored(n, val):
    """Replace `arg1.<field>` (the pointer stored in the argument handle) by `val`."""
    if not isinstance(n, tuple):
        return n
    if n[0] == "stored" and n[1] == ("arg", 1):
        return val
    return tuple(_replace_stored(x, val) if isinstance(x, tuple) else x for x in n)


def _stable(F, rep, tag):
    """StableDeref/CloneStableDeref exist only where Deref yields a heap address derived from the stored pointer."""
    N = ptrclass.Norm(F)
    st = [im for im in F.impls if (im.get("trait") or "").startswith("stable_deref_trait::")]
    for im in st:
        hn = F.handle_name(im["self_ty"])
        ik = "%s for %s" % (im["trait"].split("::")[-1], F.ts(im["self_ty"]))
        bs = F.method(hn, "deref", "Deref") if hn else []
        if not bs:
            rep.bad("R-STABLE", ik, "stable-address marker on a type without a Deref impl in this crate", None, tag)
            continue
        d = addr_of(N.ret(bs[0]["key"]))
        if d[0] == "data" and d[1][0] == "stored":
            rep.ok("R-STABLE", ik, cfg=tag)
        else:
            rep.bad("R-STABLE", ik, "the address Deref yields (%s) is not a field of the heap block the handle points to" % ptrclass.show(d), None, tag)
    if not st and any(c == "feature=stable_deref_trait" for c in F.raw["cfg"]):
        rep.bad("ANCHOR-LOST", "R-STABLE", "stable_deref_trait is enabled but no marker impl was found", None, tag)


def main(argv):
    return core.run_property(
        PROP,
        "other",
        run,
        argv,
        explanation=(
            "Pointer normal forms. For every raw accessor the value it returns is reduced, by inlining the resolved local callees over MIR def-use "
            "chains, to a function of the handle's stored pointer: block pointer, `&raw (*block).data`, `ptr - offset_of_data(ptr)`, or a handle built "
            "around one of these. R-RAWPAIR then checks algebraically: as_ptr/into_raw denote the address Deref yields; into_raw = as_ptr; arc-swap glue "
            "forwards; from_raw/from_raw_slice/ThinArc::from_raw composed with into_raw give back a handle around the original block pointer (using the "
            "offset lemma `(&(*P).data) - offset_of_data = P`, whose offset expression C05 validates on the layout matrix); OffsetArc and ArcBorrow store "
            "the value address and convert back through the same offset; heap_ptr is the block start. R-NOREF: the data pointer fed back to from_raw is "
            "formed by a raw place expression, never via `&T`. R-STABLE: only copy-on-write and the with_arc_mut guard re-point a handle. R-REPR + "
            "compile-time witnesses: every handle is one (two for unsized) pointer wide with the null niche. One known finding (ThinArc::as_ptr/into_raw "
            "return the block start, not the value address). Not decided: numeric pointer values."
            ' Added later: R-THICK as a premise (what `from_raw(into_raw(x))` shows is read through the same length-reading helper).'
            " R-REFCNT-PAIR on every RefCnt impl; the union's Clone/Drop arms."
            ' Round thirteen: R-GUARD and R-WRITEBACK as premises (the address a handle reports is that of the block it owns).'
            ' Round fifteen: R-ZST-DIV.'
        ),
        rule_text="instances = accessor pairings, NOREF sites, repr facts, width witnesses",
        trusted_base=["rustc MIR def-use and trait resolution", "offset lemma validated by C05", "rustc layout computation for the width witnesses"],
        assumptions=["unsafe callers pass pointers obtained from the paired accessor"],
    )
