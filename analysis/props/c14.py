"""C14 - comparison, ordering, hashing and formatting see through the pointer."""
from .. import inline, atomics, balance, cfg, core
from ..effects import vget
from ..facts import ALL_HANDLES, NONNULL, operand_place

PROP = "C14"

TRAITS = {
    "core::cmp::PartialEq": ("eq", "ne"),
    "core::cmp::PartialOrd": ("partial_cmp", "lt", "le", "gt", "ge"),
    "core::cmp::Ord": ("cmp",),
    "core::hash::Hash": ("hash",),
    "core::fmt::Debug": ("fmt",),
    "core::fmt::Display": ("fmt",),
}
REF_TRAITS = ("core::borrow::Borrow", "core::convert::AsRef")
FALLBACK = {"ne": "eq", "lt": "partial_cmp", "le": "partial_cmp", "gt": "partial_cmp", "ge": "partial_cmp"}


def pointer_like(F, i):
    t = F.ty(F.strip_refs_only(i)) if hasattr(F, "strip_refs_only") else None
    j = i
    node = F.ty(j)
    while node["k"] == "ref":
        j = node["t"]
        node = F.ty(j)
    if node["k"] == "ptr":
        return True
    if node["k"] == "adt" and node["path"] == NONNULL:
        return True
    if node["k"] == "tuple" and node["ts"]:
        return all(pointer_like(F, x) for x in node["ts"])
    if node["k"] == "adt" and node.get("local") and F.path_to_handle.get(node["path"]) is None:
        # a private newtype around a pointer (`struct TaggedPtr(NonNull<()>)`) is that pointer
        a = F.adts.get(node["path"])
        if a and a["kind"] == "Struct" and not a.get("reachable", True):
            fs = [f for f in a["variants"][0]["fields"] if not F.ts(f["ty"]).startswith("core::marker::PhantomData")]
            return len(fs) == 1 and pointer_like(F, fs[0]["ty"])
    return False


def payload_like(F, i):
    """The type a delegate is called on: not a pointer, and it mentions a payload type parameter."""
    return not pointer_like(F, i) and F.mentions_param(i)


def render(F, i, sub):
    """Canonical string of type i with type parameters replaced through `sub` (name -> string)."""
    t = F.ty(i)
    k = t["k"]
    if k == "param":
        return sub.get(t["name"], t["name"])
    if k == "adt":
        args = [render(F, a["t"], sub) for a in t["args"] if "t" in a]
        return t["path"] + ("<" + ", ".join(args) + ">" if args else "")
    if k in ("ref", "ptr"):
        return render(F, t["t"], sub)  # references are transparent for this comparison
    if k == "slice":
        return "[" + render(F, t["t"], sub) + "]"
    if k == "array":
        return "[" + render(F, t["t"], sub) + "; " + str(t["len"]) + "]"
    if k == "tuple":
        return "(" + ", ".join(render(F, x, sub) for x in t["ts"]) + ")"
    return t["s"]


def deref_targets(F):
    """handle name -> (impl type-parameter names in positional order, target type idx)."""
    out = {}
    for b in F.body_list:
        imp = b.get("impl")
        if not imp or imp.get("trait") != "core::ops::deref::Deref" or b.get("name") != "deref":
            continue
        hn = F.handle_name(imp["self_ty"])
        if hn is None:
            continue
        st = F.ty(imp["self_ty"])
        names = []
        for a in st["args"]:
            if "t" in a:
                n = F.ty(a["t"])
                names.append(n["name"] if n["k"] == "param" else None)
        ret = b["locals"][0]["ty"]  # the MIR return place carries the normalised type (`&T`, not `&Self::Target`)
        tgt = F.ty(ret)
        out[hn] = (names, tgt["t"] if tgt["k"] == "ref" else ret)
    return out


def rule_whole(ctx, rep):
    """Inside code that belongs to a handle type, comparison/hash/format is applied to another handle or to the handle's
    whole Deref target - never to a part of the payload."""
    for tag, F, E in ctx.each():
        DT = deref_targets(F)
        L = Leaves(F)
        for b in F.body_list:
            imp = b.get("impl")
            if not imp:
                continue
            hn = F.handle_name(imp["self_ty"])
            if hn is None:
                continue
            tr0 = imp.get("trait")
            if tr0 not in TRAITS:
                continue
            st = F.ty(imp["self_ty"])
            expect = None
            if hn in DT:
                names, tgt = DT[hn]
                actual = [render(F, a["t"], {}) for a in st["args"] if "t" in a]
                sub = {n: s for n, s in zip(names, actual) if n}
                expect = render(F, tgt, sub)
            calls = L.direct(b["key"], include_local=True)
            for l in calls:
                j = l["self"]
                node = F.ty(j)
                while node["k"] == "ref":
                    j = node["t"]
                    node = F.ty(j)
                ik = "%s @%s" % (b["key"], l["method"])
                if F.handle_name(j) is not None:
                    rep.ok("R-WHOLE", ik, cfg=tag)
                    continue
                if pointer_like(F, l["self"]):
                    continue  # reported by R-DELEG
                got = render(F, j, {})
                whole_params = [render(F, a["t"], {}) for a in st["args"] if "t" in a and F.ty(a["t"])["k"] == "param"]
                if expect is not None and got == expect:
                    rep.ok("R-WHOLE", ik, cfg=tag)
                elif expect is None and got in whole_params:
                    # a handle without a Deref target (ArcUnion<A, B>) holds a whole `A` or a whole `B`: comparing those is
                    # comparing the value it holds (which of the two is C12's concern)
                    rep.ok("R-WHOLE", ik, "whole payload of a variant", cfg=tag)
                elif expect is None:
                    rep.bad("R-WHOLE", ik, "%s has no Deref target, yet its %s impl applies `%s::%s` to %s instead of to another handle" % (hn, tr0.split("::")[-1], l["trait"].split("::")[-1], l["method"], got), l["loc"], tag)
                else:
                    rep.bad("R-WHOLE", ik, "%s's %s impl applies `%s::%s` to %s, which is not the whole value the handle holds (%s): part of the value would be ignored" % (hn, tr0.split("::")[-1], l["trait"].split("::")[-1], l["method"], got, expect), l["loc"], tag)
    rep.floor("R-WHOLE", 10, "delegate calls inside handle impls (20 in the default configuration)")


class Leaves:
    def __init__(self, F):
        self.F = F
        self.graph = cfg.call_graph(F)
        self.memo = {}

    def direct(self, key, include_local=False):
        """Leaf comparison/format calls made directly in body `key` (optionally also those resolved to local impls)."""
        F = self.F
        b = F.body(key)
        out = []
        for bi, bl in enumerate(b["blocks"]):
            for s in bl["stmts"]:
                if s["k"] == "assign" and s["rv"]["k"] == "cast" and "Unsize" in s["rv"]["cast"]:
                    tt = F.ty(s["rv"]["ty"])
                    if tt["k"] in ("ref", "ptr") and F.ty(tt["t"])["k"] == "dyn":
                        dyn = F.ts(tt["t"])
                        tr = "core::fmt::Debug" if "fmt::Debug" in dyn else ("core::fmt::Display" if "fmt::Display" in dyn else None)
                        if tr:
                            pl = operand_place(s["rv"]["op"])
                            if pl is not None and "ty" in pl:
                                st = F.ty(pl["ty"])
                                inner = st["t"] if st["k"] in ("ref", "ptr") else pl["ty"]
                                out.append({"trait": tr, "method": "fmt", "self": inner, "body": key, "loc": F.loc(b, s["span"]), "via": "unsize to &dyn"})
            t = bl["term"]
            if t["k"] != "call":
                continue
            # comparison / hash / format functions handed over as function items (`on_values(self, other, T::eq)`,
            # `with_arcs(a, b, PartialOrd::partial_cmp)`): the callee applies them, so they are leaves of this body too
            r0 = t.get("resolved")
            for a in (r0["args"] if isinstance(r0, dict) else (t.get("callee_args") or [])):
                if "t" not in a:
                    continue
                ft = F.ty(F.strip_refs(a["t"]))
                if ft["k"] != "fndef" or "::" not in ft["def"]:
                    continue
                ftr, fm = ft["def"].rsplit("::", 1)
                if ftr in TRAITS and ft.get("args") and "t" in ft["args"][0]:
                    local_impl = None
                    from ..implsel import fn_item

                    local_impl = fn_item(F, F.strip_refs(a["t"]))[0]
                    if local_impl is None:
                        out.append({"trait": ftr, "method": fm, "self": ft["args"][0]["t"], "body": key, "loc": F.loc(b, t["span"]), "via": "fn item " + ft["def"]})
                    else:
                        out.append({"trait": ftr, "method": fm, "self": ft["args"][0]["t"], "body": key, "loc": F.loc(b, t["span"]), "via": "fn item " + ft["def"], "local_impl": local_impl})
            tr = t.get("callee_trait")
            if tr in TRAITS:
                r = t.get("resolved")
                local = isinstance(r, dict) and r["def"] in F.bodies
                if (include_local or not local) and t.get("callee_self") is not None:
                    out.append({"trait": tr, "method": t.get("callee_name"), "self": t["callee_self"], "body": key, "loc": F.loc(b, t["span"]), "via": atomics.callee_of(t)})
        return out

    def _local_impl(self, leaf):
        F = self.F
        j = leaf["self"]
        node = F.ty(j)
        while node["k"] == "ref":
            j = node["t"]
            node = F.ty(j)
        if node["k"] == "adt" and node["local"]:
            hit = find_impl(F, leaf["trait"], (j, {}))
            if hit:
                for it in hit[1]["items"]:
                    if it["name"] == leaf["method"]:
                        return it["key"]
        return None

    def reach(self, key):
        """(leaves, ptr_eq_reached) through the local call graph, not descending into `ptr_eq`."""
        if key in self.memo:
            return self.memo[key]
        F = self.F
        seen = set()
        todo = [key]
        leaves = []
        ptr_eq = []
        while todo:
            k = todo.pop()
            if k in seen:
                continue
            seen.add(k)
            b = F.body(k)
            if b is None:
                continue
            if b.get("name") == "ptr_eq" and k != key:
                ptr_eq.append(k)
                continue
            for l in self.direct(k):
                # formatting a local type through `&dyn Debug/Display`: follow its local impl instead of stopping
                tgt = self._local_impl(l)
                if tgt:
                    todo.append(tgt)
                else:
                    leaves.append(l)
            todo.extend(self.graph.get(k, ()))
        self.memo[key] = (leaves, ptr_eq, seen)
        return self.memo[key]


def rule_deleg(ctx, rep):
    for tag, F, E in ctx.each():
        L = Leaves(F)
        n = 0
        for b in F.body_list:
            imp = b.get("impl")
            if not imp or "name" not in b:
                continue
            tr = imp.get("trait")
            st = F.ty(imp["self_ty"])
            if st["k"] != "adt" or not st["local"]:
                continue
            hn = F.path_to_handle.get(st["path"])
            if tr in REF_TRAITS and hn:
                _ref_rule(F, b, rep, tag)
                continue
            if tr not in TRAITS or b["name"] not in TRAITS[tr]:
                continue
            adt = F.adts.get(st["path"])
            if hn is None and not (adt and adt["reachable"]):
                continue
            n += 1
            key = b["key"]
            m = b["name"]
            leaves, ptr_eq, _seen = L.reach(key)
            fam = [l for l in leaves if l["trait"] in TRAITS]
            bad_ptr = [l for l in fam if pointer_like(F, l["self"])]
            if bad_ptr and hn and tr == "core::cmp::PartialEq" and m in ("eq", "ne"):
                # the licensed same-allocation test: `self.p == other.p` as the condition of a branch of this very function
                lic = set()
                for _bi, _tt, _c, t_ in licence_tests(F, b)[0]:
                    if t_ is not None:
                        lic.add(F.loc(b, t_["span"]))
                bad_ptr = [l for l in bad_ptr if not (l["body"] == key and l["loc"] in lic)]
            same = [l for l in fam if l["trait"] == tr and payload_like(F, l["self"])]
            if bad_ptr:
                l = bad_ptr[0]
                rep.bad("R-DELEG", key, "%s::%s on %s is answered by comparing/hashing/formatting the pointer: reaches `%s::%s` with Self = %s (%s, in %s at %s); two handles to equal values in distinct allocations would disagree with the values they hold" % (tr.split("::")[-1], m, st["s"], l["trait"].split("::")[-1], l["method"], F.ts(l["self"]), l["via"], l["body"], l["loc"]), F.loc(b), tag)
                continue
            if ptr_eq and m not in ("eq", "ne"):
                rep.bad("R-DELEG", key, "%s::%s consults pointer identity (%s): the licence to skip the value applies to equality only" % (tr.split("::")[-1], m, ptr_eq[0]), F.loc(b), tag)
                continue
            if not same:
                rep.bad("R-DELEG", key, "%s::%s on %s never reaches `%s` on the payload (leaves: %s)" % (tr.split("::")[-1], m, st["s"], tr, sorted(set("%s::%s<%s>" % (l["trait"].split("::")[-1], l["method"], F.ts(l["self"])) for l in fam)) or "none"), F.loc(b), tag)
                continue
            wrong = [l for l in same if l["method"] != m and l["method"] is not None]
            if wrong:
                l = wrong[0]
                rep.bad("R-DELEG", key, "%s::%s delegates to `%s` on the payload instead of `%s` (at %s)" % (tr.split("::")[-1], m, l["method"], m, l["loc"]), F.loc(b), tag)
                continue
            rep.ok("R-DELEG", key, cfg=tag)
            if (hn or (adt and adt["kind"] == "Struct")) and not (tr == "core::cmp::PartialEq" and hn in ("Arc", "ArcUnion")):  # ArcUnion: mixed variants are unequal without looking (C12 R-ARMS)
                # (the header-slice payload structs too: `size_of_val(&a.slice) != size_of_val(&b.slice)` answering "unequal"
                # before any field was asked is wrong for tails whose equality crosses sizes)
                # on a handle the answer is the payload's on *every* path: no early return that skips the delegate (a
                # "nothing to hash for zero-sized values" shortcut changes the hash of `""`, `[]`, ...). Arc's eq/ne carry the
                # one licensed shortcut (R-LICENCE).
                miss = _path_without_delegate(F, L, b, tr)
                if miss is None:
                    rep.ok("R-DELEG-ALL", key, cfg=tag)
                else:
                    rep.bad("R-DELEG-ALL", key, "%s::%s on %s can return without having asked the payload (a path reaches the return at line %s without passing any call that ends in `%s` on the value): for some values the handle answers differently from the value it holds" % (tr.split("::")[-1], m, st["s"], miss, tr), F.loc(b), tag)
            if hn:
                # ... asked exactly once, and nothing else is: the answer (and, for Hash, everything fed to the hasher) is the
                # value's own - `Arc<T>` must hash like `T` to stand in for it as a map key (R-ONCE)
                An = balance.analysis(tag, F, E)
                # (only where asking twice changes the answer: everything fed to a hasher or written to a formatter counts;
                # a comparison asked twice answers the same)
                if key in An.paths and key not in An.errors and tr in ("core::hash::Hash", "core::fmt::Debug", "core::fmt::Display"):
                    us = [vget(p.vec, "user") for p in An.paths[key] if p.exit == "ret"]
                    if us and max(us) > 1:
                        rep.bad("R-ONCE", key, "%s::%s on %s calls into user code %d times on one path (the value's own `%s` must be asked exactly once and nothing else - e.g. no second hash, no extra write to the hasher): the handle no longer answers as the value it holds does" % (tr.split("::")[-1], m, st["s"], max(us), m), F.loc(b), tag)
                    else:
                        rep.ok("R-ONCE", key, cfg=tag)
                # ... with `self` on the left and `other` on the right (R-ORIENT), when the question is asked in this body itself
                if tr in ("core::cmp::PartialEq", "core::cmp::PartialOrd", "core::cmp::Ord"):
                    Bh = cfg.Body(inline.inlined_lending(F, key) or b)  # `a.with_arc(|x| b.with_arc(|y| x.cmp(y)))` as straight code
                    sw = None
                    for _bi, t in Bh.calls():
                        if t.get("callee_trait") in ("core::cmp::PartialEq", "core::cmp::PartialOrd", "core::cmp::Ord") and len(t["args"]) == 2:
                            ra = [_roots(Bh, pl["l"], set()) if pl is not None else set() for pl in (operand_place(a) for a in t["args"])]
                            if 2 in ra[0] and 1 not in ra[0] and 1 in ra[1] and 2 not in ra[1]:
                                sw = t
                    # ... and the value's answer is handed back as it is (R-RESULT): every value assigned to the result is a
                    # constant (the licensed shortcuts, judged by R-LICENCE / R-NE-NEG / C12) or the unmodified result of asking
                    # the value the same question - not its negation, `reverse()`, `map(..)`, ...
                    bh = Bh.b
                    post = None
                    todo, seen_l = [0], set()
                    while todo and post is None:
                        l0 = todo.pop()
                        if l0 in seen_l:
                            continue
                        seen_l.add(l0)
                        for d in Bh.defs().get(l0, []):
                            if d[0] == "call":
                                t = d[2]
                                cn = atomics.callee_of(t) or ""
                                # only operations that turn an answer into a different one are post-processing; passing the
                                # answer through a callable, `map_or(false, ..)`, `unwrap_or(..)` ... keeps it
                                if cn in ("<core::cmp::Ordering>::reverse", "<core::cmp::Ordering>::is_lt", "<core::cmp::Ordering>::is_le", "<core::cmp::Ordering>::is_gt", "<core::cmp::Ordering>::is_ge", "<core::cmp::Ordering>::is_eq", "<core::cmp::Ordering>::is_ne", "<bool as core::ops::bit::Not>::not", "<core::option::Option<T>>::is_some", "<core::option::Option<T>>::is_none") or (cn == "<core::option::Option<T>>::map" and tr != "core::cmp::PartialEq" and any("reverse" in str(F.ty(a["t"]).get("def", "")) for a in (t.get("resolved") or {}).get("args", []) if isinstance(t.get("resolved"), dict) and "t" in a)):
                                    post = "the result passes through `%s` (line %s)" % (cn, t["span"]["line"])
                                elif cn in ("<core::cmp::Ordering>::reverse",):
                                    post = "reversed"
                                else:
                                    for a in t["args"]:
                                        pa = operand_place(a)
                                        if pa is not None and not pa["p"] and F.ts(bh["locals"][pa["l"]]["ty"]) in ("bool", "core::cmp::Ordering", "core::option::Option<core::cmp::Ordering>"):
                                            todo.append(pa["l"])  # an answer handed through (`map_or`, a callable)
                            else:
                                rv = d[3]
                                if rv["k"] == "use":
                                    pl = operand_place(rv["op"])
                                    if pl is None:
                                        continue  # a constant
                                    if pl["p"]:
                                        post = "the result is a part of another value (line %s)" % bh["blocks"][d[1]]["stmts"][d[2]]["span"]["line"]
                                    else:
                                        todo.append(pl["l"])
                                elif rv["k"] == "unop" and rv["op"] == "Not":
                                    pa = operand_place(rv["a"])
                                    o = Bh.origin(rv["a"]) if pa is not None else {}
                                    if o.get("kind") == "call" and (atomics.callee_of(o["term"]) or "").endswith("::ptr_eq"):
                                        continue  # `!ptr_eq(..)`: the negated shortcut test of `ne`
                                    post = "the result is negated (line %s)" % bh["blocks"][d[1]]["stmts"][d[2]]["span"]["line"]
                                else:
                                    post = "the result is computed by a `%s` (line %s)" % (rv["k"], bh["blocks"][d[1]]["stmts"][d[2]]["span"]["line"])
                    if post is not None:
                        rep.bad("R-RESULT", key, "%s::%s on %s does not hand back the value's own answer unchanged: %s" % (tr.split("::")[-1], m, st["s"], post), F.loc(b), tag)
                    else:
                        rep.ok("R-RESULT", key, cfg=tag)
                    if sw is not None:
                        rep.bad("R-ORIENT", key, "%s::%s on %s asks the values as (other, self) (line %s): the answer is that of the mirrored question" % (tr.split("::")[-1], m, st["s"], sw["span"]["line"]), F.loc(b, sw["span"]), tag)
                    else:
                        rep.ok("R-ORIENT", key, cfg=tag)
            if hn and len(rep.samples) < 6 and tag == "default":
                rep.sample({"rule": "R-DELEG", "impl": key, "payload_leaves": sorted(set("%s::%s on %s" % (l["trait"].split("::")[-1], l["method"], F.ts(l["self"])) for l in same))[:4]})
        # eq and ne of one impl take the same route: either both use the same-allocation shortcut or neither does, otherwise
        # `a == b` and `a != b` can both be true for a value that is not equal to itself (NaN) seen through two handles to it
        pe = {}
        for b in F.body_list:
            imp = b.get("impl") or {}
            if imp.get("trait") == "core::cmp::PartialEq" and b.get("name") in ("eq", "ne"):
                st = F.ty(imp["self_ty"])
                if st["k"] == "adt" and st.get("local") and F.path_to_handle.get(st["path"]):
                    pe.setdefault(imp["path"], {})[b["name"]] = b
        for ip, ms in pe.items():
            if len(ms) != 2:
                continue
            r_eq = bool(L.reach(ms["eq"]["key"])[1])
            r_ne = bool(L.reach(ms["ne"]["key"])[1])
            ik = "%s eq/ne" % F.ts(ms["eq"]["impl"]["self_ty"])
            if r_eq == r_ne:
                rep.ok("R-EQ-NE", ik, "both %s the same-allocation shortcut" % ("use" if r_eq else "do without"), cfg=tag)
            else:
                rep.bad("R-EQ-NE", ik, "`eq` %s the same-allocation shortcut but `ne` %s: for two handles to one allocation holding a value that is not equal to itself (NaN) `a == b` and `a != b` give the same answer" % ("takes" if r_eq else "does not take", "does" if r_ne else "does not"), F.loc(ms["ne"]), tag)
        # ... and `ne` is the negation of `eq` case by case (R-NE-NEG): under the same branch conditions a constant answer of one
        # is the opposite constant of the other, and where one asks the value with `eq` the other asks with `ne` (or negates)
        for ip, ms in pe.items():
            if len(ms) != 2:
                continue
            ik = "%s ne = !eq" % F.ts(ms["eq"]["impl"]["self_ty"])
            why = _ne_negates_eq(F, ms["eq"], ms["ne"])
            if why is None:
                rep.ok("R-NE-NEG", ik, cfg=tag)
            elif why == "":
                rep.ok("R-NE-NEG", ik, "not summarisable case by case; constants compared", cfg=tag, nontrivial=False)
            else:
                rep.bad("R-NE-NEG", ik, why, F.loc(ms["ne"]), tag)
        # licence shape of Arc::eq / Arc::ne
        for m, const in (("eq", 1), ("ne", 0)):
            for b in F.method("Arc", m, "PartialEq"):
                ok, why = _licence_shape(F, b, const)
                if ok:
                    rep.ok("R-LICENCE", b["key"], cfg=tag)
                else:
                    rep.bad("R-LICENCE", b["key"], why, F.loc(b), tag)
            # every handle's own eq/ne: "equal" (eq: true, ne: false) is never answered without the values except under the test
            for b in F.body_list:
                imp = b.get("impl") or {}
                if b.get("name") != m or imp.get("trait") != "core::cmp::PartialEq" or not F.handle_name(imp.get("self_ty", -1)):
                    continue
                why = _licence_consts(F, b, const)
                ik = b["key"] + "/constant-answers"
                if why is None:
                    rep.ok("R-LICENCE", ik, cfg=tag)
                else:
                    rep.bad("R-LICENCE", ik, why, F.loc(b), tag)
    # the same-allocation test itself: nothing but the equality of the two handles' stored pointers (no further disjunct such as
    # "or the payload is zero-sized", which would extend the licence to handles of different allocations)
    for tag, F, E in ctx.each():
        for b in F.body_list:
            imp = b.get("impl") or {}
            if b.get("name") != "ptr_eq" or not imp or F.handle_name(imp["self_ty"]) is None or imp.get("trait"):
                continue
            ik = b["key"]
            ok = ptr_eq_is_pure(F, b)
            if ok:
                rep.ok("R-LICENCE", ik, "pointer equality of the two stored pointers", cfg=tag)
            else:
                rep.bad("R-LICENCE", ik, "`ptr_eq` is not just the equality of the two handles' stored pointers (a branch or a further condition): the licence to skip the value is for handles of the *same allocation* only", F.loc(b), tag)
    rep.floor("R-DELEG", 35, "comparison/hash/format methods on handle and header-slice types (default configuration: 40+)")
    rep.floor("R-LICENCE", 2, "Arc::eq and Arc::ne")
    rep.floor("R-EQ-NE", 2, "handle impls that define both eq and ne")
    rep.floor("R-NE-NEG", 2, "the same impls")
    rep.floor("R-DELEG-ALL", 20, "handle-level comparison/hash/format methods")


def _ne_negates_eq(F, beq, bne):
    """None if `ne` is `eq` negated case by case; "" if the bodies cannot be summarised (and their constant answers are at least
    opposite); otherwise what differs."""
    from .. import symx
    from .c06 import nobb

    def leaf_kind(v):
        v = nobb(v)
        neg = False
        while v[0] == "un" and v[1] == "Not":
            neg, v = not neg, v[2]
        if v[0] == "const":
            return ("const", (1 - v[1]) if neg else v[1])
        if v[0] == "call" and v[2] in ("eq", "ne"):
            return ("ask", (v[2] == "eq") != neg)  # True: answers "equal"
        return ("other", symx.show(v)[:80])

    def norm(cs):
        out = {}
        for conds, v in cs:
            key = []
            for d, rel, x in conds:
                d = nobb(d)
                flip = False
                while d[0] == "un" and d[1] == "Not":
                    flip, d = not flip, d[2]
                if flip and rel == "eq" and x in (0, 1):
                    x = 1 - x
                elif flip and rel == "notin" and list(x) in ([0], [1]):
                    x = [1 - x[0]]
                key.append((symx.show(d), rel, tuple(x) if isinstance(x, (list, tuple)) else x))
            out[frozenset(key)] = leaf_kind(v)
        return out

    ce, cn = symx.path_cases(F, beq), symx.path_cases(F, bne)
    if ce is None or cn is None:
        return ""
    ne_, nn = norm(ce), norm(cn)
    if set(ne_) != set(nn):
        ec = {v[1] for v in ne_.values() if v[0] == "const"}
        nc = {v[1] for v in nn.values() if v[0] == "const"}
        if ec and nc and {1 - x for x in ec} != nc:
            return "`eq` answers the constants %s, `ne` the constants %s: for some pair of values `a == b` and `a != b` agree" % (sorted(ec), sorted(nc))
        return ""
    for k, ve in ne_.items():
        vn = nn[k]
        if ve[0] == "const" and vn[0] == "const" and ve[1] == vn[1]:
            return "under the same conditions (%s) `eq` and `ne` both answer the constant `%s`: `a == b` and `a != b` agree for such a pair" % (", ".join("%s %s %s" % (c[0][:50], c[1], c[2]) for c in sorted(k, key=str)) or "always", "true" if ve[1] else "false")
        if ve[0] == "ask" and vn[0] == "ask" and ve[1] == vn[1]:
            return "`ne` asks the value the same question as `eq` without negating the answer"
        if {ve[0], vn[0]} == {"const", "ask"}:
            return "in a case where `eq` %s, `ne` %s" % ("answers a constant" if ve[0] == "const" else "asks the value", "answers a constant" if vn[0] == "const" else "asks the value")
    return None


def _path_without_delegate(F, L, b, tr):
    """Line of a return of body b reachable from its entry without passing a call that (transitively) reaches trait `tr` on a
    payload-like type; None if every returning path delegates."""
    B = cfg.Body(b)
    cut = set()
    for bi, t in B.calls():
        if t.get("callee_trait") == tr and t.get("callee_self") is not None and payload_like(F, t["callee_self"]):
            r = t.get("resolved")
            if not (isinstance(r, dict) and r["def"] in F.bodies):
                cut.add(bi)
                continue
        cands = set()
        r = t.get("resolved")
        if isinstance(r, dict):
            if r["def"] in F.bodies:
                cands.add(r["def"])
            args = r["args"]
        else:
            args = t.get("callee_args") or []
            if t.get("callee") in F.bodies:
                cands.add(t["callee"])
        direct_item = False
        for a in list(args) + [{"t": x} for x in t.get("arg_tys", [])]:
            if "t" in a:
                for x in F.walk(a["t"]):
                    tt = F.ty(x)
                    if tt["k"] in ("closure", "fndef") and tt["def"] in F.bodies:
                        cands.add(tt["def"])
                    elif tt["k"] == "fndef" and "::" in tt["def"] and tt["def"].rsplit("::", 1)[0] == tr and tt.get("args") and "t" in tt["args"][0]:
                        # the payload's own method handed over as a function item (`on_values(self, other, T::eq)`)
                        if payload_like(F, tt["args"][0]["t"]):
                            direct_item = True
                        else:
                            from ..implsel import fn_item

                            k2 = fn_item(F, x)[0]
                            if k2:
                                cands.add(k2)
        if direct_item:
            cut.add(bi)
            continue
        for c in cands:
            leaves, _pe, _seen = L.reach(c)
            own = L.direct(c) if False else []
            if any(l["trait"] == tr and payload_like(F, l["self"]) for l in leaves):
                cut.add(bi)
                break
    # formatting through `&dyn Debug` (debug_struct().field(..)) counts as a delegate where the unsizing happens
    for bi, bl in enumerate(b["blocks"]):
        for st_ in bl["stmts"]:
            if st_["k"] == "assign" and st_["rv"]["k"] == "cast" and "Unsize" in st_["rv"]["cast"]:
                cut.add(bi)
    for bi, bl in enumerate(b["blocks"]):
        if bl["term"]["k"] == "return" and bi in B.reach(0, normal_only=True, avoid=cut) and bi not in cut:
            return bl["term"]["span"]["line"]
    return None


def _returns_deref(F, b, depth):
    """The body returns the handle's own `Deref::deref` of its argument, directly or through a private accessor that does."""
    if depth > 3:
        return False
    B = cfg.Body(b)
    o = B.origin_local(0)
    if o.get("kind") != "call":
        return False
    t = o["term"]
    r = t.get("resolved")
    if not (isinstance(r, dict) and r["def"] in F.bodies):
        return False
    a0 = operand_place(t["args"][0]) if t["args"] else None
    if a0 is None or 1 not in _roots(B, a0["l"], set()):
        return False
    if t.get("callee_trait") == "core::ops::deref::Deref":
        return True
    return _returns_deref(F, F.body(r["def"]), depth + 1)


def _ref_rule(F, b, rep, tag):
    """Borrow / AsRef: the returned reference is the Deref of the handle (points at the payload)."""
    ok = _returns_deref(F, b, 0)
    if ok:
        rep.ok("R-DELEG", b["key"], cfg=tag)
    else:
        rep.bad("R-DELEG", b["key"], "Borrow/AsRef does not return the handle's Deref target (the payload), so a map keyed by the handle could not be probed by value", F.loc(b), tag)


def _whole_word_of(F, B, op):
    """If `op` is (a reference to / a copy / a plain cast of) a whole pointer-typed field of the handle passed as argument k
    - `self.p`, `&other.ptr`, `self.p.as_ptr()` - with no arithmetic on the way, return k."""
    from .. import symx

    from .. import balance as _bal

    # (a private accessor - `fn ptr(&self) -> *mut ArcInner<T> { self.p.as_ptr() }` - is read through; one that masks or offsets
    # the word - `fn addr(&self) -> usize { self.p.as_ptr() as usize & !1 }` - then shows its arithmetic)
    # (a public accessor of the crate - `heap_ptr()` - is read through the same way: whatever it does to the word shows)
    e = symx.normalize_calls(F, symx.expr(F, B, op), lambda k: F.body(k) is not None)
    for _ in range(12):
        if not isinstance(e, tuple) or not e:
            return None
        if e[0] == "bb":
            e = e[-1]
        elif e[0] == "addr":
            e = e[1]
        elif e[0] == "cast":
            e = e[2]
        elif e[0] == "call" and e[1] in symx.IDENTITY_CALLS and e[3]:
            e = e[3][0]
        else:
            break
    # `(*&(*arg).0).p`: projections of references to projections are one path from the argument
    names_all = []
    while isinstance(e, tuple) and e and e[0] in ("proj", "addr"):
        if e[0] == "proj":
            names_all = list(e[2]) + names_all
        e = e[1]
    if not (isinstance(e, tuple) and e and e[0] == "arg"):
        return None
    e = ("proj", e, tuple(names_all))
    names = [n for n in e[2] if n != "*"]
    if len(names) != 1:
        return None
    return e[1][1]


def ptr_eq_is_pure(F, b):
    """`ptr_eq` is nothing but the equality of the two handles' whole stored pointers: no branch, no further condition, no
    arithmetic on the words (comparing addresses with a tag masked off equates the two variants of an `ArcUnion<A, A>`)."""
    B = cfg.Body(b)
    o = B.origin_local(0)
    sides = None
    if o.get("kind") == "call" and len(o["term"]["args"]) == 2 and (atomics.callee_of(o["term"]) in ("core::ptr::addr_eq", "core::ptr::eq") or (o["term"].get("callee_trait") == "core::cmp::PartialEq" and o["term"].get("callee_name") == "eq" and o["term"].get("callee_self") is not None and pointer_like(F, o["term"]["callee_self"]))):
        sides = list(o["term"]["args"])
    elif o.get("kind") == "rvalue" and o["rv"]["k"] == "binop" and o["rv"]["op"] == "Eq":
        sides = [o["rv"]["a"], o["rv"]["b"]]
    if sides is None or any(bl["term"]["k"] == "switch" for bl in b["blocks"]):
        return False
    ks = [_whole_word_of(F, B, x) for x in sides]
    return sorted(k for k in ks if k) == [1, 2]


def licence_tests(F, b):
    """The same-allocation tests of an `eq`/`ne` body: switches on `ptr_eq(a, b)` or on the equality of the two handles' whole
    stored pointers (`self.p == other.p`). -> [(bb, term, cond, call-or-None)], and the blocks reachable only through a true edge."""
    B = cfg.Body(b)
    tests = []
    for bi, bl in enumerate(b["blocks"]):
        tt = bl["term"]
        if tt["k"] != "switch":
            continue
        c = B.condition(tt["discr"])
        if not c:
            continue
        if "call" in c:
            t = c["call"]
            callee = atomics.callee_of(t)
            if (F.body(callee) or {}).get("name") == "ptr_eq":
                if ptr_eq_is_pure(F, F.body(callee)):  # (judged on its own as well: R-LICENCE below)
                    tests.append((bi, tt, c, t))
                continue
            if len(t["args"]) == 2 and (callee in ("core::ptr::addr_eq", "core::ptr::eq") or (t.get("callee_trait") == "core::cmp::PartialEq" and t.get("callee_name") == "eq" and t.get("callee_self") is not None and pointer_like(F, t["callee_self"]))):
                ks = [_whole_word_of(F, B, a) for a in t["args"]]
                if sorted(k for k in ks if k) == [1, 2]:
                    tests.append((bi, tt, c, t))
        elif c.get("op") in ("Eq", "Ne") and "a" in c:
            ks = [_whole_word_of(F, B, c["a"]), _whole_word_of(F, B, c["b"])]
            if sorted(k for k in ks if k) == [1, 2]:
                tests.append((bi, tt, c, None))
    region = set()
    for bi, tt, c, _t in tests:
        for tgt, tv in B.switch_truth(tt).items():
            same = (tv != c["neg"]) == (c.get("op") != "Ne")
            if not same:
                continue
            # blocks reachable from the entry only through this edge
            seen = set()
            todo = [0]
            while todo:
                x = todo.pop()
                if x in seen:
                    continue
                seen.add(x)
                for sx in B._succ[x]:
                    if (x, sx) != (bi, tgt):
                        todo.append(sx)
            region |= set(range(len(b["blocks"]))) - seen
    return tests, region


def _licence_consts(F, b, const_on_same):
    """Every constant answer equal to the same-allocation answer (`true` in eq, `false` in ne) is given inside the licensed
    region: anywhere else it says "equal" without having asked the values (e.g. after comparing addresses stripped of a tag)."""
    B = cfg.Body(b)
    tests, region = licence_tests(F, b)
    for bi, bl in enumerate(b["blocks"]):
        for s in bl["stmts"]:
            if s["k"] == "assign" and s["lhs"]["l"] == 0 and not s["lhs"]["p"] and s["rv"]["k"] == "use":
                v = B.const_value(s["rv"]["op"])
                if v is not None and int(v) == const_on_same and bi not in region:
                    return "the constant `%s` is answered (line %s) outside the same-allocation test of the two handles' whole stored pointers: the values were not asked" % ("true" if const_on_same else "false", s["span"]["line"])
    return None


def _licence_shape(F, b, const_on_same):
    """`ptr_eq(a,b) || delegate` (eq) / `!ptr_eq(a,b) && delegate` (ne): same allocation answers `const_on_same`
    without consulting the value; otherwise the answer is the delegate's."""
    B = cfg.Body(b)
    sw = None
    for bi, bl in enumerate(b["blocks"]):
        tt = bl["term"]
        if tt["k"] != "switch":
            continue
        c = B.condition(tt["discr"])
        if c and "call" in c:
            callee = atomics.callee_of(c["call"])
            if (F.body(callee) or {}).get("name") == "ptr_eq":
                sw = (bi, tt, c)
    deleg_bbs = set()
    for bi, t in B.calls():
        if t.get("callee_trait") == "core::cmp::PartialEq" and t.get("resolved") == "unresolved":
            deleg_bbs.add(bi)
    if not deleg_bbs:
        # the payload's method handed to a private helper as a function item (`self.on_values(other, T::eq)`)
        for bi, t in B.calls():
            r = t.get("resolved")
            for a in (r["args"] if isinstance(r, dict) else (t.get("callee_args") or [])):
                if "t" in a:
                    ft = F.ty(F.strip_refs(a["t"]))
                    if ft["k"] == "fndef" and ft["def"].rsplit("::", 1)[0] == "core::cmp::PartialEq" and ft.get("args") and "t" in ft["args"][0] and payload_like(F, ft["args"][0]["t"]):
                        deleg_bbs.add(bi)
    if not deleg_bbs:
        return False, "no delegation to the payload's PartialEq found"
    if sw is None:
        return True, None  # no shortcut at all: plain delegation
    bi, tt, c = sw
    ret_bbs = [i for i, bl in enumerate(b["blocks"]) if bl["term"]["k"] == "return"]
    for tgt, tv in B.switch_truth(tt).items():
        same = tv != c["neg"]
        if same:
            # constant answer
            reach = B.reach(tgt, normal_only=True)
            consts = []
            for i in reach:
                for s in b["blocks"][i]["stmts"]:
                    if s["k"] == "assign" and s["lhs"]["l"] == 0 and not s["lhs"]["p"]:
                        v = B.const_value(s["rv"]["op"]) if s["rv"]["k"] == "use" else None
                        consts.append(v)
            if reach & deleg_bbs:
                continue  # consults the value anyway: fine
            if not consts or any(v != const_on_same for v in consts if v is not None) or any(v is None for v in consts):
                return False, "for two handles to the same allocation the answer is not the constant `%s`" % bool(const_on_same)
        else:
            # must consult the payload before returning
            seen = set()
            todo = [tgt]
            while todo:
                x = todo.pop()
                if x in seen or x in deleg_bbs:
                    continue
                seen.add(x)
                todo.extend(B._succ_normal[x])
            if any(r in seen for r in ret_bbs):
                return False, "for handles to distinct allocations the function can return without consulting the values (pointer identity decides the answer)"
    return True, None


# ---------------------------------------------------------------------------------------------- R-FOOT
from ..implsel import find_impl, resolve, specificity, unify  # noqa: E402,F401


def _self_paths_in(F, b, alias):
    """Field paths read through locals that point at `self`: alias = {local: number of derefs down to Self}."""
    alias = dict(alias)
    out = []
    changed = True
    # propagate aliases through plain copies and single derefs (`_6 = copy (*_5)`)
    while changed:
        changed = False
        for bl in b["blocks"]:
            for s in bl["stmts"]:
                if s["k"] != "assign" or s["lhs"]["p"] or s["rv"]["k"] not in ("use", "ref"):
                    continue
                reborrow = s["rv"]["k"] == "ref"  # `&*self` handed to a helper
                pl = s["rv"]["place"] if reborrow else operand_place(s["rv"]["op"])
                if pl is None or pl["l"] not in alias:
                    continue
                d = alias[pl["l"]]
                derefs = 0
                rest = list(pl["p"])
                while rest and rest[0] == "deref":
                    derefs += 1
                    rest = rest[1:]
                nd = d - derefs + (1 if reborrow else 0)
                if not rest and derefs <= d and nd >= 1 and s["lhs"]["l"] not in alias:
                    alias[s["lhs"]["l"]] = nd
                    changed = True
    for bi, bl in enumerate(b["blocks"]):
        for si, s in enumerate(bl["stmts"]):
            if s["k"] != "assign":
                continue
            rv = s["rv"]
            pl = None
            if rv["k"] in ("ref", "rawptr"):
                pl = rv["place"]
            elif rv["k"] == "use":
                pl = operand_place(rv["op"])
            if pl is None or pl["l"] not in alias:
                continue
            d = alias[pl["l"]]
            rest = list(pl["p"])
            k = 0
            while rest and rest[0] == "deref" and k < d:
                rest = rest[1:]
                k += 1
            if k != d:
                continue
            names = []
            fty = None
            for pe in rest:
                if isinstance(pe, dict) and "f" in pe:
                    names.append(pe.get("name", str(pe["f"])))
                    fty = pe["ty"]
                else:
                    break
            if names:
                out.append(((bi, si), tuple(names), fty))
    return out


def used_self_paths(F, b):
    """Ordered field paths of `self` (argument 1) that the body - and the closures it creates over `self` - reads:
    [(names tuple, field type idx)], maximal paths only."""
    found = list(_self_paths_in(F, b, {1: 1}))
    # closures capturing self
    for bi, bl in enumerate(b["blocks"]):
        for si, s in enumerate(bl["stmts"]):
            if s["k"] == "assign" and s["rv"]["k"] == "agg" and s["rv"].get("agg") == "closure":
                cb = F.body(s["rv"]["def"])
                if cb is None:
                    continue
                B = cfg.Body(b)
                for k, op in enumerate(s["rv"]["ops"]):
                    o = B.origin(op)
                    depth = None
                    if o.get("kind") == "arg" and o["arg"] == 1:
                        depth = 1
                    elif o.get("kind") == "rvalue" and o["rv"]["k"] == "ref" and o["rv"]["place"]["l"] == 1 and not o["rv"]["place"]["p"]:
                        depth = 2
                    if depth is None:
                        continue
                    # inside the closure the capture is field k of the environment (local 1, by value or behind one reference)
                    env_ref = F.ty(cb["locals"][1]["ty"])["k"] == "ref"
                    for bl2 in cb["blocks"]:
                        for s2 in bl2["stmts"]:
                            if s2["k"] == "assign" and not s2["lhs"]["p"] and s2["rv"]["k"] == "use":
                                pl = operand_place(s2["rv"]["op"])
                                if pl is not None and pl["l"] == 1:
                                    proj = [pe for pe in pl["p"] if pe != "deref"]
                                    if len(proj) == 1 and isinstance(proj[0], dict) and proj[0].get("adt") == "(closure)" and proj[0].get("f") == k:
                                        for pos, names, fty in _self_paths_in(F, cb, {s2["lhs"]["l"]: depth}):
                                            found.append(((bi, si), names, fty))
    found.sort(key=lambda x: x[0])
    out = []
    for _pos, p, ty in found:
        if (p, ty) not in out:
            out.append((p, ty))
    keep = []
    for p, ty in out:
        if not any(q != p and q[: len(p)] == p for q, _ in out):
            keep.append((p, ty))
    return keep


def footprint(F, trait, method, t, depth=0):
    """Ordered list of leaf field paths of a value of type t that `trait::method` reads; None if t has no local impl."""
    if depth > 8:
        return [()]
    idx, env = resolve(F, t)
    node = F.ty(idx)
    if not (node["k"] == "adt" and node["local"] and node["path"] in F.adts):
        return None
    if F.path_to_handle.get(node["path"]):
        return None
    hit = find_impl(F, trait, (idx, env))
    if hit is None:
        return None
    _sp, im, bind = hit
    item = None
    for it in im["items"]:
        if it["name"] == method:
            item = it["key"]
    if item is None and method in FALLBACK:
        for it in im["items"]:
            if it["name"] == FALLBACK[method]:
                item = it["key"]
    b = (inline.inlined(F, item) or F.body(item)) if item else None  # private key/tie-break helpers are part of the comparison
    if b is None:
        return None
    out = []
    for names, fty in used_self_paths(F, b):
        sub = footprint(F, trait, method, (fty, bind), depth + 1)
        if sub is None:
            ft = F.ty(resolve(F, (fty, bind))[0])
            if ft["k"] == "adt" and ft["path"] == "core::marker::PhantomData":
                continue
            out.append(names)
        else:
            for s in sub:
                out.append(names + s)
    return out


def rule_foot(ctx, rep):
    for tag, F, E in ctx.each():
        done = set()
        for im in F.impls:
            tr = im.get("trait")
            if tr not in ("core::cmp::PartialOrd", "core::cmp::Ord", "core::hash::Hash"):
                continue
            st = F.ty(im["self_ty"])
            if st["k"] != "adt" or not st["local"] or F.path_to_handle.get(st["path"]):
                continue
            t = (im["self_ty"], {})
            eqf = footprint(F, "core::cmp::PartialEq", "eq", t)
            if eqf is None:
                continue
            own = set(it["name"] for it in im["items"])
            for m in TRAITS[tr]:
                if m not in own:
                    continue  # provided method: defined by the primary one
                of = footprint(F, tr, m, t)
                if of is None:
                    continue
                ik = "%s :: %s::%s vs PartialEq::eq" % (st["s"], tr.split("::")[-1], m)
                if ik in done and False:
                    continue
                a, b_ = set(eqf), set(of)
                fmt = lambda s: sorted(".".join(p) for p in s)
                if a != b_:
                    missing = a - b_
                    extra = b_ - a
                    what = []
                    if missing:
                        what.append("equality reads %s which %s ignores" % (fmt(missing), m))
                    if extra:
                        what.append("%s reads %s which equality ignores" % (m, fmt(extra)))
                    consequence = "two values can be `!=` while `%s` calls them equal (or equal values hash differently)" % m
                    rep.bad("R-FOOT", ik, "comparison footprints disagree on %s: %s; %s. eq reads %s, %s reads %s" % (st["s"], "; ".join(what), consequence, fmt(a), m, fmt(b_)), "%s:%s" % (im["span"]["file"], im["span"]["line"]), tag)
                else:
                    # header before slice in orderings
                    ok = True
                    if tr != "core::hash::Hash":
                        names = [".".join(p) for p in of]
                        hs = [i for i, n in enumerate(names) if n.endswith("header")]
                        ss = [i for i, n in enumerate(names) if n.endswith("slice")]
                        if hs and ss and min(ss) < min(hs):
                            ok = False
                            rep.bad("R-FOOT", ik, "ordering compares the slice before the header (%s)" % names, "%s:%s" % (im["span"]["file"], im["span"]["line"]), tag)
                    if ok:
                        rep.ok("R-FOOT", ik, cfg=tag)
                        if len(rep.samples) < 10 and tag == "default" and m in ("cmp", "hash"):
                            rep.sample({"rule": "R-FOOT", "type": st["s"], "method": m, "footprint": fmt(b_)})
    rep.floor("R-FOOT", 8, "eq/ord/hash impl groups on HeaderSlice (generic and length-carrying), HeaderWithLength, Protected")


ORDERING = "core::cmp::Ordering"


def rule_lex(ctx, rep):
    """Orderings of payload structs are lexicographic: a later key is compared (and can decide or fail) only when every earlier key
    compared Equal - via a tuple/derive delegation, a branch on the earlier result being Equal, or `Ordering::then_with`."""
    for tag, F, E in ctx.each():
        for im in F.impls:
            tr = im.get("trait")
            if tr not in ("core::cmp::PartialOrd", "core::cmp::Ord"):
                continue
            st = F.ty(im["self_ty"])
            if st["k"] != "adt" or not st["local"] or F.path_to_handle.get(st["path"]):
                continue
            for it in im["items"]:
                if it["name"] not in ("partial_cmp", "cmp"):
                    continue
                b = inline.inlined(F, it["key"]) or F.body(it["key"])
                if b is None:
                    continue
                B = cfg.Body(b)
                leaves = [(bi, t) for bi, t in B.calls() if (t.get("callee_trait") in ("core::cmp::PartialOrd", "core::cmp::Ord") and t.get("callee_name") in ("partial_cmp", "cmp")) or _is_cmp_fn_item_call(F, t)]
                ik = "%s :: %s::%s" % (st["s"], tr.split("::")[-1], it["name"])
                # orientation: every key comparison is (something of self) against (the same thing of other), in that order - a
                # swapped pair answers the reverse of what the other operators answer for the same two values
                swapped = None
                for bi, t in leaves:
                    if len(t["args"]) != 2:
                        continue
                    ra = [_roots(B, pl["l"], set()) if pl is not None else set() for pl in (operand_place(a) for a in t["args"])]
                    if 2 in ra[0] and 1 not in ra[0] and 1 in ra[1] and 2 not in ra[1]:
                        reversed_ = any(t2.get("callee_name") == "reverse" and t["dest"]["l"] in _roots(B, operand_place(t2["args"][0])["l"], set()) for _bj, t2 in B.calls() if t2["args"] and operand_place(t2["args"][0]) is not None)
                        if not reversed_:
                            swapped = t
                if swapped is not None:
                    rep.bad("R-ORIENT", ik, "the key comparison at line %s is applied as (other, self): for two values that differ only in that key, `%s` answers the reverse of the operators defined through the other method (`<`, `partial_cmp`), so the comparisons are not mutually consistent" % (swapped["span"]["line"], it["name"]), F.loc(b, swapped["span"]), tag)
                else:
                    rep.ok("R-ORIENT", ik, cfg=tag, nontrivial=bool(leaves))
                if len(leaves) <= 1:
                    rep.ok("R-LEX", ik, "single delegation (tuple / wrapped value)", cfg=tag, nontrivial=len(leaves) == 1)
                    continue
                leaves.sort(key=lambda x: x[0])
                ok = True
                why = None
                for (pbi, pt), (bi, t) in zip(leaves, leaves[1:]):
                    # switches on an Ordering-typed discriminant derived from the previous comparison's result
                    cut = set()
                    for sj, bl in enumerate(b["blocks"]):
                        tt = bl["term"]
                        if tt["k"] != "switch":
                            continue
                        pl = operand_place(tt["discr"])
                        if pl is None:
                            continue
                        d = B.single_def(pl["l"])
                        if not d or d[0] != "assign" or d[3]["k"] != "discr":
                            continue
                        src = d[3]["place"]
                        if "ty" not in src or not F.is_adt(src["ty"], ORDERING):
                            continue
                        if pt["dest"]["l"] not in _roots(B, src["l"], set()):
                            continue
                        vals = set(v for v, _tg in tt["arms"])
                        for v, tgt in tt["arms"]:
                            if v == 0:
                                cut.add((sj, tgt))
                        if 0 not in vals and 1 in vals and (vals & {-1, 255, (1 << 8) - 1}):
                            cut.add((sj, tt["otherwise"]))  # `Less` and `Greater` have arms of their own: what is left is `Equal`
                    from . import c03

                    if not cut or c03.reachable_without(B, cut, set(), bi):
                        ok = False
                        why = "the comparison of a later key (line %s) runs - and can decide or make the result `None` - although an earlier key (line %s) may already differ or be incomparable: the order is not `earlier key first, later key only on a tie`" % (t["span"]["line"], pt["span"]["line"])
                if ok:
                    rep.ok("R-LEX", ik, cfg=tag)
                else:
                    rep.bad("R-LEX", ik, why, F.loc(b), tag)
    rep.floor("R-ORIENT", 4, "the same orderings")
    rep.floor("R-LEX", 4, "derived and hand-written orderings of the header-slice types")


def _is_cmp_fn_item_call(F, t):
    """`header(&a, &b)` where `header` is the function item `H::partial_cmp` / `T::cmp` handed to a private helper (a key comparison
    passed as a parameter): `FnOnce::call_once` on a value of that fn-item type."""
    if t.get("callee_trait") not in ("core::ops::function::FnOnce", "core::ops::function::FnMut", "core::ops::function::Fn") or not t.get("arg_tys"):
        return False
    ts = F.ts(F.strip_refs(t["arg_tys"][0]))
    return ts.startswith("fn {core::cmp::PartialOrd::partial_cmp") or ts.startswith("fn {core::cmp::Ord::cmp")


def _roots(B, l, seen):
    """Locals whose value flows (by moves, projections, calls taking it) into local l."""
    if l in seen:
        return seen
    seen.add(l)
    for d in B.defs().get(l, []):
        if d[0] == "call":
            for a in d[2]["args"]:
                pl = operand_place(a)
                if pl is not None:
                    _roots(B, pl["l"], seen)
        else:
            rv = d[3]
            pl = None
            if rv["k"] in ("use", "cast"):
                pl = operand_place(rv["op"])
            elif rv["k"] in ("ref", "rawptr", "discr"):
                pl = rv["place"]
            elif rv["k"] == "agg":
                for o in rv["ops"]:  # a closure environment / tuple built from other values
                    po = operand_place(o)
                    if po is not None:
                        _roots(B, po["l"], seen)
            if pl is not None:
                _roots(B, pl["l"], seen)
    return seen


CMP_TRAITS = ("PartialEq", "Eq", "PartialOrd", "Ord", "Hash", "Debug", "Display", "Borrow", "AsRef")


def rule_impl_unsized(ctx, rep):
    """"For every pair of values" includes values of unsized types: a handle or payload type whose own definition admits an unsized
    payload (`Arc<T: ?Sized>`, `ArcBorrow<'a, T: ?Sized>`, `HeaderSlice<H, T: ?Sized>`) hands out `Arc<[T]>`, `ArcBorrow<str>`,
    `Arc<HeaderSlice<H, [T]>>`, `Arc<dyn Trait>`; a comparison / hash / format impl written for the fully generic type that demands
    `T: Sized` silently does not exist for them (the bound usually arrives implicitly, by moving code into a `Sized`-only impl block
    or dropping the `?Sized`). Judged on the predicates rustc records for each impl."""
    n = 0
    for tag, F, E in ctx.each(da=False):
        adts = {a["path"]: a for a in F.raw["adts"]}
        for im in F.impls:
            tr = (im.get("trait") or "").split("::")[-1]
            if tr not in CMP_TRAITS:
                continue
            st = F.ty(im["self_ty"])
            if st["k"] != "adt" or st.get("path") not in adts:
                continue
            a = adts[st["path"]]
            gens = [g for g in a.get("generics", []) if g.get("kind") == "type"]
            targs = [x["t"] for x in st.get("args", []) if "t" in x]
            if len(gens) != len(targs):
                continue
            adt_sized = set()
            for p in a.get("preds", []):
                if p["kind"] == "trait" and p["trait"] == "core::marker::Sized":
                    adt_sized.add(p["s"].split(":")[0].strip())
            free = [(g["name"], t) for g, t in zip(gens, targs) if g["name"] not in adt_sized and F.ty(t)["k"] == "param"]
            if not free:
                continue
            n += 1
            ik = "%s for %s" % (tr, F.ts(im["self_ty"]))
            lost = []
            for p in im["preds"]:
                if p["kind"] == "trait" and p["trait"] == "core::marker::Sized" and F.ty(p["self"])["k"] == "param":
                    nm = F.ty(p["self"])["name"]
                    if any(F.ty(t)["name"] == nm for _g, t in free):
                        lost.append(nm)
            if lost:
                rep.bad("R-IMPL-UNSIZED", ik, "`%s` admits an unsized `%s` (the crate hands out such handles: slices, str, header-slices, trait objects) but this `%s` impl requires `%s: Sized`: for those payloads the handle cannot be compared / hashed / formatted at all although the value it holds can" % (a["name"], "`, `".join(lost), tr, lost[0]), "%s:%s" % (im["span"]["file"], im["span"]["line"]), tag)
            else:
                rep.ok("R-IMPL-UNSIZED", ik, cfg=tag)
    rep.floor("R-IMPL-UNSIZED", 15, "Arc's ten impls, ArcBorrow's three, HeaderSlice's six (+ the length-carrying orderings) in every configuration")
    return n


def run(ctx, rep):
    from . import c12 as _c12

    _c12.union_tag_premise(ctx, rep)  # ArcUnion's eq / Debug go through `borrow()`: they see the held value only if the variant test and the tag strip are exact
    rule_deleg(ctx, rep)
    rule_impl_unsized(ctx, rep)
    rule_whole(ctx, rep)
    rule_foot(ctx, rep)
    rule_lex(ctx, rep)


def main(argv):
    return core.run_property(
        PROP,
        "other",
        run,
        argv,
        explanation=(
            "Where the answer comes from, decided from the type-resolved call graph. R-DELEG: every PartialEq/PartialOrd/Ord/Hash/Debug/Display "
            "method implemented on a handle type (Arc, ThinArc, OffsetArc, ArcBorrow, ArcUnion, ArcUnionBorrow) or a public header-slice payload type "
            "reaches the same trait method on the payload (a type parameter, [T], or a payload struct expanded recursively), never a comparison / "
            "hash / format of the pointer (NonNull, raw pointer, including `&NonNull -> &dyn Debug` unsizing), and does not substitute another method "
            "(lt for le, Debug for Display); Borrow/AsRef return the Deref target. R-LICENCE: the single pointer-identity shortcut has the shape "
            "`same allocation => equal` and otherwise the delegate decides. R-FOOT: for each payload struct, the set of leaf fields read by eq equals "
            "the set read by partial_cmp/cmp/lt../hash at the same instantiation (derived impls expanded at the impl's own self type), header before "
            "slice. By parametricity a one-call delegation returns the payload's answer. Not decided: the payload's own coherence; concrete results."
            ' Added later: the same-allocation licence is stated for every handle (the constant "equal" answer only under the equality of the two handles\' whole stored pointers, `ptr_eq` itself being exactly that); R-DELEG-ALL also covers the header-slice payload structs.'
            ' Round nineteen: R-TAG of C12 as a premise (ArcUnion compares and prints what `borrow()` lends; seed: `is_first` by `is_aligned::<A>()`).'
            ' Round thirteen/fourteen: R-IMPL-UNSIZED (comparison/format impls of types admitting unsized payloads do not demand `Sized`: impl predicates); R-LEX sees key comparisons passed as function items and `Equal` as the rest of a Less/Greater switch.'
        ),
        rule_text="instances = trait methods on handle/payload types (R-DELEG), the Arc::eq/ne shortcut (R-LICENCE), (type, ordering-or-hash method) pairs vs eq (R-FOOT)",
        trusted_base=["rustc trait resolution (Instance::try_resolve) and derive expansion as seen in MIR", "parametricity of one-call delegation"],
        assumptions=["payload trait impls are coherent with each other"],
    )
