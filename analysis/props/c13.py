"""C13 - thread-safety and borrow lifetimes are enforced by the type system."""
from .. import core, extract, witness
from ..facts import OWNING_HANDLES

PROP = "C13"
SEND = "core::marker::Send"
SYNC = "core::marker::Sync"
SHARED = ("Arc", "ThinArc", "OffsetArc", "ArcBorrow", "ArcUnion")


NEVER = ("<never>", "<never>")


def _expand_auto(F, by, idx, env, tr, depth):
    """The set of (type parameter, auto trait) atoms that `type: tr` amounts to - following manual impls of local types (their
    parameter bounds) and the structural definition of auto traits otherwise - or None when it cannot be told.
    `NEVER` in the set: the bound can never hold (raw pointers)."""
    if depth > 12:
        return None
    t = F.ty(idx)
    k = t["k"]
    if k == "param":
        if t["name"] in env:
            ti, e2 = env[t["name"]]
            return _expand_auto(F, by, ti, e2, tr, depth + 1)
        return {(t["name"], tr)}
    if k in ("prim", "str", "never"):
        return set()
    if k in ("array", "slice"):
        return _expand_auto(F, by, t["t"], env, tr, depth + 1)
    if k == "tuple":
        out = set()
        for x in t["ts"]:
            r = _expand_auto(F, by, x, env, tr, depth + 1)
            if r is None:
                return None
            out |= r
        return out
    if k == "ref":
        shared = not t.get("mut")
        return _expand_auto(F, by, t["t"], env, SYNC if (shared or tr == SYNC) else SEND, depth + 1)
    if k == "ptr":
        return {NEVER}
    if k != "adt":
        return None
    path = t["path"]
    targs = [a["t"] for a in t["args"] if "t" in a]
    if path == "core::ptr::non_null::NonNull":
        return {NEVER}
    if path in ("core::marker::PhantomData", "core::mem::manually_drop::ManuallyDrop", "core::mem::maybe_uninit::MaybeUninit"):
        return _expand_auto(F, by, targs[0], env, tr, depth + 1)
    if path.startswith("core::sync::atomic::Atomic"):
        return set()
    if path in ("core::cell::UnsafeCell", "core::cell::Cell"):
        return _expand_auto(F, by, targs[0], env, SEND, depth + 1) if tr == SEND else {NEVER}
    adt = F.adts.get(path)
    if not adt or not t.get("local"):
        return None
    names = [g["name"] for g in adt["generics"] if g["kind"] == "type"]
    e2 = {n: (ti, env) for n, ti in zip(names, targs)}
    ims = by.get((path, tr), [])
    if ims:
        if len(ims) != 1 or ims[0].get("negative"):
            return None
        im = ims[0]
        st = F.ty(im["self_ty"])
        iargs = [F.ty(a["t"]) for a in st["args"] if "t" in a]
        if not all(a["k"] == "param" for a in iargs) or len(iargs) != len(targs):
            return None
        e3 = {a["name"]: (ti, env) for a, ti in zip(iargs, targs)}
        out = set()
        for p in im["preds"]:
            if p["kind"] != "trait" or p["trait"] not in (SEND, SYNC):
                continue
            r = _expand_auto(F, by, p["self"], e3, p["trait"], depth + 1)
            if r is None:
                return None
            out |= r
        return out
    out = set()
    for v in adt["variants"]:
        for f in v["fields"]:
            r = _expand_auto(F, by, f["ty"], e2, tr, depth + 1)
            if r is None:
                return None
            out |= r
    return out


def rule_auto(ctx, rep, only=None):
    """Exactness of the manual auto-trait impls, for all payload types at once (read from the impl table)."""
    for tag, F, E in ctx.each(da=False):
        by = {}
        for im in F.impls:
            tr = im.get("trait")
            if tr not in (SEND, SYNC):
                continue
            st = F.ty(im["self_ty"])
            if st["k"] != "adt":
                rep.bad("R-AUTO", "impl %s for %s" % (tr, st["s"]), "manual auto-trait impl on a non-ADT type", None, tag)
                continue
            by.setdefault((st["path"], tr), []).append(im)
        for h in SHARED + ("UniqueArc",):
            if only and h not in only:
                continue
            hp = F.handle_paths.get(h)
            adt = F.adts.get(hp or "")
            if not adt:
                rep.bad("ANCHOR-LOST", "R-AUTO/" + h, "handle type is missing", None, tag)
                continue
            tparams = [g["name"] for g in adt["generics"] if g["kind"] == "type"]
            for tr in (SEND, SYNC):
                ik = "%s: %s" % (h, tr.split("::")[-1])
                ims = by.get((hp, tr), [])
                if not ims:
                    # no manual impl: the compiler derives the auto trait from the fields (`PhantomData<Arc<A>>` markers give
                    # exactly Arc<A>'s bounds, bare `PhantomData<A>` markers give too little)
                    hi = next((i for i, t in enumerate(F.types) if t["k"] == "adt" and t.get("path") == hp and all(F.ty(a["t"])["k"] == "param" for a in t.get("args", []) if "t" in a)), None)
                    ex = _expand_auto(F, by, hi, {}, tr, 0) if hi is not None else None
                    want0 = set((n, tr) for n in tparams) if h == "UniqueArc" else set((n, t) for n in tparams for t in (SEND, SYNC))
                    if ex is not None and ex == want0:
                        rep.ok("R-AUTO", ik, "derived from the fields: " + ", ".join(sorted("%s: %s" % (n, t.split("::")[-1]) for n, t in ex)), cfg=tag)
                    elif ex is not None:
                        rep.bad("R-AUTO", ik, "there is no manual impl and the fields give `%s` %s; required exactly %s: %s" % (tr.split("::")[-1], ("never" if NEVER in ex else "where " + ", ".join(sorted("%s: %s" % (n, t.split("::")[-1]) for n, t in ex))) , sorted("%s: %s" % (n, t.split("::")[-1]) for n, t in want0), "a handle could cross threads with a payload that must not" if (want0 - ex) and NEVER not in ex else "handles of sound payloads are needlessly not Send/Sync"), None, tag)
                    else:
                        rep.bad("R-AUTO", ik, "expected exactly one manual `unsafe impl %s for %s`, found 0 (and what the fields give cannot be told)" % (tr.split("::")[-1], h), None, tag)
                    continue
                if len(ims) != 1:
                    rep.bad("R-AUTO", ik, "expected exactly one manual `unsafe impl %s for %s`, found %d" % (tr.split("::")[-1], h, len(ims)), None, tag)
                    continue
                im = ims[0]
                loc = "%s:%s" % (im["span"]["file"], im["span"]["line"])
                if im.get("negative"):
                    rep.bad("R-AUTO", ik, "negative impl", loc, tag)
                    continue
                # self type must be the fully generic handle (no specialised instantiation)
                st = F.ty(im["self_ty"])
                args = [F.ty(a["t"]) for a in st["args"] if "t" in a]
                if not all(a["k"] == "param" for a in args) or len(set(a["name"] for a in args)) != len(args):
                    rep.bad("R-AUTO", ik, "the impl is not on the fully generic handle type (%s)" % st["s"], loc, tag)
                    continue
                names = [a["name"] for a in args]
                got = set()
                other = []
                for p in im["preds"]:
                    if p["kind"] != "trait":
                        continue
                    if p["trait"] in (SEND, SYNC):
                        sn = F.ty(p["self"])
                        if sn["k"] == "param":
                            got.add((sn["name"], p["trait"]))
                        else:
                            # a bound on a composite type (`where ThinInner<H, T>: Send`): what it demands of the parameters,
                            # through the manual impls of local types and the structural rule elsewhere
                            ex = _expand_auto(F, by, p["self"], {}, p["trait"], 0)
                            if ex is None:
                                other.append(p["s"])
                            else:
                                got |= ex
                if h == "UniqueArc":
                    want = set((n, tr) for n in names)
                else:
                    want = set((n, t) for n in names for t in (SEND, SYNC))
                if got == want and not other:
                    rep.ok("R-AUTO", ik, "where " + ", ".join(sorted("%s: %s" % (n, t.split("::")[-1]) for n, t in got)), cfg=tag)
                    if tag == "default":
                        rep.sample({"rule": "R-AUTO", "impl": ik, "bounds": sorted("%s: %s" % (n, t.split("::")[-1]) for n, t in got), "at": loc})
                else:
                    missing = want - got
                    extra = got - want
                    rep.bad("R-AUTO", ik, "the impl's auto-trait bounds are %s; required exactly %s (missing %s, extra %s %s): %s" % (
                        sorted("%s: %s" % (n, t.split("::")[-1]) for n, t in got), sorted("%s: %s" % (n, t.split("::")[-1]) for n, t in want),
                        sorted("%s: %s" % (n, t.split("::")[-1]) for n, t in missing), sorted("%s: %s" % (n, t.split("::")[-1]) for n, t in extra), other,
                        "a handle could cross threads with a payload that must not" if missing else "handles of sound payloads are needlessly not Send/Sync"), loc, tag)
        # nothing else carries a manual Send/Sync impl except the allocation header INNER
        for (path, tr), ims in by.items():
            hn = F.path_to_handle.get(path)
            if hn in SHARED + ("UniqueArc",) or only:
                continue
            ik = "%s: %s" % (path, tr.split("::")[-1])
            if path == F.inner_path:
                rep.ok("R-AUTO", ik, "allocation header", cfg=tag)
            elif path in F.adts and not F.adts[path].get("reachable", True):
                # a private type (`struct TaggedPtr(NonNull<()>)`): its impls reach clients only through the handle types that
                # contain it, whose own bounds are computed *through* these impls above
                rep.ok("R-AUTO", ik, "private type: accounted for in the handles that contain it", cfg=tag, nontrivial=False)
            else:
                rep.bad("R-AUTO", ik, "unexpected manual auto-trait impl on %s" % path, None, tag)
        # R-PHANTOM: owning handles with a destructor mention every payload parameter in a PhantomData / owning field
        for h in OWNING_HANDLES:
            hp = F.handle_paths.get(h)
            adt = F.adts.get(hp or "")
            if not adt or hp not in F.drop_impls:
                continue
            tparams = [g["name"] for g in adt["generics"] if g["kind"] == "type"]
            mentioned = set()
            for f in adt["variants"][0]["fields"]:
                ft = F.ty(f["ty"])
                if ft["k"] == "adt" and ft["path"] == "core::marker::PhantomData" or (ft["k"] == "adt" and F.path_to_handle.get(ft["path"]) in OWNING_HANDLES):
                    mentioned |= _owned_params(F, f["ty"])
            db = F.body(F.drop_impls[hp]) or {}
            dangle = set(g["name"] for g in db.get("generics", []) if g.get("may_dangle"))
            if not dangle:
                rep.ok("R-PHANTOM", h, "the Drop impl has no #[may_dangle] parameter: the drop checker already treats every parameter as used", cfg=tag)
            elif dangle & set(tparams) <= mentioned:
                rep.ok("R-PHANTOM", h, "#[may_dangle] %s owned through a marker" % sorted(dangle), cfg=tag)
            else:
                tparams = sorted(dangle & set(tparams))
                rep.bad("R-PHANTOM", h, "%s owns and drops its payload but has no PhantomData (or owning handle field) that owns %s - a marker behind a raw pointer or reference does not count: under `#[may_dangle]` the drop checker would let it outlive data the payload borrows" % (h, sorted(set(tparams) - mentioned)), None, tag)
        # R-LIFETIME: no safe function returns a borrow (reference, ArcBorrow<'a, _>, ...) whose lifetime is not tied to an input:
        # an unconstrained output lifetime lets the caller pick `'static`, so the view outlives the handle it was taken from
        for b in F.body_list:
            if b["kind"] not in ("Fn", "AssocFn") or "out_regions" not in b:
                continue
            # `'static` counts only in a view position (`&'static T`, `ArcBorrow<'static, T>`): `&'static str` borrows nothing of ours
            outs = [r for r in b["out_regions"] if r != "'static" or r in b.get("out_view_regions", [])]
            if not outs:
                continue
            ins = set(b["in_regions"])
            longer = {}
            for a, c in b.get("region_outlives", []):
                longer.setdefault(c, set()).add(a)  # a: c  (a outlives c)
            unbound = []
            for r in outs:
                if r in ins:
                    continue
                seen, todo = set(), [r]
                tied = False
                while todo:
                    x = todo.pop()
                    if x in seen:
                        continue
                    seen.add(x)
                    for q in longer.get(x, ()):
                        if q in ins:
                            tied = True
                        todo.append(q)
                if not tied:
                    unbound.append(r)
            if not unbound:
                rep.ok("R-LIFETIME", b["key"], cfg=tag)
            elif b.get("unsafe"):
                rep.ok("R-LIFETIME", b["key"], "unsafe fn: the caller chooses and vouches for %s" % unbound, cfg=tag)
            else:
                rep.bad("R-LIFETIME", b["key"], "safe function `%s` returns a value borrowing for %s, a lifetime that occurs in none of its inputs (and is not outlived by one): the caller may choose any lifetime, `'static` included, so the returned view can outlive the handle or data it refers to" % (b["sig"], ", ".join(unbound)), F.loc(b), tag)
        # R-SELFREF: a returned reference that is the *handle reference itself* re-typed (`&*(self as *const Self as *const
        # OffsetArc<T>)`: it points at the handle value - a stack slot or temporary -, not into the allocation) lives no longer
        # than that reference: its lifetime is the `&self` lifetime, not the payload lifetime the handle type carries
        from .. import ptrclass as _pc

        Nn = _pc.Norm(F)
        for b in F.body_list:
            if b["kind"] not in ("Fn", "AssocFn") or "out_ref_region" not in b or b.get("unsafe") or not balance_is_api(F, b):
                continue
            try:
                nf = Nn.ret(b["key"])
            except Exception:
                continue
            while nf[0] == "mk":
                break
            if nf[0] != "arg":
                continue
            k = nf[1]
            irr = b.get("in_ref_regions") or []
            if k - 1 >= len(irr) or irr[k - 1] is None:
                continue
            pointee = F.ty(b["inputs"][k - 1]).get("t")
            if pointee is None or not F.handle_name(pointee):
                continue
            r_in, r_out = irr[k - 1], b["out_ref_region"]
            ok_ = r_in == r_out or [r_in, r_out] in [list(x) for x in b.get("region_outlives", [])]
            if ok_:
                rep.ok("R-SELFREF", b["key"], cfg=tag)
            else:
                rep.bad("R-SELFREF", b["key"], "safe function `%s` returns its `&%s` argument itself, re-typed, as a reference valid for %s: the result points at the handle value (a local or temporary), which lives only for %s - a caller can keep the returned view after the handle it was taken from is gone" % (b["sig"], r_in, r_out, r_in), F.loc(b), tag)
        # R-VARIANCE: no handle type is contravariant or bivariant in a payload or lifetime parameter (a `PhantomData<fn(T)>`
        # marker lets safe code *lengthen* a payload's lifetime: `ArcUnion<&'a X, B>` coerces to `ArcUnion<&'static X, B>`)
        for h, hp in F.handle_paths.items():
            adt = F.adts.get(hp)
            if not adt or "variances" not in adt:
                continue
            badv = [(g["name"], v) for g, v in zip(adt["generics"], adt["variances"]) if v in ("-", "*")]
            if badv:
                rep.bad("R-VARIANCE", h, "%s is %s in %s: a handle may be covariant or invariant in what it holds, never contravariant/bivariant - safe code could coerce it to a longer payload lifetime and read the borrowed data after it died" % (h, "/".join("contravariant" if v == "-" else "bivariant" for _n, v in badv), ", ".join(n for n, _v in badv)), "%s:%s" % (adt["span"]["file"], adt["span"]["line"]), tag)
            else:
                rep.ok("R-VARIANCE", h, " ".join("%s:%s" % (g["name"], v) for g, v in zip(adt["generics"], adt["variances"])), cfg=tag)
    rep.floor("R-VARIANCE", 6, "handle types")
    rep.floor("R-LIFETIME", 25, "functions whose result carries a lifetime")
    rep.floor("R-AUTO", 12, "12 impls on handle types (the 2 on the private allocation header are not part of any handle's contract)")
    rep.floor("R-PHANTOM", 4, "four owning handles with Drop")


def _owned_params(F, i, depth=0):
    """Type parameters a type *owns* as far as the drop checker is concerned: reached without passing through a raw pointer,
    a reference or a function pointer (`PhantomData<*const T>` or `PhantomData<&T>` tell dropck nothing about dropping a `T`)."""
    t = F.ty(i)
    k = t["k"]
    if depth > 12:
        return set()
    if k == "param":
        return {t["name"]}
    if k in ("slice", "array"):
        return _owned_params(F, t["t"], depth + 1)
    if k == "tuple":
        out = set()
        for x in t["ts"]:
            out |= _owned_params(F, x, depth + 1)
        return out
    if k == "adt":
        if t["path"] in ("core::ptr::non_null::NonNull", "core::mem::manually_drop::ManuallyDrop"):
            return set()
        out = set()
        for a in t.get("args", []):
            if "t" in a:
                out |= _owned_params(F, a["t"], depth + 1)
        return out
    return set()


def rule_witnesses(ctx, rep, prefix="c13_"):
    cfgs = sorted(set(c for c, d in ctx.configs))
    total = 0
    from concurrent.futures import ThreadPoolExecutor

    def one(c):
        try:
            return witness.run_witnesses(c)
        except extract.BuildError as e:
            return e

    with ThreadPoolExecutor(max_workers=4) as ex:
        results = dict(zip(cfgs, ex.map(one, cfgs)))
    for c in cfgs:
        res = results[c]
        if isinstance(res, extract.BuildError):
            rep.bad("BUILD", "witness-rlib/" + c, str(res), None, c)
            continue
        res = [r for r in res if r["name"].startswith(prefix)]
        if not res:
            rep.bad("ANCHOR-LOST", "witnesses/" + c, "no witness files found", None, c)
        for r in res:
            if r["expected"]:
                # one obligation per expected rejection, one for the twin
                exp = set(map(tuple, r["expected"]))
                got = set(map(tuple, r["got"]))
                src_lines = open(witness.os.path.join(witness.WITNESS_DIR, r["name"])).read().split("\n")
                for (line, code) in sorted(exp):
                    total += 1
                    ik = "%s:%d %s" % (r["name"], line, code)
                    if (line, code) in got:
                        rep.ok("W-REJECT", ik, cfg=c)
                    else:
                        near = sorted(g for g in got if g[0] == line)
                        rep.bad("W-REJECT", ik, "rustc accepts (or rejects for another reason: %s) a program the property says must not type-check: `%s`  [%s]" % (near or "no error on this line", src_lines[line - 1].split("//~")[0].strip(), r["what"]), "%s:%d" % (r["name"], line), c)
                for (line, code) in sorted(got - exp):
                    rep.bad("W-REJECT", "%s:%d unexpected %s" % (r["name"], line, code), "unexpected error in the witness: %s" % r["messages"][:2], "%s:%d" % (r["name"], line), c)
                ik = "%s twin" % r["name"]
                total += 1
                if r["twin_ok"]:
                    rep.ok("W-TWIN", ik, cfg=c)
                else:
                    rep.bad("W-TWIN", ik, "the compiling twin of this witness does not compile (%s): the witness would fail for an unrelated reason" % r.get("twin_messages"), r["name"], c)
            else:
                total += 1
                if r["ok"]:
                    rep.ok("W-ACCEPT", r["name"], cfg=c)
                else:
                    rep.bad("W-ACCEPT", r["name"], "rustc rejects a program the property says must type-check: %s  [%s]" % (["%s:%s" % (l, cd) for l, cd in r["got"]][:4] + r["messages"][:2], r["what"]), r["name"], c)
            if len(rep.samples) < 10 and c == "default":
                rep.sample({"witness": r["name"], "what": r["what"], "expected_errors": ["line %d: %s" % (l, cd) for l, cd in r["expected"]][:4] or "compiles"})
    rep.evaluations += total
    return total


def balance_is_api(F, b):
    from .. import balance

    return balance.is_api(F, b)


def run(ctx, rep):
    rule_auto(ctx, rep)
    rule_witnesses(ctx, rep)
    rep.floor("W-REJECT", 128, "expected rejections across the negative witnesses")
    rep.floor("W-TWIN", 20, "compiling twins")
    rep.floor("W-ACCEPT", 1, "generic positive witness")


def main(argv):
    return core.run_property(
        PROP,
        "proof",
        run,
        argv,
        explanation=(
            "rustc is the oracle. (R-AUTO) the impl table of the type-checked crate shows exactly one manual `unsafe impl Send` and one `unsafe impl Sync` "
            "on each of Arc, ThinArc, OffsetArc, ArcBorrow, ArcUnion, on the fully generic type, whose auto-trait predicates are exactly {P: Send, P: Sync} "
            "for every type parameter P - and for UniqueArc exactly {T: Send} resp. {T: Sync}; nothing else but the allocation header carries a manual "
            "impl; every owning handle with a destructor has PhantomData over all payload parameters (drop check). (E-B) witness crates compiled against an "
            "rlib built from the current tree in each configuration: generic positives (for all T: Send+Sync ...), generic negatives (with one bound "
            "missing the obligation must fail with E0277 on the marked line - `exactly when`), concrete witness payloads of each auto-trait class, and "
            "every way of letting a borrow escape (borrow_arc, get, borrow/as_first/as_second, Deref, with_arc-style callbacks by assignment and by return, "
            "aliasing of get_mut/make_mut/get_unique/make_unique/deref_mut, header_mut/slice_mut, drop-check per handle kind). Each negative witness must "
            "produce exactly the marked (line, error code) set and has a compiling twin differing only in the marked lines."
            " R-SELFREF (added later): a returned reference that is the `&self` argument itself re-typed carries that argument's lifetime, not the payload lifetime the handle type names."
            ' Round fifteen/eighteen: the witnesses call `OffsetArc::make_mut` in path form, which resolves for a method and for an associated function alike.'
        ),
        rule_text="obligations = expected rejections (one per marked line) + twins + positive witnesses + impl-table facts; discharged = those rustc confirms",
        trusted_base=["rustc nightly type checker, borrow checker and drop checker", "handles contain a NonNull (never auto-Send/Sync), so the manual impls are the whole condition"],
        assumptions=["safe client code only"],
    )
