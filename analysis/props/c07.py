"""C07 - panicking or lying callbacks cause no double drop and no uninitialised read."""
from .. import balance, cfg, core, fillloop, inline, model, symx
from ..effects import ZERO, vget
from ..facts import operand_local, operand_place

PROP = "C07"

USERISH = ("USER", "UCLONE", "PCALL")


def _callee(t):
    r = t.get("resolved")
    return r["def"] if isinstance(r, dict) else t.get("callee")


def rule_make_after_user(ctx, rep):
    """Constructors fed by user code: the owning handle for the fresh block is minted after the last user call."""
    for tag, F, E in ctx.each():
        A = balance.analysis(tag, F, E)
        for b in F.body_list:
            if b["kind"] not in ("Fn", "AssocFn") or b["key"] in A.errors:
                continue
            # bodies that directly obtain a counted-but-unowned block and directly run user code
            interesting = False
            bad = None
            for p in A.paths[b["key"]]:
                if (p.origin or "") == "debug-assert":
                    continue  # the "user code" on this path is the unwinding of a failed internal-invariant assertion: not a reachable exit
                got_block = None
                made = None
                for i, e in enumerate(p.events):
                    v = e["vec"]
                    if vget(v, "init") > 0 and vget(v, "own") <= 0 and got_block is None:
                        got_block = i
                    if got_block is not None and made is None and e["kind"] == "MAKE" and vget(v, "make_agg") > 0:
                        made = i
                    if made is not None and i > made and (e["kind"] in USERISH or vget(v, "user") > 0) and e["kind"] != "DROP":
                        if bad is None:
                            bad = (p, e)
                if got_block is not None and any(e["kind"] in USERISH or vget(e["vec"], "user") > 0 for e in p.events[got_block:]):
                    interesting = True
            if not interesting:
                continue
            if bad:
                p, e = bad
                rep.bad("R-MAKE-AFTER-USER", b["key"], balance.path_report(F, b, p, "an owning handle to the fresh block exists while user code (line %s) still runs during construction: a panic there would drop a half-built allocation" % e["span"]["line"]), F.loc(b), tag)
            else:
                rep.ok("R-MAKE-AFTER-USER", b["key"], cfg=tag)
    rep.floor("R-MAKE-AFTER-USER", 1, "the iterator constructor")


def rule_recheck(ctx, rep):
    """Iterator constructor: every slot written comes from a yielded item (panicking None arm); the handle is built only
    after the iterator confirmed exhaustion."""
    for tag, F, E in ctx.each():
        A = balance.analysis(tag, F, E)
        cands = [b for b in F.method("Arc", "from_header_and_iter")]
        if not cands:
            rep.bad("ANCHOR-LOST", "R-RECHECK/from_header_and_iter", "Arc::from_header_and_iter is missing", None, tag)
            continue
        for b in cands:
            b = inline.inlined_ctor(F, b["key"])  # private helpers (`write_exact_from_iter`, `check_exhausted`) judged in place
            B = cfg.Body(b)
            key = b["key"]
            # (1) slot writes: ptr::write whose value comes from Option::expect/unwrap of Iterator::next
            writes = []
            nexts = []
            for bi, t in B.calls():
                c = _callee(t)
                if c == "core::ptr::write" or c == "<*mut T>::write" or (c == fillloop.MU_WRITE and fillloop.slot_iter_place(F, B, t) is not None):
                    writes.append((bi, t))
                if t.get("callee") == "core::iter::traits::iterator::Iterator::next" and t.get("resolved") == "unresolved":
                    nexts.append((bi, t))
            slot_writes = 0
            ok = True
            for bi, t in writes:
                val = t["args"][1]
                o = B.origin(val)
                if o.get("kind") == "arg":
                    continue  # the header parameter
                if o.get("kind") == "call":
                    c2 = _callee(o["term"])
                    if fillloop.helper_role(F, c2) == "takes-checked-item":
                        slot_writes += 1  # `ptr::write(cur, next_reported_item(&mut items))`: the helper is `next().expect(..)`
                        continue
                    if c2 in ("<core::option::Option<T>>::expect", "<core::option::Option<T>>::unwrap"):
                        o2 = B.origin(o["term"]["args"][0])
                        if o2.get("kind") == "call" and o2["term"].get("callee") == "core::iter::traits::iterator::Iterator::next":
                            slot_writes += 1
                            continue
                if o.get("kind") == "place":
                    # `Some(item)` / `Some((i, item))` pattern of a `next()` result (loop ends on None; the count check is C06 R-ITERLOOP)
                    from .. import symx as _sx

                    ve = _sx.expr(F, B, val)
                    hits = []
                    _find_next(ve, hits)
                    if hits:
                        slot_writes += 1
                        continue
                ok = False
                rep.bad("R-RECHECK", key + "/slot-write", "a slot is written with a value that does not come from a checked `next()` (panicking None arm): an over-reporting iterator would leave the slot uninitialised or filled with garbage", F.loc(b, t["span"]), tag)
            if slot_writes == 0:
                rep.bad("R-RECHECK", key + "/slot-write", "no per-slot write fed by `next()` found", F.loc(b), tag)
            elif ok:
                rep.ok("R-RECHECK", key + "/slot-write", cfg=tag)
            # (2) trailing exhaustion check guards the MAKE
            # "the handle is built only after ..." = no normal return without it: a constructor may well assemble the handle first
            # and check afterwards, as long as the handle is then dropped by the panic instead of being handed out
            make_bbs = {i for i, x in enumerate(b["blocks"]) if x["term"]["k"] == "return"}
            guard = None
            for bi, bl in enumerate(b["blocks"]):
                tt = bl["term"]
                if tt["k"] != "switch":
                    continue
                c = B.condition(tt["discr"])
                if c and "call" in c and _callee(c["call"]) in ("<core::option::Option<T>>::is_none", "<core::option::Option<T>>::is_some"):
                    o = B.origin(c["call"]["args"][0], through_refs=True)
                    if o.get("kind") == "call" and o["term"].get("callee") == "core::iter::traits::iterator::Iterator::next":
                        want_none = _callee(c["call"]).endswith("is_none")
                        guard = (bi, tt, c, {tgt: ((tv != c["neg"]) == want_none) for tgt, tv in B.switch_truth(tt).items()})
                elif not c:
                    # `match items.next() { None => .., Some(_) => panic!() }`: a switch on the discriminant of next()'s result
                    o3 = B.origin(tt["discr"])
                    if o3.get("kind") == "rvalue" and o3["rv"]["k"] == "discr" and not o3["rv"]["place"]["p"]:
                        o4 = B.origin_local(o3["rv"]["place"]["l"])
                        if o4.get("kind") == "call" and o4["term"].get("callee") == "core::iter::traits::iterator::Iterator::next":
                            nones = {tg for v, tg in tt["arms"] if v == 0}
                            if nones:
                                guard = (bi, tt, None, {tg: (tg in nones) for tg in cfg.successors(tt, with_unwind=False)})
            if guard is None:
                # or a private helper that returns only if one more `next()` gave None (`check_exhausted(&mut items)`)
                hb = [bi for bi, t in B.calls() if fillloop.helper_role(F, _callee(t)) == "asserts-exhausted"]
                dom = B.dominators()
                if hb and make_bbs and all(any(x in dom.get(mb, set()) for x in hb) for mb in make_bbs):
                    rep.ok("R-RECHECK", key + "/exhaustion", "through a helper that returns only on exhaustion", cfg=tag)
                    continue
            if guard is None:
                rep.bad("R-RECHECK", key + "/exhaustion", "no branch on `items.next().is_none()` found: an under-reporting iterator is not detected before the handle is built", F.loc(b), tag)
            else:
                bi, tt, c, none_edge = guard
                good = True
                for tgt, is_none in none_edge.items():
                    reach = B.reach(tgt, normal_only=True)
                    if not is_none and (reach & make_bbs):
                        good = False
                dom = B.dominators()
                for mb in make_bbs:
                    if bi not in dom.get(mb, set()):
                        good = False
                if good and make_bbs:
                    rep.ok("R-RECHECK", key + "/exhaustion", cfg=tag)
                else:
                    rep.bad("R-RECHECK", key + "/exhaustion", "the constructor can return a handle on a path where the iterator was not confirmed exhausted (the check does not dominate every normal return)", F.loc(b, tt["span"]), tag)
    rep.floor("R-RECHECK", 2, "slot-write provenance and trailing exhaustion check")


def _mentions_arg1(n):
    if isinstance(n, tuple):
        if n == ("arg", 1):
            return True
        return any(_mentions_arg1(x) for x in n)
    return False


def rule_guard(ctx, rep):
    """with_arc_mut: the write-back guard is dropped on both exits of the callback and its Drop retargets the ThinArc."""
    for tag, F, E in ctx.each():
        A = balance.analysis(tag, F, E)
        for b in F.method("ThinArc", "with_arc_mut"):
            key = b["key"]
            guard_drop = None
            ok = True
            msg = None
            seen_pcall = False
            for p in A.paths[key]:
                idx = [i for i, e in enumerate(p.events) if e["kind"] == "PCALL"]
                if not idx:
                    continue
                seen_pcall = True
                after = p.events[idx[0] + 1 :]
                drops = [e for e in after if e["kind"] == "DROP" and isinstance(e["detail"], dict) and _guard_type(F, e["detail"].get("adt"))]
                if p.exit in ("ret", "unw") and not drops:
                    # unwinding that does not originate in the callback (e.g. debug assertions) still has to drop the guard
                    ok = False
                    msg = balance.path_report(F, b, p, "the callback's %s exit leaves the function without running the write-back guard: a replaced Arc would be lost and the ThinArc left dangling" % ("unwinding" if p.exit == "unw" else "normal"))
                    break
                if drops:
                    guard_drop = drops[0]["detail"]["adt"]
            if not seen_pcall:
                rep.bad("R-GUARD", key, "with_arc_mut does not call its closure parameter", F.loc(b), tag)
                continue
            if not ok:
                rep.bad("R-GUARD", key, msg, F.loc(b), tag)
            else:
                rep.ok("R-GUARD", key, cfg=tag)
            # the guard's Drop retargets the ThinArc on every returning path
            gk = None
            gk = F.drop_impls.get(guard_drop)
            if gk is None:
                rep.bad("R-GUARD", key + "/guard-drop", "no local Drop impl found for the guard type", F.loc(b), tag)
                continue
            gb = F.body(gk)
            good = True
            n = 0
            for p in A.paths[gk]:
                if p.exit != "ret":
                    continue
                n += 1
                rts = [e for e in p.events if e["kind"] == "RETARGET" and e["detail"].get("handle") == "ThinArc"]
                # or the whole handle is overwritten in place: `ptr::write(self.this, thin)`
                rts += [e for e in p.events if e["kind"] == "HIDE" and "write" in str(e["detail"].get("via")) and "ThinArc" in str(e["detail"].get("ty"))]
                if not rts and _unchanged_edge(F, gb, guard_drop, p):
                    continue  # nothing to write back: the path is behind `transient pointer == ThinArc pointer`
                if not rts:
                    good = False
                    rep.bad("R-GUARD", key + "/guard-drop", balance.path_report(F, gb, p, "the guard's destructor returns without writing the (possibly replaced) pointer back into the ThinArc"), F.loc(gb), tag)
                    break
            if good and n:
                # the written value must come from the transient Arc's pointer field
                B = cfg.Body(gb)
                src_ok = False
                for bl in gb["blocks"]:
                    for s in bl["stmts"]:
                        if s["k"] == "assign" and s["lhs"]["p"] and isinstance(s["lhs"]["p"][-1], dict) and s["lhs"]["p"][-1].get("adt") == F.handle_paths.get("ThinArc"):
                            if s["rv"]["k"] == "use":
                                from .. import ptrclass as _pc

                                nf = _pc.Norm(F).norm(symx.expr(F, B, s["rv"]["op"]), {})
                                while nf[0] == "cast":
                                    nf = nf[2]
                                if nf[0] == "stored" and nf[1][0] == "field" and nf[1][1] == ("arg", 1) and _guard_field_kinds(F, guard_drop).get(nf[1][2]) == "Arc" and "opaque" not in str(nf):
                                    src_ok = True  # (normal form) the pointer stored in the guard's own transient Arc
                            o = B.origin(s["rv"]["op"]) if s["rv"]["k"] == "use" else {"kind": "?"}
                            if o.get("kind") == "call" and _callee(o["term"]) in ("<core::ptr::non_null::NonNull<T>>::cast",):
                                o2 = B.origin(o["term"]["args"][0])
                                a0 = o2.get("place") if o2.get("kind") == "place" else None
                                if a0 is not None and a0["p"] and isinstance(a0["p"][-1], dict) and a0["p"][-1].get("adt") == F.handle_paths.get("Arc"):
                                    src_ok = True
                            elif o.get("kind") == "place":
                                a0 = o["place"]
                                if a0["p"] and isinstance(a0["p"][-1], dict) and a0["p"][-1].get("adt") == F.handle_paths.get("Arc"):
                                    src_ok = True
                if not src_ok:
                    from .. import ptrclass

                    N = ptrclass.Norm(F)
                    for _bi, t3 in B.calls():
                        if _callee(t3) in ("core::ptr::write", "<*mut T>::write") and len(t3["args"]) == 2 and F.handle_name(F.strip_refs(t3["arg_tys"][1]) if t3.get("arg_tys") else -1) == "ThinArc":
                            n = N.norm(symx.expr(F, B, t3["args"][1]), {})
                            d = N.norm(symx.expr(F, B, t3["args"][0]), {})
                            # value: a ThinArc around the pointer stored in the guard's own Arc; destination: reached from the guard
                            if n[0] == "mk" and n[1] == "ThinArc" and n[2][0] == "stored" and _mentions_arg1(n[2]) and "opaque" not in str(n) and _mentions_arg1(d):
                                src_ok = True
                if src_ok:
                    rep.ok("R-GUARD", key + "/guard-drop", cfg=tag)
                else:
                    rep.bad("R-GUARD", key + "/guard-drop", "the pointer written back into the ThinArc is not the transient Arc's pointer", F.loc(gb), tag)
    rep.floor("R-GUARD", 2, "guard dropped on both exits; guard destructor retargets")


def _guard_field_kinds(F, guard_adt):
    """{field name: handle kind held (directly, by reference or inside ManuallyDrop)} of a guard type."""
    a = F.adts.get(guard_adt)
    kinds = {}
    if a and a.get("variants"):
        for f in a["variants"][0]["fields"]:
            hn = F.handle_name(F.strip_refs(f["ty"]))
            if hn is None:
                for x in F.adt_arg_types(f["ty"]):
                    hn = hn or F.handle_name(x)
            kinds[f["name"]] = hn
    return kinds


def _unchanged_edge(F, gb, guard_adt, p):
    """The path takes the true side of a comparison `guard's Arc pointer == guard's ThinArc pointer` (both stored pointers read
    from the guard itself): the callback left the allocation in place and there is nothing to write back."""
    from .. import ptrclass

    a = F.adts.get(guard_adt)
    if not a or not a.get("variants"):
        return False
    kinds = {}
    for f in a["variants"][0]["fields"]:
        hn = F.handle_name(F.strip_refs(f["ty"]))
        if hn is None:
            for x in F.adt_arg_types(f["ty"]):  # ManuallyDrop<Arc<..>>
                hn = hn or F.handle_name(x)
        kinds[f["name"]] = hn
    B = cfg.Body(gb)
    N = ptrclass.Norm(F)
    blocks = list(p.blocks)
    for i, bi in enumerate(blocks[:-1]):
        t = gb["blocks"][bi]["term"]
        if t["k"] != "switch":
            continue
        e = symx.expr(F, B, t["discr"])
        sides = None
        if e[0] == "call" and e[2] == "eq" and len(e[3]) == 2:
            sides = [x[1] if x[0] == "addr" else x for x in e[3]]
        elif e[0] == "bin" and e[1] == "Eq":
            sides = [e[2], e[3]]
        if sides is None:
            continue
        zero = [tg for v, tg in t["arms"] if v == 0]
        if not zero or blocks[i + 1] == zero[0]:
            continue  # the false side
        ns = [N.norm(x, {}) for x in sides]
        got = set()
        for n in ns:
            while n[0] == "cast":
                n = n[2]
            if n[0] == "stored" and n[1][0] == "field" and n[1][1] == ("arg", 1):
                got.add(kinds.get(n[1][2]))
        if got == {"Arc", "ThinArc"}:
            return True
    return False


def _find_next(e, out):
    if not isinstance(e, tuple):
        return
    if e and e[0] == "call" and e[2] == "next":
        out.append(e)
    for x in e:
        if isinstance(x, tuple):
            _find_next(x, out)


def _guard_type(F, adt_path):
    return adt_path in F.drop_impls and F.path_to_handle.get(adt_path) is None


def rule_null(ctx, rep):
    """Raw allocation results are null-checked before use; the failure edge reaches the allocation-error path."""
    for tag, F, E in ctx.each():
        A = balance.analysis(tag, F, E)
        n = 0
        for b in F.body_list:
            B = cfg.Body(b)
            for bi, t in B.calls():
                c = _callee(t)
                if model.classify(c)[0] != model.ALLOC:
                    continue
                n += 1
                ik = "%s/alloc#%d" % (b["key"], n)
                dl = t["dest"]["l"]
                uses = _uses(b, dl)
                good = True
                why = None
                nn_call = None
                # follow plain moves
                todo = [dl]
                seen = set()
                final_uses = []
                while todo:
                    l = todo.pop()
                    if l in seen:
                        continue
                    seen.add(l)
                    for u in _uses(b, l):
                        if u[0] == "move":
                            todo.append(u[1])
                        elif u[0] == "callarg" and _callee(u[1]) in symx.IDENTITY_CALLS and not u[1]["dest"]["p"]:
                            todo.append(u[1]["dest"]["l"])  # `.cast::<X>()` before the null test: same pointer
                        elif u[0] == "other" and u[1] == "cast" and len(u) > 2:
                            todo.append(u[2])
                        else:
                            final_uses.append(u)
                isnull = [u for u in final_uses if u[0] == "callarg" and (_callee(u[1]) or "").endswith(">::is_null")]
                if len(isnull) == 1 and _is_null_form(F, E, A, b, B, seen, isnull[0][1]):
                    rep.ok("R-NULL", ik, "`if p.is_null()`: every other use of the pointer lies behind the not-null edge, the null edge ends in the allocation-error path (or an Err that every caller routes there)", cfg=tag)
                    continue
                if len(final_uses) != 1 or final_uses[0][0] != "callarg" or _callee(final_uses[0][1]) != "<core::ptr::non_null::NonNull<T>>::new":
                    good, why = False, "the pointer returned by the allocator is used by something other than a single `NonNull::new` null test (%s)" % [u[0] + ":" + (_callee(u[1]) if u[0] == "callarg" else "") for u in final_uses]
                else:
                    nn_call = final_uses[0][1]
                    ol = nn_call["dest"]["l"]
                    ouses = []
                    todo = [ol]
                    seen = set()
                    while todo:
                        l = todo.pop()
                        if l in seen:
                            continue
                        seen.add(l)
                        for u in _uses(b, l):
                            if u[0] == "move":
                                todo.append(u[1])
                            else:
                                ouses.append(u)
                    if ouses and all(u[0] == "other" for u in ouses) and _match_none_diverges(F, b, B, seen):
                        rep.ok("R-NULL", ik, "null test consumed by a `match` whose `None` arm ends in the allocation-error path", cfg=tag)
                        continue
                    # `NonNull::new(alloc(..))?` in a function returning Option/Result: the failure travels to the callers
                    if ouses and all(u[0] == "callarg" and model.classify(_callee(u[1]) or "")[0] == model.TRY_BRANCH for u in ouses):
                        if _callers_diverge_on_err(F, E, A, b["key"]):
                            rep.ok("R-NULL", ik, "null test propagated with `?`; every caller routes the failure to the allocation-error path", cfg=tag)
                        else:
                            rep.bad("R-NULL", ik, "an allocation failure is propagated to the callers but one of them does not route it to the allocation-error path", F.loc(b, t["span"]), tag)
                        continue
                    allowed = ("<core::option::Option<T>>::ok_or", "<core::option::Option<T>>::ok_or_else", "<core::option::Option<T>>::unwrap_or_else", "<core::option::Option<T>>::expect", "<core::option::Option<T>>::unwrap")
                    if not ouses or any(u[0] != "callarg" or _callee(u[1]) not in allowed for u in ouses):
                        good, why = False, "the Option produced by the null test is consumed by something other than a checking combinator"
                    else:
                        for u in ouses:
                            cc = _callee(u[1])
                            if cc.endswith("unwrap_or_else"):
                                if not _diverging_callable(F, E, u[1]):
                                    good, why = False, "the fallback of the null test does not end in the allocation-error path"
                            elif cc.endswith("ok_or") or cc.endswith("ok_or_else"):
                                # callers of this body must turn the Err into the allocation-error path
                                if not _callers_diverge_on_err(F, E, A, b["key"]):
                                    good, why = False, "an allocation failure is returned as Err but a caller does not route it to the allocation-error path"
                if good:
                    rep.ok("R-NULL", ik, cfg=tag)
                else:
                    rep.bad("R-NULL", ik, why, F.loc(b, t["span"]), tag)
    rep.floor("R-NULL", 1, "at least one raw allocation site (today two; constructors may share one)")


def _uses(b, l):
    """Uses of local l: ('move', dest_local) | ('callarg', term) | ('other', desc)."""
    out = []
    for bl in b["blocks"]:
        for s in bl["stmts"]:
            if s["k"] != "assign":
                continue
            rv = s["rv"]
            ops = []
            if rv["k"] in ("use", "cast", "unop", "repeat"):
                ops = [rv.get("op") or rv.get("a")]
            elif rv["k"] == "binop":
                ops = [rv["a"], rv["b"]]
            elif rv["k"] == "agg":
                ops = rv["ops"]
            elif rv["k"] in ("ref", "rawptr", "discr"):
                if rv["place"]["l"] == l:
                    out.append(("other", rv["k"]))
            for o in ops:
                pl = operand_place(o) if o else None
                if pl is not None and pl["l"] == l:
                    if rv["k"] == "use" and not pl["p"] and not s["lhs"]["p"]:
                        out.append(("move", s["lhs"]["l"]))
                    elif rv["k"] == "cast" and not pl["p"] and not s["lhs"]["p"] and rv.get("cast", "").startswith("PtrToPtr"):
                        out.append(("other", "cast", s["lhs"]["l"]))
                    else:
                        out.append(("other", rv["k"]))
            if s["lhs"]["l"] == l and s["lhs"]["p"]:
                out.append(("other", "write-through"))
        t = bl["term"]
        if t["k"] == "call":
            for a in t["args"]:
                pl = operand_place(a)
                if pl is not None and pl["l"] == l:
                    out.append(("callarg", t))
        elif t["k"] == "switch":
            pl = operand_place(t["discr"])
            if pl is not None and pl["l"] == l:
                out.append(("other", "switch"))
    return out


def _is_null_form(F, E, A, b, B, aliases, t_null):
    """`let p = alloc(..); if p.is_null() { <error path> } <uses of p>`."""
    from . import c03

    sw = None
    for sj, bl in enumerate(b["blocks"]):
        tt = bl["term"]
        if tt["k"] != "switch":
            continue
        c = B.condition(tt["discr"])
        if c and c.get("call") is t_null:
            sw = (sj, tt, c)
    if sw is None:
        return False
    sj, tt, c = sw
    null_t = [tg for tg, tv in B.switch_truth(tt).items() if tv != c["neg"]]
    ok_t = [tg for tg, tv in B.switch_truth(tt).items() if tv == c["neg"]]
    if len(null_t) != 1 or len(ok_t) != 1:
        return False
    # every other use of the pointer is reachable only through the not-null edge
    nb = next(i for i, bl in enumerate(b["blocks"]) if bl["term"] is t_null)
    for ui, bl in enumerate(b["blocks"]):
        if ui == nb:
            continue
        used = False
        for s in bl["stmts"]:
            if s["k"] == "assign":
                rv = s["rv"]
                for o in [rv.get("op"), rv.get("a"), rv.get("b")] + list(rv.get("ops") or []):
                    pl = operand_place(o) if o else None
                    if pl is not None and pl["l"] in aliases:
                        used = True
                if rv["k"] in ("ref", "rawptr") and rv["place"]["l"] in aliases:
                    used = True
        t2 = bl["term"]
        if t2["k"] == "call":
            for a in t2["args"]:
                pl = operand_place(a)
                if pl is not None and pl["l"] in aliases:
                    used = True
        if used:
            # (uses that merely carry the pointer to the test - moves into an alias before the call - sit before the switch)
            if ui in B.dominators().get(sj, set()) or ui == sj:
                continue
            if c03.reachable_without(B, {(sj, ok_t[0])}, set(), ui):
                return False
    # the null edge: a diverging call, or a return of the failure that every caller routes to the allocation-error path
    reach = B.reach(null_t[0], normal_only=True) - B.reach(ok_t[0], normal_only=True)
    rets = [r for r in reach if b["blocks"][r]["term"]["k"] == "return"]
    div = any(b["blocks"][r]["term"]["k"] == "call" and model.classify(_callee(b["blocks"][r]["term"]) or "")[0] == model.DIVERGE for r in reach)
    if rets or (B.reach(null_t[0], normal_only=True) & B.reach(ok_t[0], normal_only=True) and not div):
        ot = F.ty(b["output"]) if "output" in b else {}
        if ot.get("path") not in ("core::result::Result", "core::option::Option"):
            return False
        return _callers_diverge_on_err(F, E, A, b["key"])
    return div


def _match_none_diverges(F, b, B, opt_locals, fail_value=0):
    """The Option held in one of `opt_locals` is consumed by a `match`: its discriminant is switched on and the `None` arm can only
    end in a diverging call (handle_alloc_error), never in a return."""
    for bi, bl in enumerate(b["blocks"]):
        t = bl["term"]
        if t["k"] != "switch":
            continue
        o = B.origin(t["discr"])
        if not (o.get("kind") == "rvalue" and o["rv"]["k"] == "discr" and o["rv"]["place"]["l"] in opt_locals and not o["rv"]["place"]["p"]):
            continue
        none_tgts = [tg for v, tg in t["arms"] if v == fail_value]
        if not none_tgts and len(t["arms"]) == 1 and t["arms"][0][0] != fail_value:
            none_tgts = [t["otherwise"]]
        if len(none_tgts) != 1:
            return False
        reach = B.reach(none_tgts[0], normal_only=True)
        div = False
        for r in reach:
            tt = b["blocks"][r]["term"]
            if tt["k"] == "return":
                return False
            if tt["k"] == "call" and model.classify(_callee(tt) or "")[0] == model.DIVERGE and tt.get("target") is None:
                div = True
        return div
    return False


def _diverging_callable(F, E, t):
    r = t.get("resolved")
    if not isinstance(r, dict):
        return False
    for a in r["args"]:
        if "t" in a:
            tt = F.ty(a["t"])
            if tt["k"] == "closure":
                effs = E.summary(tt["def"])
                # never returns: it ends in the allocation-error path (a cold helper that first recomputes the layout it reports
                # may, on paper, also unwind out of that computation - it still does not come back with a null pointer)
                return bool(effs) and all(e.exit != "ret" for e in effs) and any(e.exit == "div" for e in effs)
            if tt["k"] == "fndef":
                cls, _ = model.classify(tt["def"])
                if cls == model.DIVERGE:
                    return True
                if tt["def"] in F.bodies:
                    effs = E.summary(tt["def"])
                    return bool(effs) and all(e.exit != "ret" for e in effs) and any(e.exit == "div" for e in effs)
    return False


def _callers_diverge_on_err(F, E, A, key):
    callers = 0
    for b in F.body_list:
        B = cfg.Body(b)
        for bi, t in B.calls():
            if _callee(t) != key:
                continue
            callers += 1
            # the Result must flow into unwrap_or_else with a diverging callable
            dl = t["dest"]["l"]
            ok = False
            for u in _uses(b, dl):
                if u[0] == "callarg" and _callee(u[1]) in ("<core::result::Result<T, E>>::unwrap_or_else", "<core::option::Option<T>>::unwrap_or_else") and _diverging_callable(F, E, u[1]):
                    ok = True
            if not ok:
                # `let Ok(p) = try_allocate(..) else { handle_alloc_error(layout) }` / `match .. { None => handle_alloc_error(..) }`
                rt = F.ty(F.body(key)["output"]) if F.body(key) and "output" in F.body(key) else {}
                fail = 0 if rt.get("path") == "core::option::Option" else 1
                ok = _match_none_diverges(F, b, B, {dl}, fail_value=fail)
            if not ok:
                return False
    return callers > 0


def run(ctx, rep):
    balance.rule_release_retarget(ctx, rep)  # release-then-store through `&mut Handle` must store on unwinding exits too
    balance.rule_parked(ctx, rep)  # a parked caller-supplied value must be handed over before anything can unwind
    balance.rule_payload_dup(ctx, rep)  # user code that unwinds while a value exists both in its block and as a bitwise copy destroys it twice
    balance.rule_payload_gap(ctx, rep)  # ... and a payload destroyed in place leaves a hole until it is written again
    balance.rule_unw(ctx, rep)
    rep.floor("R-UNW", 60, "API bodies with at least one unwinding path")
    rule_make_after_user(ctx, rep)
    from .. import guards

    guards.rules(ctx, rep)  # a partial-initialisation guard is a second destroyer of payload values: never after the owner exists, never ahead of the writes
    rule_recheck(ctx, rep)
    from . import c06

    c06.rule_iterloop(ctx, rep)  # lying iterators: the fill loop stores every item it takes, or panics
    from . import c01 as _c01

    _c01.rule_destroy(ctx, rep)  # a payload destructor is user code too: when it panics on the last release, the block still goes back (only a half-built allocation may leak)
    c06.rule_lenflow(ctx, rep)  # ... and lying containers: one length value (one call of a caller-implemented view) sizes the block and bounds the copy
    from . import c05 as _c05

    _c05.rule_layout(ctx, rep)  # ... into a block that really has room for the reported number of items (or the constructor panicked): the requested layout, evaluated on the shape matrix of each target width
    c06.rule_init(ctx, rep)  # what unwinding may drop: a handle typed as initialised exists only once every slot is written
    from . import c10

    c10.rule_thin_ctor(ctx, rep)  # a len() that changes between calls is caught by the checked thin conversion
    rule_guard(ctx, rep)
    balance.rule_writeback(ctx, rep)
    rep.floor("R-WRITEBACK", 0, "OffsetArc::make_mut today; a copy-on-write that never moves the handle out of its place has nothing to write back")
    rule_null(ctx, rep)
    # fail closed on model gaps
    for tag, F, E in ctx.each():
        for u in sorted(E.unmodelled):
            rep.bad("UNMODELLED-PRIMITIVE", u, "std primitive with ownership/atomic/allocation meaning has no model row: fail closed", None, tag)


def main(argv):
    return core.run_property(
        PROP,
        "other",
        run,
        argv,
        explanation=(
            "Static analysis of every unwind path of every API body (MIR cleanup edges, all configurations of the tier): (R-UNW) on each path "
            "to `resume` the count word and the owner set stay in lock-step apart from the documented leak of a half-built block - no owner is "
            "released twice whatever starts the unwinding, and no live handle is leaked when user code (callback, Clone, iterator, comparison, "
            "hash, format, destructor) or a library assertion starts it; (R-MAKE-AFTER-USER) constructors mint the owning handle only after the "
            "last user call; (R-RECHECK) each slot written by the iterator constructor comes from a checked next() and the handle is built only "
            "after next() returned None; (R-GUARD) with_arc_mut's write-back guard runs on both exits of the callback and retargets the ThinArc; "
            "(R-NULL) allocator results are null-tested and failure reaches handle_alloc_error. Not decided: allocator failure as an event; the "
            "state a panicking callback leaves in its own data."
            ' Added later: R-PAYLOAD-DUP (user code unwinding while a value exists both in its block and as a bitwise copy), R-LAYOUT as a premise (the block really has room for the reported number of items, on every target width analysed; configuration arm32 included).'
            ' R-PAYLOAD-GAP.'
            ' Round fifteen: R-LENFLOW as a premise (one call of a caller-implemented view sizes the block and bounds the copy).'
            ' Round sixteen: R-DESTROY as a premise (a payload destructor is user code).'
        ),
        rule_text="instances = (rule, API body or site); R-UNW instances are API bodies having at least one unwinding path",
        trusted_base=["rustc nightly MIR construction, drop elaboration (cleanup edges) and trait resolution", "std model table analysis/model.py (which std calls may unwind)", "panic while unwinding aborts"],
        assumptions=["user callbacks are ownership-balanced", "std primitives behave as in analysis/model.py"],
    )
