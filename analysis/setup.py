"""setup_cmd: build the driver and warm the per-configuration dependency builds (offline, from disk only)."""
import sys
import time

from . import extract


def main():
    t0 = time.time()
    extract.ensure_driver()
    print("driver ready (%.1fs)" % (time.time() - t0))
    tags = [(c, False) for c in extract.CONFIGS] + [(c, True) for c in extract.CONFIGS]
    try:
        res = extract.extract_many(tags)
    except extract.BuildError as e:
        # the repository may be mid-edit; checks rebuild on demand and report BUILD themselves
        print("warning: warm-up extraction failed:\n%s" % e)
        return 0
    print("fact bases: %d (%.1fs)" % (len(res), time.time() - t0))
    try:
        from . import witness

        witness.warm()
    except ImportError:
        pass
    return 0


if __name__ == "__main__":
    sys.exit(main())
