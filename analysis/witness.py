"""E-B: compile-pass / compile-fail witnesses against an rlib built from $VERIF_REPO's current tree.

A witness is a small client crate. Expected errors are marked on the offending line:

    is_send::<Arc<T>>(); //~ E0277 | let _ = ();

The run requires exactly the marked (line, code) pairs as rustc errors. Each negative witness has a
compiling twin obtained by replacing every marked line with the text after `|` (or dropping it),
so a witness that fails for an unrelated reason (wrong path, renamed method) cannot pass.
rustc is the oracle; nothing is executed.
"""
import json
import os
import re
import shutil
import subprocess
import tempfile
from concurrent.futures import ThreadPoolExecutor

from . import extract

WITNESS_DIR = os.path.join(extract.VERIF, "witnesses")
MARK = re.compile(r"//~\s*(E\d{4}|LIFETIME)(?:\s*\|\s*(.*))?$")


class WitnessError(Exception):
    pass


def build_rlib(config):
    """Build libtriomphe.rlib for a feature configuration; returns (rlib path, deps dir)."""
    tdir = os.path.join(extract.CACHE, "wtarget", config)
    with extract.Lock("rlib-" + config):
        # The target directory is shared by every analysed tree (scratch copies included). Cargo keeps one uplifted
        # `libtriomphe.rlib` per directory and does not refresh it for a unit it considers fresh, so remove it (and the
        # package's fingerprints) first: the rlib we link against is then always rebuilt from *this* tree.
        dbg = os.path.join(tdir, "debug")
        for f in ("libtriomphe.rlib", "libtriomphe.d", "libtriomphe.rmeta"):
            try:
                os.remove(os.path.join(dbg, f))
            except OSError:
                pass
        fp = os.path.join(dbg, ".fingerprint")
        if os.path.isdir(fp):
            for d in os.listdir(fp):
                if d.startswith("triomphe-"):
                    shutil.rmtree(os.path.join(fp, d), ignore_errors=True)
        cmd = ["cargo", "+nightly", "build", "--offline", "--lib", "--manifest-path", os.path.join(extract.repo(), "Cargo.toml")] + extract.CONFIGS[config]
        r = extract._run(cmd, env={"CARGO_TARGET_DIR": tdir, "RUSTFLAGS": "-Awarnings"})
        if r.returncode != 0:
            raise extract.BuildError("building the witness rlib failed for %s:\n%s" % (config, r.stdout[-3000:]))
        rlib = os.path.join(tdir, "debug", "libtriomphe.rlib")
        if not os.path.exists(rlib):
            raise extract.BuildError("no libtriomphe.rlib produced for %s" % config)
        # private copy so that a concurrent rebuild for another tree cannot swap it under us
        priv = tempfile.mkdtemp(prefix="w-", dir=os.path.join(extract.CACHE, "wtarget"))
        shutil.copy2(rlib, os.path.join(priv, "libtriomphe.rlib"))
        deps = os.path.join(priv, "deps")
        os.makedirs(deps)
        for f in os.listdir(os.path.join(tdir, "debug", "deps")):
            if f.endswith(".rlib") or f.endswith(".rmeta") or f.endswith(".so"):
                if not f.startswith("libtriomphe"):
                    shutil.copy2(os.path.join(tdir, "debug", "deps", f), os.path.join(deps, f))
    return os.path.join(priv, "libtriomphe.rlib"), deps, priv


def parse(path):
    src = open(path).read()
    meta = {"configs": None, "features": None}
    for m in re.finditer(r"^//@\s*(\w+):\s*(.*)$", src, re.M):
        meta[m.group(1)] = m.group(2).strip()
    expected = []
    twin_lines = []
    for i, line in enumerate(src.split("\n"), 1):
        m = MARK.search(line)
        if m:
            expected.append((i, m.group(1)))
            repl = m.group(2)
            indent = re.match(r"\s*", line).group(0)
            twin_lines.append(indent + (repl if repl else "") + " // (twin)")
        else:
            twin_lines.append(line)
    return src, meta, expected, "\n".join(twin_lines)


def compile_one(src_text, name, rlib, deps, workdir, extra_flags=()):
    p = os.path.join(workdir, name + ".rs")
    with open(p, "w") as f:
        f.write(src_text)
    cmd = ["rustc", "+nightly", "--edition", "2021", "--crate-type", "lib", "--crate-name", re.sub(r"\W", "_", name), "--emit=metadata", "-o", os.path.join(workdir, name + ".rmeta"),
           "--error-format=json", "-Awarnings", "--extern", "triomphe=" + rlib, "-L", "dependency=" + deps] + list(extra_flags) + [p]
    r = subprocess.run(cmd, stdout=subprocess.PIPE, stderr=subprocess.PIPE, text=True)
    errs = []
    for line in r.stderr.splitlines():
        if not line.startswith("{"):
            continue
        try:
            d = json.loads(line)
        except ValueError:
            continue
        if d.get("level") != "error" or not d.get("spans"):
            if d.get("level") == "error" and d.get("code") is None and "aborting" in d.get("message", ""):
                continue
            if d.get("level") == "error" and not d.get("spans"):
                errs.append((0, (d.get("code") or {}).get("code"), d.get("message", "")[:200]))
            continue
        prim = [s for s in d["spans"] if s.get("is_primary")] or d["spans"]
        code = (d.get("code") or {}).get("code")
        if code is None and d.get("message", "").startswith("lifetime may not live long enough"):
            code = "LIFETIME"  # region errors from NLL carry no error code
        errs.append((prim[0]["line_start"], code, d.get("message", "")[:200]))
    return r.returncode, errs


def run_witnesses(config, files=None, features_present=None):
    """Returns list of result dicts for every witness applicable to `config`."""
    rlib, deps, priv = build_rlib(config)
    work = tempfile.mkdtemp(prefix="wk-", dir=os.path.join(extract.CACHE, "wtarget"))
    try:
        names = sorted(f for f in os.listdir(WITNESS_DIR) if f.endswith(".rs"))
        jobs = []
        for n in names:
            if files and n not in files:
                continue
            src, meta, expected, twin = parse(os.path.join(WITNESS_DIR, n))
            if meta.get("configs") and config not in [c.strip() for c in meta["configs"].split(",")]:
                continue
            jobs.append((n, src, meta, expected, twin))

        def do(job):
            n, src, meta, expected, twin = job
            base = n[:-3]
            flags = []
            if meta.get("rustc_flags"):
                flags = meta["rustc_flags"].split()
            rc, errs = compile_one(src, base, rlib, deps, work, flags)
            got = sorted(set((l, c) for l, c, _m in errs))
            res = {"name": n, "kind": meta.get("kind", "fail" if expected else "pass"), "expected": expected, "got": got, "messages": [m for _l, _c, m in errs][:4], "ok": False, "twin_ok": None, "property": meta.get("property"), "what": meta.get("what", "")}
            if not expected:
                res["ok"] = rc == 0 and not errs
            else:
                res["ok"] = got == sorted(set(expected))
                rc2, errs2 = compile_one(twin, base + "__twin", rlib, deps, work, flags)
                res["twin_ok"] = rc2 == 0 and not errs2
                if not res["twin_ok"]:
                    res["twin_messages"] = ["%s:%s %s" % (l, c, m) for l, c, m in errs2][:4]
            return res

        with ThreadPoolExecutor(max_workers=16) as ex:
            out = list(ex.map(do, jobs))
        return out
    finally:
        shutil.rmtree(work, ignore_errors=True)
        shutil.rmtree(priv, ignore_errors=True)


def warm():
    for c in ("default", "all", "nodefault", "minext"):
        try:
            rlib, deps, priv = build_rlib(c)
            shutil.rmtree(priv, ignore_errors=True)
        except extract.BuildError as e:
            print("warning: %s" % e)
