"""Helpers for the count word: orderings, receivers, gates."""
from . import cfg, model
from .facts import operand_const, operand_local, operand_place

ACQUIRE_OK = ("Acquire", "AcqRel", "SeqCst")
RELEASE_OK = ("Release", "AcqRel", "SeqCst")


def callee_of(t):
    r = t.get("resolved")
    return r["def"] if isinstance(r, dict) else t.get("callee")


def ordering_of(B, op):
    """Variant name of a core::sync::atomic::Ordering operand, or None."""
    c = operand_const(op)
    if c is not None:
        return c.get("variant")
    o = B.origin(op)
    if o.get("kind") == "const":
        return o["const"].get("variant")
    if o.get("kind") == "rvalue" and o["rv"]["k"] == "agg" and o["rv"].get("adt") == "core::sync::atomic::Ordering":
        return o["rv"]["variant"]
    if o.get("kind") == "arg":
        return ("param", o["arg"])  # chosen by the caller (`fn references(&self, order: Ordering)`): resolved at each call site
    return None


def resolve_ordering(ordr, B, t):
    """An ordering that is a parameter of the callee, as passed by call term t in body B."""
    if isinstance(ordr, tuple) and ordr and ordr[0] == "param":
        k = ordr[1] - 1
        return ordering_of(B, t["args"][k]) if 0 <= k < len(t["args"]) else None
    return ordr


def is_count_place(F, pl):
    """Does the place end in the COUNT field of INNER?"""
    if not pl["p"]:
        return False
    last = pl["p"][-1]
    return isinstance(last, dict) and last.get("adt") == F.inner_path and F.count_field is not None and last.get("f") == F.count_field[0]


def receiver_is_count(F, B, t):
    """The atomic call's receiver is `&(*inner).count`, directly or through a local accessor that returns that reference."""
    if not t["args"]:
        return False
    return _is_count_ref(F, B, B.origin(t["args"][0]), 0)


def _is_count_ref(F, B, o, depth):
    if depth > 4:
        return False
    if o.get("kind") == "rvalue" and o["rv"]["k"] in ("ref", "rawptr"):
        return is_count_place(F, o["rv"]["place"])
    if o.get("kind") == "call":
        key = callee_of(o["term"])
        return returns_count_ref(F, key, depth + 1)
    if o.get("kind") == "arg":
        # a private helper that is handed the atomic itself (`fn release(count: &AtomicUsize) -> bool`): the receiver is the count
        # word iff every caller passes a reference to it
        return _arg_is_count_ref(F, B.b, o["arg"], depth + 1)
    return False


def _arg_is_count_ref(F, b, k, depth):
    if b.get("reachable") or b["kind"] not in ("Fn", "AssocFn"):
        return False
    cache = F.__dict__.setdefault("_count_arg_cache", {})
    ck = (b["key"], k)
    if ck in cache:
        return cache[ck]
    cache[ck] = False
    sites = 0
    ok = True
    for c in F.body_list:
        CB = None
        for bl in c["blocks"]:
            t = bl["term"]
            if t["k"] == "call" and callee_of(t) == b["key"] and len(t["args"]) >= k:
                if CB is None:
                    CB = cfg.Body(c)
                sites += 1
                if not _is_count_ref(F, CB, CB.origin(t["args"][k - 1]), depth + 1):
                    ok = False
    cache[ck] = bool(sites) and ok
    return cache[ck]


def returns_count_ref(F, key, depth=0):
    """Local function all of whose returns are a reference to the COUNT field (a private `fn refcount(&self) -> &AtomicUsize`)."""
    cache = F.__dict__.setdefault("_count_accessors", {})
    if key in cache:
        return cache[key]
    cache[key] = False
    b = F.body(key)
    if b is not None and b["kind"] in ("Fn", "AssocFn"):
        ot = F.ty(b["output"])
        if ot["k"] in ("ref", "ptr") and F.ty(ot["t"])["k"] == "adt" and F.ty(ot["t"])["path"].startswith("core::sync::atomic::Atomic"):
            B2 = cfg.Body(b)
            ds = B2.defs().get(0, [])
            ok = bool(ds)
            for d in ds:
                if d[0] == "call":
                    ok = ok and returns_count_ref(F, callee_of(d[2]), depth + 1)
                else:
                    rv = d[3]
                    if rv["k"] in ("ref", "rawptr") and rv["place"]["p"] == ["deref"]:
                        ok = ok and _is_count_ref(F, B2, B2.origin_local(rv["place"]["l"]), depth + 1)  # reborrow
                    elif rv["k"] in ("ref", "rawptr"):
                        ok = ok and is_count_place(F, rv["place"])
                    elif rv["k"] == "use":
                        ok = ok and _is_count_ref(F, B2, B2.origin(rv["op"]), depth + 1)
                    else:
                        ok = False
            cache[key] = ok
    return cache[key]


def atomic_class(t):
    return model.classify(callee_of(t) or "")[0]


def sites(F):
    """[(body, B, bb, term, class, ordering)] for every atomic/fence call."""
    out = []
    for b in F.body_list:
        B = None
        for bi, bl in enumerate(b["blocks"]):
            t = bl["term"]
            if t["k"] != "call":
                continue
            cls = atomic_class(t)
            if cls not in (model.ATOMIC_NEW, model.ATOMIC_RMW_ADD, model.ATOMIC_RMW_SUB, model.ATOMIC_LOAD, model.ATOMIC_OTHER, model.ATOMIC_CAS, model.FENCE):
                continue
            if B is None:
                B = cfg.Body(b)
            ordr = None
            if cls in (model.ATOMIC_RMW_ADD, model.ATOMIC_RMW_SUB) and len(t["args"]) >= 3:
                ordr = ordering_of(B, t["args"][2])
            elif cls == model.ATOMIC_LOAD and len(t["args"]) >= 2:
                ordr = ordering_of(B, t["args"][1])
            elif cls == model.FENCE and t["args"]:
                ordr = ordering_of(B, t["args"][0])
            out.append((b, B, bi, t, cls, ordr))
    return out


def cas_test(t):
    """k of `compare_exchange(k, k, ..)`: a read-modify-write that changes nothing and answers Ok exactly when the word holds k
    (the strong form; the weak form may also answer Err while the word holds k). None otherwise."""
    if len(t["args"]) < 3:
        return None
    c1, c2 = operand_const(t["args"][1]), operand_const(t["args"][2])
    cur = c1.get("int") if c1 else None
    new = c2.get("int") if c2 else None
    return cur if cur is not None and cur == new else None


def cas_is_weak(t):
    return (callee_of(t) or "").endswith("compare_exchange_weak")


def cas_increment(t):
    """(current, new) of `compare_exchange(current, new, ..)` with constant operands and new > current, else None."""
    if len(t["args"]) < 3:
        return None
    c1, c2 = operand_const(t["args"][1]), operand_const(t["args"][2])
    cur = c1.get("int") if c1 else None
    new = c2.get("int") if c2 else None
    if cur is None or new is None or new <= cur:
        return None
    return (cur, new)


def compare_with_const(B, switch_term):
    """Decode `switch(cmp(x, const))`: returns dict(op, src_local, k, truth={target: cmp_is_true}) or None."""
    c = B.condition(switch_term["discr"])
    if not c or "op" not in c:
        return None
    la, lb = operand_local(c["a"]), operand_local(c["b"])
    va, vb = B.const_value(c["a"]), B.const_value(c["b"])
    op = c["op"]
    if la is not None and va is None and vb is not None:
        src, k = la, vb
    elif lb is not None and vb is None and va is not None:
        src, k = lb, va
        op = {"Lt": "Gt", "Le": "Ge", "Gt": "Lt", "Ge": "Le"}.get(op, op)
    else:
        return None
    truth = {}
    for tgt, tv in B.switch_truth(switch_term).items():
        truth[tgt] = tv != c["neg"]
    return {"op": op, "src": src, "k": k, "truth": truth, "const_op": c["b"] if src == la and vb is not None and not (lb is not None and vb is None) else c["a"]}
