"""Shared balance rules: R-BAL, R-UNW, R-CBZERO, R-DESTROY, R-FUNNEL, fail-closed notes."""
from . import cfg
from .effects import VK, ZERO, TooManyPaths, dcount, imbalance, vget
from .facts import OWNING_HANDLES, operand_const, operand_local, operand_place

DROP_TRAIT = "core::ops::drop::Drop"


def is_api(F, b):
    """Functions reachable from outside the crate (public items and trait impls on public types)."""
    return b["kind"] in ("Fn", "AssocFn") and b.get("reachable")


def sig_class(F, b):
    """Signature-derived expectation for I = delta(count) - delta(owners) on normal paths."""
    tin = sum(F.tokens(t)[0] for t in b.get("inputs", []))
    tout = F.tokens(b["output"])[0] if "output" in b else 0
    out_ptr = "output" in b and F.ty(b["output"])["k"] == "ptr"
    in_ptr = any(F.ty(t)["k"] == "ptr" for t in b.get("inputs", []))
    imp = b.get("impl") or {}
    if imp.get("trait") == DROP_TRAIT and b.get("name") == "drop":
        hn = F.handle_name(imp["self_ty"])
        return ("DROP-IMPL", -1 if hn in OWNING_HANDLES else 0)
    if (imp.get("trait") or "").endswith("ref_cnt::RefCnt"):
        # arc-swap's contract for the optional overrides: `inc(&Self) -> *mut Base` hands out one more owning raw pointer,
        # `dec(*const Base)` gives one back
        if b.get("name") == "inc":
            return ("RAW-CLONE", +1)
        if b.get("name") == "dec":
            return ("RAW-IN", -1)
    if out_ptr and tin == 1 and tout == 0:
        return ("RAW-OUT", +1)
    if b.get("unsafe") and in_ptr and tout - tin == 1:
        return ("RAW-IN", -1)
    if b.get("unsafe") and in_ptr and tin == 0 and tout == 0 and not out_ptr and F.ts(b["output"] if "output" in b else -1) in ("()", "!"):
        # `unsafe fn increment_strong_count(ptr: *const T)` / `decrement_strong_count`: raw-pointer counterparts of clone and drop.
        # What they do to the count is their contract with the unsafe caller (who owns the handles the pointer stands for): one
        # unit up or down, the same on every path (see rule_bal)
        return ("RAW-COUNT", None)
    return ("PLAIN", 0)


def vec_str(v):
    return "{" + ", ".join("%s:%+d" % (k, x) for k, x in zip(VK, v) if x) + "}"


def events_str(F, pr, limit=40):
    out = []
    for e in pr.events:
        if e["kind"] in ("STD", "BRANCH", "LOAD") and e["vec"] == ZERO:
            continue
        d = e["detail"]
        if isinstance(d, dict):
            what = d.get("callee") or d.get("ty") or d.get("via") or d.get("param") or ""
            oc = d.get("outcome")
            if oc:
                what = "%s ->%s" % (what, oc)
        else:
            what = str(d)
        out.append("bb%d %s:%s %s %s %s" % (e["bb"], e["span"]["file"].split("/")[-1], e["span"]["line"], e["kind"], what, vec_str(e["vec"]) if e["vec"] != ZERO else ""))
    if len(out) > limit:
        out = out[: limit // 2] + ["..."] + out[-limit // 2 :]
    return out


def path_report(F, b, pr, msg):
    lines = [msg, "function: %s  (%s)" % (b["key"], F.loc(b)), "exit: %s%s  totals: %s  I=%+d" % (pr.exit, " origin=" + pr.origin if pr.origin else "", vec_str(pr.vec), imbalance(pr.vec)), "path: " + "->".join("bb%d" % x for x in pr.blocks), "events:"]
    lines += ["  " + l for l in events_str(F, pr)]
    return "\n".join(lines)


class Analysis:
    """Per-configuration path sets of every API body (computed once, shared by the rules)."""

    def __init__(self, F, E):
        self.F = F
        self.E = E
        self.paths = {}
        self.errors = {}
        for b in F.body_list:
            if b["kind"] not in ("Fn", "AssocFn", "Closure"):
                continue
            try:
                self.paths[b["key"]] = E.toplevel(b["key"])
            except TooManyPaths:
                self.errors[b["key"]] = "path explosion"


_analysis_cache = {}


def analysis(tag, F, E):
    k = (tag, id(F))
    if k not in _analysis_cache:
        _analysis_cache[k] = Analysis(F, E)
    return _analysis_cache[k]


def issues(notes):
    return sorted(n for n in notes)


# ---------------------------------------------------------------------------------------------
def scope_closure(F, roots):
    """Keys of the given root bodies and of everything they may call (local call graph, closures included)."""
    g = cfg.call_graph(F)
    return set(cfg.reachable_from(g, [b["key"] for b in roots])) | set(b["key"] for b in roots)


def rule_bal(ctx, rep, rule="R-BAL", scope=None):
    """Every normal path of every API body has I == the signature-derived expectation.
    scope(F) -> set of body keys: restrict the premise to the operations a property is about (and what they are built from)."""
    npaths = 0
    for tag, F, E in ctx.each():
        A = analysis(tag, F, E)
        only = scope(F) if scope else None
        for b in F.body_list:
            if not is_api(F, b) or (only is not None and b["key"] not in only):
                continue
            key = b["key"]
            if key in A.errors:
                rep.bad("UNSUPPORTED-SHAPE", key, "path enumeration gave up (%s): fail closed" % A.errors[key], F.loc(b), tag)
                continue
            cls, exp = sig_class(F, b)
            prs = [p for p in A.paths[key] if p.exit == "ret"]
            npaths += len(prs)
            if exp is None:
                ks = set(imbalance(p.vec) for p in prs)
                exp = ks.pop() if len(ks) == 1 and abs(next(iter(ks))) <= 1 else 0
            bad = None
            for p in prs:
                if p.notes:
                    rep.bad("UNSUPPORTED-SHAPE", key, path_report(F, b, p, "construct outside the analysis' model on a normal path (fail closed): " + "; ".join(issues(p.notes))), F.loc(b), tag)
                i = imbalance(p.vec)
                if i != exp and bad is None:
                    bad = p
            if bad is not None:
                i = imbalance(bad.vec)
                what = "count word moves by %+d but owning handle values by %+d" % (dcount(bad.vec), vget(bad.vec, "own"))
                if i < exp:
                    what += " (an owner is created without a count, or a count is released without retiring an owner: use-after-free / double free)"
                else:
                    what += " (a count is taken or kept without an owner: leak, count no longer equals the number of handles)"
                rep.bad(rule, key, path_report(F, b, bad, "%s [signature class %s expects I=%+d, found %+d]" % (what, cls, exp, i)), F.loc(b), tag)
            else:
                nontriv = any(p.vec != ZERO for p in prs)
                rep.ok(rule, key, cfg=tag, nontrivial=nontriv)
                if nontriv and len(prs) and tag == "default":
                    p = max(prs, key=lambda p: sum(abs(x) for x in p.vec))
                    rep.sample({"rule": rule, "function": key, "class": cls, "expected_I": exp, "path_events": events_str(F, p, 14), "totals": vec_str(p.vec)}) if len(rep.samples) < 4 else None
    rep.evaluations += npaths
    return npaths


def rule_unw(ctx, rep, rule="R-UNW", da=False, scope=None):
    """Unwind paths: no double release; no leak of a live handle when user code or a library panic starts the unwinding."""
    npaths = 0
    tolerated = {}
    half = {}
    for tag, F, E in ctx.each():
        A = analysis(tag, F, E)
        is_da = tag.endswith("+da")
        only = scope(F) if scope else None
        for b in F.body_list:
            if not is_api(F, b) or b["key"] in A.errors or (only is not None and b["key"] not in only):
                continue
            key = b["key"]
            cls, exp = sig_class(F, b)
            base = exp if cls == "DROP-IMPL" else 0
            if cls == "RAW-IN" and ("output" not in b or F.tokens(b["output"])[0] == 0):
                base = exp  # a raw release (`RefCnt::dec(ptr)`): the unit it gives back is given back on the unwinding exit too (a panicking payload destructor)
            raw_k = None
            if cls == "RAW-COUNT":
                ks = set(imbalance(p.vec) for p in A.paths[key] if p.exit == "ret")
                raw_k = next(iter(ks)) if len(ks) == 1 else None
            prs = [p for p in A.paths[key] if p.exit == "unw" and not declined_sole_owner(F, E, b, p) and not (raw_k is not None and imbalance(p.vec) == raw_k)]
            if not prs:
                continue
            npaths += len(prs)
            bad = None
            badmsg = None
            for p in prs:
                if p.notes:
                    rep.bad("UNSUPPORTED-SHAPE", key, path_report(F, b, p, "construct outside the analysis' model on an unwind path (fail closed): " + "; ".join(issues(p.notes))), F.loc(b), tag)
                i = imbalance(p.vec) - base
                open_init = max(vget(p.vec, "init") - vget(p.vec, "make_agg"), 0)
                ihalf = min(max(i, 0), open_init)
                irest = i - ihalf
                if ihalf:
                    half.setdefault(key, set()).add(tag)
                if irest < 0:
                    if (p.origin or "std") == "debug-assert":
                        # the unwinding starts at a `debug_assert!` of an internal invariant (established by other rules, e.g. the
                        # typed length of a thin handle): not a reachable exit - unless it is a claim about a re-read count (R-RACY-ASSERT)
                        tolerated.setdefault(key, set()).add("debug-assert")
                    elif bad is None:
                        bad, badmsg = p, "an owner is released twice on this unwind path (count word %+d, owners %+d): double drop / use-after-free after a panic" % (dcount(p.vec), vget(p.vec, "own"))
                elif irest > 0:
                    origin = p.origin or "std"
                    if origin in ("user", "panic"):
                        if bad is None:
                            bad, badmsg = p, "a live handle is leaked when %s unwinds (count word %+d, owners %+d): the count no longer equals the number of handles" % ("user code" if origin == "user" else "a library panic", dcount(p.vec), vget(p.vec, "own"))
                    else:
                        tolerated.setdefault(key, set()).add(origin)
            if bad is not None:
                rep.bad(rule, key, path_report(F, b, bad, badmsg), F.loc(b), tag)
            else:
                rep.ok(rule, key, cfg=tag, nontrivial=True)
                if tag == "default" and len(rep.samples) < 3:
                    cand = [p for p in prs if p.origin == "user" and any(x for x in p.vec)]
                    if cand:
                        p = max(cand, key=lambda p: len(p.events))
                        rep.sample({"rule": rule, "function": key, "unwinding_origin": p.origin, "path_events": events_str(F, p, 12), "totals": vec_str(p.vec), "I": imbalance(p.vec)})
    for k, tags in half.items():
        rep.notes.append("half-built allocation may leak on unwind (documented, tolerated): %s" % k)
    for k, origins in tolerated.items():
        rep.notes.append("leak only on an internal-invariant panic (%s), not triggerable by user code, tolerated: %s" % ("/".join(sorted(origins)), k))
    rep.evaluations += npaths
    rule_racy_assert(ctx, rep, scope=scope)  # ... unless the "invariant" is a claim about a fresh reading of the count word that a racing thread can falsify
    return npaths


def declined_sole_owner(F, E, b, p):
    """The path continues after a checked conversion *declined* (`Err` / `None` of a function that reports the uniqueness verdict
    through its variant) a handle that the function received as a by-value `UniqueArc`: by that type's invariant (C03) the count
    is 1 and the test cannot decline - the arm is unreachable, which is what code like `Err(_) => unreachable!()` states."""
    uniq = [i + 1 for i, t in enumerate(b.get("inputs", [])) if F.handle_name(t) == "UniqueArc"]
    if not uniq:
        return False
    from .props import c03

    G = F.__dict__.get("_gates_cache")
    if G is None:
        G = F.__dict__["_gates_cache"] = c03.Gates(F)
    dg = c03.derived_gates(F, G, E)
    B = None
    for e in p.events:
        d = e["detail"] if isinstance(e["detail"], dict) else {}
        if e["kind"] == "CALL" and d.get("callee") in dg and d.get("tag") in ("Err", "None"):
            try:
                t = b["blocks"][e["bb"]]["term"]
            except (IndexError, KeyError, TypeError):
                continue
            if t["k"] != "call" or not t["args"]:
                continue
            pl = operand_place(t["args"][0])
            if pl is None:
                continue
            B = B or cfg.Body(b)
            if set(uniq) & c03.root_args(B, pl["l"]):
                return True
    return False


def _from_debug_assert(p):
    for e in p.events:
        d = e["detail"]
        if isinstance(d, dict) and d.get("outcome") == "unw":
            return any("debug_assert" in m for m in e["span"].get("macros", []))
        if e["kind"] == "ASSERT-FAIL":
            return any("debug_assert" in m for m in e["span"].get("macros", []))
    return False


def rule_cbzero(ctx, rep, rule="R-CBZERO"):
    """At every call of a caller-supplied closure the running count delta and owner delta are zero."""
    n = 0
    for tag, F, E in ctx.each():
        A = analysis(tag, F, E)
        for b in F.body_list:
            if b["kind"] not in ("Fn", "AssocFn") or b["key"] in A.errors:
                continue
            key = b["key"]
            sites = {}
            consuming = any(F.tokens(t)[0] > 0 for t in b.get("inputs", []))
            for p in A.paths[key]:
                for e in p.events:
                    if e["kind"] == "CALL" and isinstance(e["detail"], dict) and e["detail"].get("outcome") in (None, "unw"):
                        # the closure may be invoked inside a private helper it is handed to (`with_transient(owner, f)`):
                        # state at that moment = state before the call + the helper's own state when it calls the closure
                        ck = e["detail"].get("callee")
                        cb = F.body(ck) if ck else None
                        if cb is None or is_api(F, cb) or cb["kind"] == "Closure":
                            continue
                        t = b["blocks"][e["bb"]]["term"]
                        r = t.get("resolved")
                        gargs = r["args"] if isinstance(r, dict) else (t.get("callee_args") or [])
                        own_callables = set(F.ty(q["self"])["name"] for q in b.get("preds", []) if q.get("kind") == "trait" and q.get("trait", "").startswith("core::ops::function::Fn") and F.ty(q["self"])["k"] == "param")
                        if not any("t" in a and F.ty(F.strip_refs(a["t"]))["k"] == "param" and F.ty(F.strip_refs(a["t"]))["name"] in own_callables for a in gargs):
                            continue
                        try:
                            cps = E.local_paths(ck, gargs)
                        except Exception:
                            continue
                        before = e["run"]
                        for x, y in zip(range(len(VK)), e["vec"]):
                            pass
                        base_c = dcount(e["run"]) - dcount(e["vec"])
                        base_o = vget(e["run"], "own") - vget(e["vec"], "own")
                        for q in cps:
                            for e2 in q.events:
                                if e2["kind"] != "PCALL":
                                    continue
                                st = sites.setdefault(e["bb"], {"ok": True, "p": None, "e": e})
                                if (base_c + dcount(e2["run"]) != 0 or base_o + vget(e2["run"], "own") != 0) and st["ok"]:
                                    st["ok"] = False
                                    st["p"] = p
                        continue
                    if e["kind"] != "PCALL":
                        continue
                    run = e["run"]
                    st = sites.setdefault(e["bb"], {"ok": True, "p": None, "e": e})
                    if consuming and imbalance(run) == 0:
                        continue  # a function that takes its handle by value may have turned it into something else by now (`map`): what counts is that the count equals the owners while the callback runs
                    if (dcount(run) != 0 or vget(run, "own") != 0) and st["ok"]:
                        st["ok"] = False
                        st["p"] = p
            if not sites:
                continue
            if not is_api(F, b):
                continue
            for bb, st in sites.items():
                n += 1
                ik = "%s/callback-site#%d" % (key, sorted(sites).index(bb))
                if st["ok"]:
                    rep.ok(rule, ik, cfg=tag)
                else:
                    e = st["e"]
                    rep.bad(rule, ik, path_report(F, b, st["p"], "the callback is invoked in a state where the count word and the number of live owning handles differ from the entry state (a transient handle that is not parked, or a count taken for the duration of the borrow): a borrow must not change the count, not even while it is in use, and an unwinding callback must not release anything"), "%s:%s" % (e["span"]["file"], e["span"]["line"]), tag)
    return n


def _releases_param_on_unwind(F, A, key, seen):
    """Does `key` have an unwinding path (started by user code or a panic a caller can provoke) on which the handle behind one of its
    `&mut Handle` parameters is released - directly, or by a callee judged the same way - and no pointer is stored afterwards?"""
    from .props import c03 as _c03

    if key in seen:
        return True
    seen = seen | {key}
    b = F.body(key)
    if b is None or key in A.errors:
        return True
    mparams = {i + 1 for i, t in enumerate(b.get("inputs", [])) if F.ty(t)["k"] == "ref" and F.ty(t)["mut"] and F.tokens(F.ty(t)["t"])[0] > 0}
    if not mparams:
        return True  # takes the handle some other way: not judged here
    Bb = cfg.Body(b)
    for p in A.paths.get(key, []):
        if p.exit != "unw" or (p.origin or "std") not in ("user", "panic"):
            continue
        minted = 0
        released = 0
        for i, e in enumerate(p.events):
            minted_before = minted
            minted += vget(e["vec"], "inc") + vget(e["vec"], "init")
            if vget(e["vec"], "dec") <= 0 or not isinstance(e.get("bb"), int) or e["bb"] >= len(b["blocks"]):
                continue
            released += vget(e["vec"], "dec")
            tt = b["blocks"][e["bb"]]["term"]
            mine = False
            if tt["k"] == "drop":
                mine = "deref" in tt["place"]["p"] and (bool(_c03.root_args(Bb, tt["place"]["l"]) & mparams) or tt["place"]["l"] in mparams)
                if not mine and released > minted_before + vget(e["vec"], "inc") + vget(e["vec"], "init"):
                    # a handle the function rebuilt from the lent one (`let _ = Arc::from_raw(&*x)`): it releases a reference this
                    # function never minted - the lent handle's own
                    mine = True
            elif tt["k"] == "call":
                for a in tt["args"]:
                    pl = operand_place(a)
                    if pl is not None and (pl["l"] in mparams or _c03.root_args(Bb, pl["l"]) & mparams):
                        mine = True
                d = e["detail"] if isinstance(e["detail"], dict) else {}
                ck = d.get("callee")
                if mine and d.get("outcome") == "unw" and ck in F.bodies:
                    mine = _releases_param_on_unwind(F, A, ck, seen)
            else:
                mine = True
            if mine and not any(vget(x["vec"], "retgt") > 0 or x["kind"] == "RETARGET" for x in p.events[i:]):
                return True
    return False


def rule_release_retarget(ctx, rep, rule="R-RELEASE-RETARGET"):
    """A function that, through a `&mut Handle` parameter, first gives up the handle's reference and then stores a new pointer into
    it (a hand-written `clone_from`, `replace`, ...) must store the new pointer on the unwinding exits too: the release runs a
    payload destructor, and if that panics before the store the caller keeps a handle to a block it no longer owns (released a
    second time when the handle is dropped). The built-in assignment `*this = new` stores on both exits."""
    n = 0
    for tag, F, E in ctx.each():
        A = analysis(tag, F, E)
        for b in F.body_list:
            if b["kind"] not in ("Fn", "AssocFn") or b["key"] in A.errors:
                continue
            if not any(F.ty(t)["k"] == "ref" and F.ty(t)["mut"] and F.tokens(F.ty(t)["t"])[0] > 0 for t in b.get("inputs", [])):
                continue
            key = b["key"]
            mparams = {i + 1 for i, t in enumerate(b.get("inputs", [])) if F.ty(t)["k"] == "ref" and F.ty(t)["mut"] and F.tokens(F.ty(t)["t"])[0] > 0}
            Bb = cfg.Body(b)

            def of_param(e):
                """The releasing event acts on the handle behind the `&mut` parameter (not on some other handle the function
                owns, such as a freshly built one it drops when a clone panics)."""
                from .props import c03 as _c03

                if not isinstance(e.get("bb"), int) or e["bb"] >= len(b["blocks"]):
                    return True
                tt = b["blocks"][e["bb"]]["term"]
                if tt["k"] == "drop":
                    if "deref" not in tt["place"]["p"]:
                        return False  # a value the function owns itself
                    return bool(_c03.root_args(Bb, tt["place"]["l"]) & mparams) or tt["place"]["l"] in mparams
                if tt["k"] == "call":
                    hit = False
                    for a in tt["args"]:
                        pl = operand_place(a)
                        if pl is not None and (pl["l"] in mparams or _c03.root_args(Bb, pl["l"]) & mparams):
                            hit = True
                    if not hit:
                        return False
                    # a local callee working on the lent handle: the release counts only if the callee itself, on an unwinding
                    # path of its own, releases the handle behind *its* `&mut` parameter without storing (a callee that merely
                    # cleans up a fresh block it built - `let fresh = Arc::new(..); assert!(..); *this = fresh` - does not)
                    d = e["detail"] if isinstance(e["detail"], dict) else {}
                    ck = d.get("callee")
                    if d.get("outcome") == "unw" and ck in F.bodies and ck != key:
                        return _releases_param_on_unwind(F, A, ck, set())
                    return True
                return True

            # normal paths on which a release (dec) is followed by a retargeting store
            shape = False
            for p in A.paths.get(key, []):
                if p.exit != "ret":
                    continue
                i_dec = next((i for i, e in enumerate(p.events) if vget(e["vec"], "dec") > 0 and of_param(e)), None)
                if i_dec is not None and any(vget(e["vec"], "retgt") > 0 or e["kind"] == "RETARGET" for e in p.events[i_dec:]):
                    shape = True
                    break
            if not shape:
                continue
            n += 1
            bad = None
            for p in A.paths.get(key, []):
                if p.exit != "unw" or (p.origin or "std") not in ("user", "panic"):
                    continue
                i_dec = next((i for i, e in enumerate(p.events) if vget(e["vec"], "dec") > 0 and of_param(e)), None)
                if i_dec is None:
                    continue
                if not any(vget(e["vec"], "retgt") > 0 or e["kind"] == "RETARGET" for e in p.events[i_dec:]):
                    bad = p
                    break
            if bad is not None:
                rep.bad(rule, key, path_report(F, b, bad, "the handle behind the `&mut` parameter gives up its reference and the release can unwind (a payload destructor panics) before the new pointer is stored: the caller is left with a handle to a block it no longer owns"), F.loc(b), tag)
            else:
                rep.ok(rule, key, cfg=tag)
    return n


def rule_writeback(ctx, rep, rule="R-WRITEBACK"):
    """A function that reads a handle out of its `&mut` parameter (bitwise copy) and lets a callee work on the copy must, on every exit
    that follows a re-pointing of that copy - unwinding included - write the copy back; otherwise the caller's handle keeps pointing at a
    block whose count the callee has already given back."""
    n = 0
    for tag, F, E in ctx.each():
        A = analysis(tag, F, E)
        for b in F.body_list:
            if b["kind"] not in ("Fn", "AssocFn") or b["key"] in A.errors:
                continue
            lent = [F.handle_name(F.ty(t)["t"]) for t in b.get("inputs", []) if F.ty(t)["k"] == "ref" and F.ty(t)["mut"] and F.tokens(F.ty(t)["t"])[0] > 0]
            if not lent:
                continue
            key = b["key"]
            seen_site = False
            bad = None

            def _dup(e):
                # the bitwise duplicate of the lent handle: read out of the place, or rebuilt field by field as a literal of the same type
                d = e["detail"] if isinstance(e["detail"], dict) else {}
                if e["kind"] != "MAKE":
                    return False
                via = str(d.get("via", ""))
                return via.endswith("ptr::read") or (via == "aggregate" and d.get("handle") in lent)

            for p in A.paths[key]:
                if p.exit not in ("ret", "unw"):
                    continue
                ev = p.events
                i_read = next((i for i, e in enumerate(ev) if _dup(e)), None)
                if i_read is None:
                    continue
                seen_site = True
                i_rt = next((i for i, e in enumerate(ev) if i > i_read and vget(e["vec"], "retgt") > 0 and e["kind"] in ("CALL", "HO")), None)
                if i_rt is None:
                    continue
                wrote = False
                for e in ev[i_rt + 1 :]:
                    d = e["detail"] if isinstance(e["detail"], dict) else {}
                    if e["kind"] == "HIDE" and "write" in str(d.get("via", "")):
                        wrote = True
                    if e["kind"] == "RETARGET" and d.get("whole"):
                        wrote = True
                    if e["kind"] == "DROP" and guard_writes_back(F, A, d.get("adt")):
                        wrote = True
                if not wrote and bad is None:
                    bad = p
            if not seen_site:
                continue
            n += 1
            if bad is not None:
                rep.bad(rule, key, path_report(F, b, bad, "the handle was read out of `&mut self`, a callee re-pointed the copy (it released the old block and now owns a new one), and this %s exit leaves without writing the copy back: the caller's handle still points at the released block (use-after-free) and the new block leaks" % ("unwinding" if bad.exit == "unw" else "normal")), F.loc(b), tag)
            else:
                rep.ok(rule, key, cfg=tag)
    return n


def _count_reader(F, A, key):
    """A local function that does nothing but load the count word and hand the value back (`Arc::count`, `strong_count`)."""
    prs = [p for p in A.paths.get(key, []) if p.exit == "ret"]
    if not prs:
        return False
    for p in prs:
        kinds = [e["kind"] for e in p.events if e["kind"] not in ("STD", "BRANCH")]
        if "LOAD" not in kinds:
            if not any(e["kind"] == "CALL" and isinstance(e["detail"], dict) and e["detail"].get("callee") != key and _count_reader(F, A, e["detail"].get("callee")) for e in p.events):
                return False
        if any(x for x in p.vec):
            return False
    return True


def rule_racy_assert(ctx, rep, rule="R-RACY-ASSERT", scope=None, strict=False):
    """An assertion about a *second* reading of the count word. The only thing the holder of a handle knows about the count while
    other threads clone and drop is `count >= 1`. A library assertion (debug or not) that compares a fresh load of the count
    with a constant and can fail for some value >= 1 is therefore reachable in a racing schedule - it is not an
    "internal invariant" - and its unwinding exit is judged like a panic a caller can provoke: no handle may be leaked or
    released twice on it (`debug_assert!(Arc::count(&this) > 1)` after a failed uniqueness test, with `this` disarmed)."""
    n = 0
    for tag, F, E in ctx.each():
        A = analysis(tag, F, E)
        only = scope(F) if scope else None
        uniq = F.handle_paths.get("UniqueArc")
        for b in F.body_list:
            if strict:
                # the strict form (C03, C08, C09: "succeeds if and only if", "gives mutable access", "the very same handle comes
                # back"): such an assertion anywhere in safe code of the crate - private helpers included - is a panic the
                # property does not allow, whether or not anything leaks. Not judged: `unsafe fn`s (the count is their caller's
                # promise) and code working on a UniqueArc (sole owner by type: nobody else can move the count)
                if b["kind"] not in ("Fn", "AssocFn") or b.get("unsafe") or b["key"] in A.errors or (uniq and any(F.mentions_adt(t, uniq) for t in b.get("inputs", []))):
                    continue
            elif not is_api(F, b) or b["key"] in A.errors or (only is not None and b["key"] not in only):
                continue
            key = b["key"]
            cls, exp = sig_class(F, b)
            base = exp if cls == "DROP-IMPL" else 0
            B = None
            done = set()
            for p in A.paths[key]:
                if p.exit != "unw" or (p.origin or "std") not in (("debug-assert", "maypanic", "panic") if strict else ("debug-assert", "maypanic")):
                    continue
                ev = p.events
                ip = next((i for i, e in enumerate(ev) if e["kind"] in ("PANIC", "ASSERT-FAIL")), None)
                if ip is None:
                    continue
                br = next((e for e in reversed(ev[:ip]) if e["kind"] == "BRANCH"), None)
                if br is None or not isinstance(br["detail"], dict):
                    continue
                if B is None:
                    B = cfg.Body(b)
                t = b["blocks"][br["bb"]]["term"]
                if t["k"] != "switch":
                    continue
                c = B.condition(t["discr"])
                if not c or "op" not in c:
                    continue
                ka, kb = B.const_value(c["a"]), B.const_value(c["b"])
                if ka is None and kb is None and strict:
                    # two readings of the count compared with each other (`assert!(Arc::count(self) >= pinned)`): between the two
                    # loads another owner may clone or drop, so no order between them is an invariant
                    from . import atomics as _at, model as _md

                    def _is_reading(op_):
                        o_ = B.origin(op_)
                        if o_.get("kind") != "call":
                            return False
                        r_ = o_["term"].get("resolved")
                        ck_ = r_["def"] if isinstance(r_, dict) else o_["term"].get("callee")
                        return (_at.atomic_class(o_["term"]) == _md.ATOMIC_LOAD and _at.receiver_is_count(F, B, o_["term"])) or _count_reader(F, A, ck_)

                    if _is_reading(c["a"]) and _is_reading(c["b"]) and B.origin(c["a"]).get("bb") != B.origin(c["b"]).get("bb"):
                        ik = "%s/assert-on-count:bb%d" % (key, br["bb"])
                        if ik not in done:
                            done.add(ik)
                            n += 1
                            rep.bad(rule, ik, path_report(F, b, p, "this assertion compares two separate readings of the count word with each other: another owner's clone or drop between the two loads falsifies any order between them, so the operation panics in a schedule in which the property says it succeeds"), F.loc(b, t["span"]), tag)
                    continue
                if (ka is None) == (kb is None):
                    continue
                var, k = (c["a"], kb) if ka is None else (c["b"], ka)
                o = B.origin(var)
                if o.get("kind") != "call":
                    continue
                r = o["term"].get("resolved")
                callee = r["def"] if isinstance(r, dict) else o["term"].get("callee")
                from . import atomics, model

                direct = atomics.atomic_class(o["term"]) == model.ATOMIC_LOAD and atomics.receiver_is_count(F, B, o["term"])
                if not direct and not _count_reader(F, A, callee):
                    continue
                truth = B.switch_truth(t)
                tv = truth.get(br["detail"].get("to"))
                if tv is None:
                    continue
                cond = tv != c["neg"]  # truth of `a <op> b` on the panicking side
                op = c["op"] if ka is None else {"Lt": "Gt", "Le": "Ge", "Gt": "Lt", "Ge": "Le"}.get(c["op"], c["op"])  # normalised to `count <op> k`
                sat = {"Eq": lambda n_: n_ == k, "Ne": lambda n_: n_ != k, "Lt": lambda n_: n_ < k, "Le": lambda n_: n_ <= k, "Gt": lambda n_: n_ > k, "Ge": lambda n_: n_ >= k}[op]
                imax = (1 << (F.pointer_bits - 1)) - 1  # (the count never passes isize::MAX: C16)
                witness = next((n_ for n_ in (1, 2, k - 1, k, k + 1) if 1 <= n_ <= imax and sat(n_) == cond), None)
                ik = "%s/assert-on-count:bb%d" % (key, br["bb"])
                if ik in done:
                    continue
                n += 1
                if witness is None:
                    done.add(ik)
                    rep.ok(rule, ik, cfg=tag)
                    continue
                i = imbalance(p.vec) - base
                open_init = max(vget(p.vec, "init") - vget(p.vec, "make_agg"), 0)
                i -= min(max(i, 0), open_init)
                if strict and i == 0:
                    done.add(ik)
                    rep.bad(rule, ik, path_report(F, b, p, "this assertion re-reads the count word and fails when it reads %d - which another thread's clone or drop can make it read while this thread holds its handle (all a holder knows is count >= 1): the operation panics in a schedule in which the property says it succeeds or declines" % witness), F.loc(b, t["span"]), tag)
                elif i != 0:
                    done.add(ik)
                    rep.bad(rule, ik, path_report(F, b, p, "this assertion re-reads the count word and fails when it reads %d - which another thread's clone or drop can make it read while this thread holds its handle (all a holder knows is count >= 1) - and on that unwinding exit %s" % (witness, "a live handle is leaked (parked in ManuallyDrop / forgotten, never released)" if i > 0 else "an owner is released twice")), F.loc(b, t["span"]), tag)
        rep.ok(rule, "assertions on a re-read count(positive control: rule ran)", cfg=tag)
    return n


SHARED_TO_NONNULL = "<core::ptr::non_null::NonNull<T> as core::convert::From<&T>>::from"
PTR_PASS = ("<core::ptr::non_null::NonNull<T>>::new_unchecked", "<core::ptr::non_null::NonNull<T>>::cast", "<core::ptr::non_null::NonNull<T>>::as_ptr", "<*mut T>::cast", "<*const T>::cast", "<*const T>::cast_mut", "<*mut T>::cast_const",
            "<core::ptr::non_null::NonNull<T>>::new", "<core::option::Option<T>>::unwrap", "<core::option::Option<T>>::unwrap_unchecked", "<core::option::Option<T>>::expect")


def _shared_root(F, B, op, depth=0):
    """Does the pointer operand derive - through moves, casts and the pointer-to-pointer conversions - from a shared borrow of a
    whole allocation block (`&ArcInner<T>`, e.g. the result of `Box::leak` bound as `&T`, `&*boxed`)? Returns the span or None."""
    if depth > 16:
        return None
    pl = operand_place(op)
    if pl is None or pl["p"]:
        return None
    for d in B.defs().get(pl["l"], []):
        if d[0] == "call":
            t = d[2]
            r = t.get("resolved")
            path = r["def"] if isinstance(r, dict) else (t.get("callee") or "")
            if path == SHARED_TO_NONNULL and t["args"]:
                aty = F.ty(t["arg_tys"][0]) if t.get("arg_tys") else None
                if aty and aty["k"] == "ref" and F.ty(aty["t"]).get("path") == F.inner_path:
                    return t["span"]
            if path in PTR_PASS and t["args"]:
                x = _shared_root(F, B, t["args"][0], depth + 1)
                if x:
                    return x
        else:
            rv = d[3]
            if rv["k"] in ("use", "cast"):
                x = _shared_root(F, B, rv["op"], depth + 1)
                if x:
                    return x
            elif rv["k"] == "rawptr" and not rv.get("mut") and rv["place"]["p"] == ["deref"]:
                x = _shared_root(F, B, {"cp": {"l": rv["place"]["l"], "p": []}}, depth + 1)
                if x:
                    return x
            elif rv["k"] == "ref" and not rv["mut"]:
                ty = rv["place"].get("ty")
                if ty is not None and F.ty(ty).get("path") == F.inner_path and rv["place"]["p"][-1:] == ["deref"]:
                    # `&*p` re-borrowing a block as shared: where does p come from - a fresh Box / a `&mut`? then write access was given up here
                    src = B.origin_local(rv["place"]["l"])
                    if src.get("kind") == "call":
                        r2 = src["term"].get("resolved")
                        p2 = r2["def"] if isinstance(r2, dict) else (src["term"].get("callee") or "")
                        if p2 in ("<alloc::boxed::Box<T, A>>::leak", "<alloc::boxed::Box<T, alloc::alloc::Global>>::new", "<alloc::boxed::Box<T, A>>::into_raw", "<alloc::boxed::Box<T, alloc::alloc::Global>>::into_raw"):
                            return d[3].get("span") or src["term"]["span"]
    return None


def rule_write_provenance(ctx, rep, rule="R-PROVENANCE"):
    """The pointer a constructor stores in a new owning handle is the one every later owner-only operation writes through (the count,
    `get_mut`, `DerefMut` of a UniqueArc, the final drop and free). It must not have passed through a shared reference to the block
    (`let inner: &ArcInner<T> = Box::leak(..); NonNull::from(inner)`): such a pointer may only be read through, every write through
    it is undefined behaviour although the value and the count look right. Judged on the def-use chain of the pointer operand of every
    handle literal."""
    n = 0
    for tag, F, E in ctx.each():
        for b in F.body_list:
            B = None
            for bi, bl in enumerate(b["blocks"]):
                for s in bl["stmts"]:
                    if s["k"] != "assign" or s["rv"]["k"] != "agg" or s["rv"].get("agg") != "adt":
                        continue
                    hn = F.path_to_handle.get(s["rv"]["adt"])
                    if hn not in ("Arc", "ThinArc", "OffsetArc", "UniqueArc"):
                        continue
                    if B is None:
                        B = cfg.Body(b)
                    n += 1
                    ik = "%s/%s-literal:bb%d" % (b["key"], hn, bi)
                    sp = None
                    for o in s["rv"]["ops"]:
                        sp = sp or _shared_root(F, B, o)
                    if sp:
                        rep.bad(rule, ik, "the block pointer stored in this new %s was obtained through a shared reference to the block (line %s): it carries no permission to write, so the count updates, get_mut / DerefMut and the final drop through this handle are undefined behaviour (Stacked/Tree Borrows) although value and count look right" % (hn, sp.get("line")), F.loc(b, s["span"]), tag)
                    else:
                        rep.ok(rule, ik, cfg=tag)
    return n


def _mentions_generic_size(F, e, depth=0):
    """The expression contains `size_of::<X>()` / `size_of_val` for an X that mentions a type parameter (so it may be zero)."""
    if not isinstance(e, tuple) or depth > 40:
        return None
    if e and e[0] == "call" and e[2] in ("size_of", "size_of_val") and len(e) > 6:
        for ti in e[6]:
            if F.mentions_param(ti):
                return e
    for x in e:
        if isinstance(x, tuple):
            r = _mentions_generic_size(F, x, depth + 1)
            if r is not None:
                return r
    return None


def rule_zst_div(ctx, rep, rule="R-ZST-DIV"):
    """"For every payload size ... including zero-sized": a division or remainder whose divisor is `size_of::<T>()` of a generic
    payload (a bound such as `len <= isize::MAX / size_of::<T>()`) panics with "attempt to divide by zero" for zero-sized payloads
    unless it sits behind a test that the size is not zero."""
    from . import symx
    from .props import c03 as _c03

    n = 0
    for tag, F, E in ctx.each():
        for b in F.body_list:
            B = None
            for bi, bl in enumerate(b["blocks"]):
                for st in bl["stmts"]:
                    if st["k"] != "assign" or st["rv"]["k"] != "binop" or st["rv"]["op"] not in ("Div", "Rem") or st["span"].get("exp_internal"):
                        continue
                    if B is None:
                        B = cfg.Body(b)
                    d = symx.expr(F, B, st["rv"]["b"])
                    sz = d if (isinstance(d, tuple) and d and d[0] == "call" and d[2] in ("size_of", "size_of_val")) else None
                    if sz is None or _mentions_generic_size(F, sz) is None:
                        continue
                    n += 1
                    ik = "%s/div-by-size:bb%d" % (b["key"], bi)
                    guarded = False
                    for sj, bl2 in enumerate(b["blocks"]):
                        tt = bl2["term"]
                        if tt["k"] != "switch":
                            continue
                        c = B.condition(tt["discr"])
                        if not c or c.get("op") not in ("Eq", "Ne", "Gt", "Lt", "Ge", "Le"):
                            continue
                        x, y = symx.expr(F, B, c["a"]), symx.expr(F, B, c["b"])
                        szx, k = (x, y) if y[0] == "const" else (y, x)
                        if k not in (("const", 0), ("const", 1)) or not (szx[0] == "call" and szx[2] in ("size_of", "size_of_val") and szx[4] == sz[4]):
                            continue
                        for tgt, tv in B.switch_truth(tt).items():
                            if not _c03.reachable_without(B, {(sj, tgt)}, set(), bi):
                                guarded = True  # the division sits behind one edge of a comparison of that size with 0/1
                    if guarded:
                        rep.ok(rule, ik, cfg=tag)
                    else:
                        rep.bad(rule, ik, "`%s` by `size_of::<%s>()` with no test that the size is not zero on the way: for a zero-sized payload this panics (\"attempt to divide by zero\") on a pointer / length that is perfectly valid" % ("division" if st["rv"]["op"] == "Div" else "remainder", ", ".join(sz[4])), F.loc(b, st["span"]), tag)
        rep.ok(rule, "divisions by a generic payload size(positive control: rule ran)", cfg=tag)
    return n


def rule_unique_view(ctx, rep, rule="R-UNIQUE-VIEW"):
    """`UniqueArc<T>` means "sole owner" to every rule that trusts the type (and to `DerefMut` / `into_inner`, which do not look at
    the count). No safe function may therefore lend out the shared handle inside it: a `&Arc<T>` (or an `ArcBorrow`, `&OffsetArc`)
    obtained from a `&UniqueArc<T>` can be cloned by safe code into a second owner while the unique handle keeps writing
    (`impl AsRef<Arc<T>> for UniqueArc<T>`). Judged on signatures: a borrowed UniqueArc in, a view of a shared handle out."""
    n = 0
    for tag, F, E in ctx.each():
        up = F.handle_paths.get("UniqueArc")
        if not up:
            continue
        for b in F.body_list:
            if b["kind"] not in ("Fn", "AssocFn") or b.get("unsafe") or not is_api(F, b) or "output" not in b:
                continue
            borrowed = [t for t in b.get("inputs", []) if F.ty(t)["k"] == "ref" and F.mentions_adt(F.ty(t)["t"], up)]
            if not borrowed:
                continue
            leak = None
            for ti in F.walk(b["output"]):
                tt = F.ty(ti)
                if tt["k"] == "ref" and F.handle_name(tt["t"]) in ("Arc", "OffsetArc", "ThinArc", "ArcUnion"):
                    leak = ti
                elif F.handle_name(ti) == "ArcBorrow":
                    leak = ti
            if leak is None:
                continue
            n += 1
            rep.bad(rule, b["key"], "safe function `%s` lends out %s from a borrowed UniqueArc: safe code can clone that view into a second owning handle while the UniqueArc - whose DerefMut, write and into_inner never look at the count - still acts as the sole owner" % (b["sig"], F.ts(leak)), F.loc(b), tag)
        rep.ok(rule, "no shared view of a UniqueArc", cfg=tag)
    return n


READ_CALLS = ("core::ptr::read", "<*const T>::read", "<*mut T>::read", "<core::ptr::non_null::NonNull<T>>::read", "core::ptr::read_unaligned")


def rule_payload_dup(ctx, rep, rule="R-PAYLOAD-DUP"):
    """A payload value read out of its block bitwise (`ptr::read(&*this)`) exists twice until the handle it was read from has
    been retired without its destructor (parked in ManuallyDrop, taken apart by into_raw, re-typed to MaybeUninit). If anything
    can unwind in between - a caller's closure, a Clone - the unwinding drops the copy *and* the handle's destructor destroys
    the value in the block: destroyed twice. Judged on the recorded unwind paths of every API function: after such a read, no
    drop of an owning handle that runs user code (the payload's destructor)."""
    from . import ptrclass, symx

    n = 0
    for tag, F, E in ctx.each():
        A = analysis(tag, F, E)
        N = ptrclass.Norm(F)
        for b in F.body_list:
            if not is_api(F, b) or b["key"] in A.errors:
                continue
            B = None
            reads = []
            for bi, bl in enumerate(b["blocks"]):
                t = bl["term"]
                if t["k"] != "call" or not t["args"]:
                    continue
                r = t.get("resolved")
                path = r["def"] if isinstance(r, dict) else (t.get("callee") or "")
                if path not in READ_CALLS:
                    continue
                if B is None:
                    B = cfg.Body(b)
                nf = N.norm(symx.expr(F, B, t["args"][0]), {})
                x = nf[1] if nf[0] == "data" else None
                while x is not None and x[0] == "stored":
                    x = x[1]
                if x is not None and x[0] == "arg" and F.tokens(b["inputs"][x[1] - 1])[0] > 0:
                    reads.append((bi, t, x[1]))
            for bi, t, argi in reads:
                n += 1
                ik = "%s/read-of-payload:arg%d" % (b["key"], argi)
                bad = None
                for p in A.paths.get(b["key"], []):
                    if p.exit != "unw" or bi not in p.blocks:
                        continue
                    blocks = list(p.blocks)
                    i0 = blocks.index(bi)
                    after = set(blocks[i0 + 1 :])
                    for e in p.events:
                        if e["kind"] == "DROP" and e["bb"] in after and vget(e["vec"], "own") < 0 and vget(e["vec"], "user") > 0:
                            d = e["detail"] if isinstance(e["detail"], dict) else {}
                            ti = d.get("ty_idx")
                            if ti is not None and _payload_is_uninit(F, ti):
                                continue  # a handle re-typed to `MaybeUninit<_>`: its destructor frees the block and destroys nothing
                            bad = (p, e)
                            break
                    if bad:
                        break
                if bad:
                    p, e = bad
                    rep.bad(rule, ik, path_report(F, b, p, "the payload is read out of the block bitwise (line %s) while the handle it belongs to is still armed: on this unwinding path the handle's destructor (line %s) destroys the value in the block although the copy that was read out is destroyed too - the same value is destroyed twice" % (t["span"]["line"], e["span"]["line"])), F.loc(b, t["span"]), tag)
                else:
                    rep.ok(rule, ik, cfg=tag)
    return n


def rule_payload_gap(ctx, rep, rule="R-PAYLOAD-GAP"):
    """The mirror image of R-PAYLOAD-DUP: a payload destroyed in place (`ptr::drop_in_place(&mut (*p).data)`) through a handle that
    stays armed leaves a hole that the handle's destructor would destroy again. Until the slot is written again nothing may run
    that can fail or unwind - no user code, no return: `drop_in_place(slot); ptr::write(slot, T::deserialize(d)?)` destroys the old
    value twice when the deserialiser reports an error."""
    from . import ptrclass, symx

    n = 0
    for tag, F, E in ctx.each():
        A = analysis(tag, F, E)
        N = ptrclass.Norm(F)
        for b in F.body_list:
            if not is_api(F, b) or b["key"] in A.errors:
                continue
            imp = b.get("impl") or {}
            if imp.get("trait") == DROP_TRAIT:
                continue
            B = None

            def data_of_arg(op):
                nf = N.norm(symx.expr(F, B, op), {})
                x = nf[1] if nf[0] in ("data", "dataplace") else None
                while x is not None and x[0] == "stored":
                    x = x[1]
                return x[1] if x is not None and x[0] == "arg" else None

            for bi, bl in enumerate(b["blocks"]):
                t = bl["term"]
                if t["k"] != "call" or not t["args"]:
                    continue
                r = t.get("resolved")
                path = r["def"] if isinstance(r, dict) else (t.get("callee") or "")
                if path not in ("core::ptr::drop_in_place", "<*mut T>::drop_in_place"):
                    continue
                if B is None:
                    B = cfg.Body(b)
                argi = data_of_arg(t["args"][0])
                if argi is None or F.tokens(F.strip_refs(b["inputs"][argi - 1]))[0] <= 0:
                    continue
                n += 1
                ik = "%s/payload-destroyed-in-place:arg%d" % (b["key"], argi)
                bad = None
                for p in A.paths.get(b["key"], []):
                    blocks = list(p.blocks)
                    if bi not in blocks:
                        continue
                    refilled = False
                    for x in blocks[blocks.index(bi) + 1 :]:
                        tx = b["blocks"][x]["term"]
                        if tx["k"] == "call":
                            rx = tx.get("resolved")
                            px = rx["def"] if isinstance(rx, dict) else (tx.get("callee") or "")
                            if px in ("core::ptr::write", "<*mut T>::write") and tx["args"] and data_of_arg(tx["args"][0]) == argi:
                                refilled = True
                                break
                            if tx.get("resolved") == "unresolved" or tx.get("indirect"):
                                bad = (p, tx, "user code (%s) runs" % (tx.get("callee") or "a callback"))
                                break
                    if bad:
                        break
                    if not refilled:
                        bad = (p, t, "the function is left (%s)" % ("returns" if p.exit == "ret" else "unwinds"))
                        break
                if bad:
                    p, tx, what = bad
                    rep.bad(rule, ik, path_report(F, b, p, "the payload is destroyed in place (line %s) while the handle that owns it stays armed, and %s at line %s before the slot has been written again: the handle's destructor destroys the same value a second time" % (t["span"]["line"], what, tx["span"]["line"])), F.loc(b, t["span"]), tag)
                else:
                    rep.ok(rule, ik, cfg=tag)
    return n


def _payload_is_uninit(F, ty_idx, depth=0):
    """The handle type's payload is `MaybeUninit<_>` (directly, or inside UniqueArc's wrapped Arc)."""
    t = F.ty(ty_idx)
    if t["k"] != "adt" or depth > 3:
        return False
    if t["path"] == "core::mem::maybe_uninit::MaybeUninit":
        return True
    for a in t.get("args", []):
        if "t" in a and _payload_is_uninit(F, a["t"], depth + 1):
            return True
    return False


PARK_CALLS = ("<core::mem::manually_drop::ManuallyDrop<T>>::new",)
UNPARK_CALLS = (
    "core::ptr::read", "<*const T>::read", "<*mut T>::read", "core::ptr::copy_nonoverlapping", "core::ptr::copy", "core::intrinsics::copy_nonoverlapping",
    "<*const T>::copy_to_nonoverlapping", "<*const T>::copy_to", "<*mut T>::copy_from_nonoverlapping", "<*mut T>::copy_from", "<*mut T>::copy_to_nonoverlapping", "<*mut T>::copy_to",
    "<core::mem::manually_drop::ManuallyDrop<T>>::into_inner", "<core::mem::manually_drop::ManuallyDrop<T>>::take", "<core::mem::manually_drop::ManuallyDrop<T>>::drop",
)


def rule_parked(ctx, rep, rule="R-PARKED"):
    """A caller-supplied value (header, element, payload: a type that mentions a type parameter, needs dropping and is not a handle)
    that is parked in `ManuallyDrop` for a bitwise hand-over must be handed over before anything can unwind: between the parking
    and the copy/read/take that re-materialises it there is no call that can panic for a reason a caller can bring about,
    otherwise that value is destroyed zero times."""
    n = 0
    for tag, F, E in ctx.each():
        A = analysis(tag, F, E)
        for b in F.body_list:
            if b["kind"] not in ("Fn", "AssocFn") or b["key"] in A.errors:
                continue
            B = None
            for bi, bl in enumerate(b["blocks"]):
                t = bl["term"]
                if t["k"] != "call":
                    continue
                r = t.get("resolved")
                path = r["def"] if isinstance(r, dict) else (t.get("callee") or "")
                if path not in PARK_CALLS or not t["args"]:
                    continue
                targs = [a["t"] for a in (r["args"] if isinstance(r, dict) else t.get("callee_args") or []) if "t" in a]
                if not targs:
                    continue
                ty = targs[0]
                if F.tokens(ty)[0] or not F.mentions_param(ty):
                    continue  # a handle (the ownership algebra follows those), or nothing caller-supplied
                dl = t["dest"]["l"]
                if not b["locals"][dl].get("needs_drop_inner", True):
                    continue
                n += 1
                if B is None:
                    B = cfg.Body(b)
                ik = "%s/parked:%s" % (b["key"], F.ts(ty))
                # blocks where the parked value is re-materialised
                unpark = set()
                for bj, t2 in B.calls():
                    r2 = t2.get("resolved")
                    p2 = r2["def"] if isinstance(r2, dict) else (t2.get("callee") or "")
                    if p2 in UNPARK_CALLS and any(_rooted_local(B, a, dl) for a in t2["args"]):
                        unpark.add(bj)
                bad = None
                for p in A.paths.get(b["key"], []):
                    if p.exit != "unw" or (p.origin or "std") not in ("user", "panic", "maypanic"):
                        continue
                    blocks = list(p.blocks)
                    if bi not in blocks:
                        continue
                    i0 = blocks.index(bi)
                    started = None
                    for e in p.events:
                        d = e["detail"]
                        if isinstance(d, dict) and d.get("outcome") == "unw":
                            started = e
                    if started is None or started["bb"] not in blocks[i0 + 1 :]:
                        continue
                    i1 = i0 + 1 + blocks[i0 + 1 :].index(started["bb"])
                    if any(x in unpark for x in blocks[i0 + 1 : i1]):
                        continue
                    if _sized_by_existing_input(F, E, b, B, started["bb"]):
                        continue
                    bad = (p, started)
                    break
                if bad:
                    p, e = bad
                    rep.bad(rule, ik, path_report(F, b, p, "a caller-supplied value of type %s is parked in ManuallyDrop (line %s) and the call at line %s can then unwind (%s) before the value has been handed over: nobody destroys it - it is lost" % (F.ts(ty), t["span"]["line"], e["span"]["line"], "user code" if p.origin == "user" else "a panic a caller can provoke, e.g. an overflowing length")), F.loc(b, t["span"]), tag)
                else:
                    rep.ok(rule, ik, cfg=tag)
    n += rule_forgotten(ctx, rep, rule)
    return n


def rule_forgotten(ctx, rep, rule="R-PARKED"):
    """`mem::forget(val)` of a caller-supplied value (a by-value parameter whose type mentions a type parameter, needs dropping and
    is not a handle) is the end of that value unless its bits were handed over first (`ptr::read(&val)`, a copy into a block):
    forgotten without a hand-over anywhere in the function, nobody will ever destroy it - e.g. the value given to a *refused*
    write, taken "out of the unwind path" by forgetting it instead of dropping it."""
    n = 0
    for tag, F, E in ctx.each():
        A = analysis(tag, F, E)
        for b in F.body_list:
            if b["kind"] not in ("Fn", "AssocFn") or b["key"] in A.errors:
                continue
            B = None
            for bi, bl in enumerate(b["blocks"]):
                t = bl["term"]
                if t["k"] != "call" or not t["args"]:
                    continue
                r = t.get("resolved")
                path = r["def"] if isinstance(r, dict) else (t.get("callee") or "")
                if path != "core::mem::forget":
                    continue
                targs = [a["t"] for a in (r["args"] if isinstance(r, dict) else t.get("callee_args") or []) if "t" in a]
                if not targs:
                    continue
                ty = targs[0]
                if F.tokens(ty)[0] or not F.mentions_param(ty) or F.ty(ty)["k"] in ("ref", "ptr"):
                    continue
                if B is None:
                    B = cfg.Body(b)
                o = B.origin(t["args"][0], through_casts=False)
                if o.get("kind") != "arg":
                    continue
                al = o["arg"]
                if not b["locals"][al].get("needs_drop_inner", True):
                    continue
                n += 1
                ik = "%s/forgotten:%s" % (b["key"], F.ts(ty))
                handed = False
                for bj, t2 in B.calls():
                    r2 = t2.get("resolved")
                    p2 = r2["def"] if isinstance(r2, dict) else (t2.get("callee") or "")
                    if p2 in UNPARK_CALLS and any(_rooted_local(B, a, al) for a in t2["args"]):
                        handed = True
                if handed:
                    rep.ok(rule, ik, cfg=tag)
                else:
                    rep.bad(rule, ik, "a caller-supplied value of type %s (parameter _%d) is forgotten (line %s) although its bits were never handed over (no read/copy of it anywhere in the function): it is destroyed zero times, and whatever it owns stays held" % (F.ts(ty), al, t["span"]["line"]), F.loc(b, t["span"]), tag)
    return n


def _sized_by_existing_input(F, E, b, B, bb):
    """The call in block bb is one of the crate's allocation helpers and every length it is given is `len()` of a container the
    caller passed in: its only panic is the layout computation overflowing, which a block sized by the number of elements of an
    object that already exists in memory (plus a header value that also exists) cannot do - not a panic a caller can provoke."""
    from . import atomics, symx
    from .props import c03, c06

    t = b["blocks"][bb]["term"]
    if t["k"] != "call":
        return False
    k = atomics.callee_of(t)
    if k not in F.bodies or not c03._is_alloc_helper(E, k) or not t["args"]:
        return False
    for a in t["args"]:
        e = c06.nobb(symx.expr(F, B, a))
        if e[0] == "const":
            continue
        if not (e[0] == "call" and e[2] == "len" and e[3] and any(c06._rooted_at_arg(e[3][0], i) for i in range(1, len(b["inputs"]) + 1))):
            return False
    return True


def _rooted_local(B, op, l, depth=0):
    """Does the operand derive (moves, borrows, casts, Deref of ManuallyDrop) from local l?"""
    if depth > 12:
        return False
    pl = operand_place(op)
    if pl is None:
        return False
    if pl["l"] == l:
        return True
    for d in B.defs().get(pl["l"], []):
        if d[0] == "call":
            if any(_rooted_local(B, a, l, depth + 1) for a in d[2]["args"]):
                return True
        else:
            rv = d[3]
            if rv["k"] in ("use", "cast") and _rooted_local(B, rv["op"], l, depth + 1):
                return True
            if rv["k"] in ("ref", "rawptr") and (rv["place"]["l"] == l or _rooted_local(B, {"cp": {"l": rv["place"]["l"], "p": []}}, l, depth + 1)):
                return True
    return False


def _is_atomic_ty(F, i):
    t = F.ty(i)
    return t["k"] == "adt" and t["path"].startswith("core::sync::atomic::Atomic")


def _is_block_start(F, N, b, op, src_ty):
    """The pointer operand is the start of a block (typed INNER pointer, or a value pointer minus offset_of_data) and the count is the
    first field of the repr(C) header: re-typing it as a pointer to the atomic addresses the real count word for every payload type."""
    from . import symx

    inner = F.adts.get(F.inner_path or "")
    if not (inner and inner["repr_c"] and F.count_field and F.count_field[0] == 0):
        return False
    if src_ty is not None and src_ty["k"] in ("ptr", "ref") and F.is_adt(src_ty["t"], F.inner_path):
        return True
    try:
        n = N.norm(symx.expr(F, N.B(b["key"]), op), {})
    except Exception:
        return False
    return n[0] == "sub_off"


def rule_count_addr(ctx, rep, rule="R-COUNT-ADDR"):
    """The count word is only ever addressed as the typed `count` field of the block header. Re-typing some pointer as a pointer to
    an atomic (`p.cast::<AtomicUsize>().sub(1)`, "the word in front of the data") reads the count only for payload alignments up
    to the word size; for over-aligned payloads it is padding, so counts, uniqueness verdicts and releases act on a wrong word."""
    from . import atomics, model

    from . import ptrclass

    for tag, F, E in ctx.each():
        bad = []
        N = ptrclass.Norm(F)
        for b in F.body_list:
            for bi, bl in enumerate(b["blocks"]):
                for st in bl["stmts"]:
                    if st["k"] == "assign" and st["rv"]["k"] == "cast":
                        tt = F.ty(st["rv"]["ty"])
                        if tt["k"] in ("ptr", "ref") and _is_atomic_ty(F, tt["t"]):
                            src = operand_place(st["rv"]["op"])
                            st_ty = F.ty(src["ty"]) if src is not None and "ty" in src else None
                            if st_ty is not None and st_ty["k"] in ("ptr", "ref") and _is_atomic_ty(F, st_ty["t"]):
                                continue  # *const Atomic <-> *mut Atomic
                            if _is_block_start(F, N, b, st["rv"]["op"], st_ty):
                                continue
                            bad.append((b, st["span"], "cast to %s" % F.ts(st["rv"]["ty"])))
                t = bl["term"]
                if t["k"] == "call":
                    r = t.get("resolved")
                    path = r["def"] if isinstance(r, dict) else (t.get("callee") or "")
                    args = r["args"] if isinstance(r, dict) else (t.get("callee_args") or [])
                    if path.endswith(">::cast") or "transmute" in path or path.endswith("::cast_mut") and False:
                        tys = [a["t"] for a in args if "t" in a]
                        if tys and _is_atomic_ty(F, tys[-1]) and not (len(tys) > 1 and _is_atomic_ty(F, tys[0])):
                            if t["args"] and _is_block_start(F, N, b, t["args"][0], None):
                                continue
                            bad.append((b, t["span"], "%s to %s" % (path, F.ts(tys[-1]))))
        nsites = 0
        for b, B, bi, t, cls, ordr in atomics.sites(F):
            if cls in (model.ATOMIC_RMW_ADD, model.ATOMIC_RMW_SUB, model.ATOMIC_LOAD, model.ATOMIC_OTHER, model.ATOMIC_CAS):
                nsites += 1
        if bad:
            for b, span, what in bad:
                rep.bad(rule, "%s/%s" % (b["key"], what), "a pointer is re-typed as a pointer to an atomic (%s): the count word must be addressed as the `count` field of the block header, whose offset from the value depends on the payload's alignment; a fixed \"word in front of the data\" is padding for over-aligned payloads" % what, F.loc(b, span), tag)
        else:
            rep.ok(rule, "no pointer re-typed as atomic", "%d atomic access sites, none through a re-typed pointer" % nsites, cfg=tag)


def _last_owner_edges(F, b):
    """Edges (switch block, target) on which the direct decrement in `b` is known to have observed 1; None if there is no such test."""
    out = set()
    any_gate = False
    for bi, t, found, B in dec_gate(F, b):
        if found is None:
            continue
        sj, tt, c, k = found
        if k != 1 or c["op"] not in ("Eq", "Ne"):
            continue
        any_gate = True
        for tgt, tv in B.switch_truth(tt).items():
            cond_true = tv != c["neg"]
            if (cond_true if c["op"] == "Eq" else not cond_true):
                out.add((sj, tgt))
    return out if any_gate else None


def rule_use_after_release(ctx, rep, rule="R-USE-AFTER-RELEASE"):
    """Once a body has given its count back (a direct decrement) and was not the last owner, it must not touch the block again:
    the count no longer covers it, so another owner may already be judged unique (and be writing) or have freed the block.
    Judged on release units (private helpers inlined) and, for decrements outside any tested unit, on the decrementing body."""
    n = 0
    for tag, F, E in ctx.each():
        for b, unit, paths in release_units(F, E):
            key = b["key"]
            n += 1
            bad = None
            sides = gate_sides(F, unit, paths)
            for d in sides:
                if d["problem"] == "no-test":
                    cands = [p for p in paths if d["bb"] in p.blocks and not path_frees(p)]
                elif d["problem"]:
                    continue
                else:
                    cands = d["paths_other"]
                for p in cands:
                    ev = p.events
                    i_dec = next((i for i, e in enumerate(ev) if e["kind"] == "DEC"), None)
                    if i_dec is None:
                        continue
                    for e in ev[i_dec + 1 :]:
                        if e["kind"] in ("DATAREF", "UCLONE", "USER", "LOAD", "INC", "DEC", "PCALL") or (e["kind"] == "CALL" and e["detail"].get("outcome") is None and e["vec"] != ZERO) or (e["kind"] == "CALL" and e["detail"].get("outcome") is None and _touches_block(F, E, e)):
                            if bad is None:
                                bad = (p, e)
                            break
            if bad:
                p, e = bad
                rep.bad(rule, key, path_report(F, unit, p, "after giving its count back (and not being the last owner) the function still uses the block (%s at line %s): the count no longer covers this owner, so another handle can be found unique - and be granted `&mut`, or free the value - while it is still in use" % (e["kind"], e["span"]["line"])), F.loc(unit, e["span"]), tag)
            else:
                rep.ok(rule, key, cfg=tag)
    return n


def _touches_block(F, E, e):
    """A count-neutral local call after the release that still reads the block (payload reference, count load, user code)."""
    ck = e["detail"].get("callee")
    if not ck or F.body(ck) is None:
        return False
    try:
        for q in E.walk(F.body(ck), record=True):
            if any(x["kind"] in ("DATAREF", "UCLONE", "USER", "LOAD", "PCALL") for x in q.events):
                return True
    except Exception:
        return True
    return False


def guard_writes_back(F, A, adt_path):
    """Is `adt_path` a local guard type whose destructor, on every returning path, stores a handle back through a reference
    (ptr::write of a handle, or an assignment into a handle / a handle's pointer field)?"""
    dk = F.drop_impls.get(adt_path)
    if dk is None or F.path_to_handle.get(adt_path) is not None:
        return False
    n = 0
    for p in A.paths.get(dk, []):
        if p.exit != "ret":
            continue
        n += 1
        ok = False
        for e in p.events:
            d = e["detail"] if isinstance(e["detail"], dict) else {}
            if e["kind"] == "HIDE" and "write" in str(d.get("via", "")):
                ok = True
            if e["kind"] == "RETARGET":
                ok = True
        if not ok:
            return False
    return n > 0


def count_sites(F):
    """All atomic call sites: [(body, bb, term, model class)]."""
    from . import model

    out = []
    for b in F.body_list:
        for bi, bl in enumerate(b["blocks"]):
            t = bl["term"]
            if t["k"] != "call":
                continue
            r = t.get("resolved")
            path = r["def"] if isinstance(r, dict) else t.get("callee", "")
            cls, _ = model.classify(path)
            if cls in (model.ATOMIC_NEW, model.ATOMIC_RMW_ADD, model.ATOMIC_RMW_SUB, model.ATOMIC_LOAD, model.ATOMIC_OTHER, model.ATOMIC_CAS, model.FENCE):
                out.append((b, bi, t, cls))
    return out


def free_sites(F, bodies=None):
    """Bodies that directly free an INNER block: drop terminator of Box<INNER<..>>, Box::drop on it, dealloc."""
    from . import model

    out = []
    for b in (F.body_list if bodies is None else bodies):
        for bi, bl in enumerate(b["blocks"]):
            t = bl["term"]
            if t["k"] == "drop":
                ty = F.ty(t["ty"])
                if ty["k"] == "adt" and ty["path"] == "alloc::boxed::Box":
                    x = [a["t"] for a in ty["args"] if "t" in a][0]
                    if F.is_adt(x, F.inner_path):
                        out.append((b, bi, t, "drop Box<INNER>"))
            elif t["k"] == "call":
                r = t.get("resolved")
                path = r["def"] if isinstance(r, dict) else t.get("callee", "")
                cls, _ = model.classify(path)
                if cls == model.DEALLOC:
                    from . import storage

                    if not (t.get("args") and storage.foreign_storage(F, b, t["args"][0])):
                        out.append((b, bi, t, "dealloc"))
                elif cls == model.BOXDROP and isinstance(r, dict):
                    x = [a["t"] for a in r["args"] if "t" in a]
                    if x and F.is_adt(x[0], F.inner_path):
                        out.append((b, bi, t, "Box::drop on INNER"))
                elif cls == model.DROPV and isinstance(r, dict):
                    # `drop(Box::from_raw(block))`
                    x = [a["t"] for a in r["args"] if "t" in a]
                    if x:
                        ty = F.ty(x[0])
                        if ty["k"] == "adt" and ty["path"] == "alloc::boxed::Box":
                            y = [a["t"] for a in ty["args"] if "t" in a]
                            if y and F.is_adt(y[0], F.inner_path):
                                out.append((b, bi, t, "drop(Box<INNER>)"))
    return out


def release_units(F, E):
    """The units in which a release is judged: for every body with a direct decrement of the count word, that body - or the caller
    it reports its verdict to - with private helpers virtually inlined, so that the decrement, the test of its result, the acquire
    and the free are seen together however the drop path is split into functions (`release_ref() -> bool` + `drop_slow()`).
    Returns [(body with the decrement, unit body (synthetic), recorded paths of the unit)]."""
    from . import inline

    cache = F.__dict__.get("_release_units")
    if cache is not None:
        return cache
    out = []
    for b in F.body_list:
        if b["kind"] not in ("Fn", "AssocFn") or not dec_gate(F, b):
            continue
        cand = b
        unit = None
        extra_units = []
        for _ in range(3):
            ib = inline.inlined(F, cand["key"])
            if any(bb is ib or bb["key"] == ib["key"] for (bb, _bi, _t, _w) in free_sites(F, [ib])):
                unit = ib
                break
            callers = [c for c in F.body_list if c["kind"] in ("Fn", "AssocFn") and c["key"] != cand["key"] and any(bl["term"]["k"] == "call" and _callee_key(bl["term"]) == cand["key"] for bl in c["blocks"])]
            # (a call from inside a closure - `self.with_arc(|a| if a.release() { .. })` - belongs to the function that owns the closure)
            for c in F.body_list:
                if c["kind"] == "Closure" and any(bl["term"]["k"] == "call" and _callee_key(bl["term"]) == cand["key"] for bl in c["blocks"]):
                    o, n_ = c.get("owner"), 0
                    while o and (F.body(o) or {}).get("kind") == "Closure" and n_ < 6:
                        o, n_ = (F.body(o) or {}).get("owner"), n_ + 1
                    ob = F.body(o) if o else None
                    if ob is not None and ob["key"] != cand["key"] and all(ob["key"] != x["key"] for x in callers):
                        callers.append(ob)
            if len(callers) > 1 and cand is b:
                # the verdict of a shared `release() -> bool` is acted upon in several places: each of them is a unit of its own
                for c in callers:
                    ib2 = inline.inlined_lending(F, c["key"]) or inline.inlined(F, c["key"])
                    if ib2 is None or not any(bb is ib2 or bb["key"] == ib2["key"] for (bb, _bi, _t, _w) in free_sites(F, [ib2])) or not dec_gate(F, ib2):
                        continue
                    try:
                        ps2 = E.walk(ib2, record=True)
                    except Exception:
                        ps2 = []
                    extra_units.append((dict(b, key="%s in %s" % (b["key"], c["key"])), ib2, ps2))
                break
            if len(callers) != 1:
                break
            cand = callers[0]
        if unit is None:
            unit = inline.inlined(F, b["key"])
        try:
            paths = E.walk(unit, record=True)
        except Exception:
            paths = []
        if extra_units:
            out.extend(extra_units)
        else:
            out.append((b, unit, paths))
    F.__dict__["_release_units"] = out
    return out


def gate_sides(F, unit, paths):
    """For each direct decrement in a release unit: how its result is tested and, per recorded path through it, on which side of the
    test the path continues. Yields dicts {term, found, B, k, op, paths_one, paths_other, problem}; feasibility comes from the path
    enumeration (which follows constant verdicts such as `return false` through the caller's `if`), not from CFG reachability."""
    out = []
    for bi, t, found, B in dec_gate(F, unit):
        d = {"bb": bi, "term": t, "found": found, "B": B, "paths_one": [], "paths_other": [], "problem": None}
        if found is None:
            d["problem"] = "no-test"
            out.append(d)
            continue
        sj, tt, c, k = found
        d["k"], d["op"], d["switch"] = k, c["op"], tt
        if k != 1 or c["op"] not in ("Eq", "Ne"):
            d["problem"] = "not-eq-1"
            out.append(d)
            continue
        truth = B.switch_truth(tt)
        one = set(tgt for tgt, tv in truth.items() if ((tv != c["neg"]) if c["op"] == "Eq" else not (tv != c["neg"])))
        for p in paths:
            blocks = list(p.blocks)
            if bi not in blocks:
                continue
            side = None
            for i in range(len(blocks) - 1):
                if blocks[i] == sj:
                    side = "one" if blocks[i + 1] in one else "other"
                    break
            if side == "one":
                d["paths_one"].append(p)
            elif side == "other":
                d["paths_other"].append(p)
        out.append(d)
    return out


def path_frees(p):
    return vget(p.vec, "free_s1") + vget(p.vec, "free_raw")


def _callee_key(t):
    r = t.get("resolved")
    return r["def"] if isinstance(r, dict) else t.get("callee")


def dec_gate(F, b):
    """In a body with a direct decrement: is every block that reaches a free dominated by the edge `old == 1`?

    Returns list of (ok, message) per decrement site.
    """
    from . import model

    B = cfg.Body(b)
    res = []
    for bi, t in B.calls():
        r = t.get("resolved")
        path = r["def"] if isinstance(r, dict) else ""
        if model.classify(path)[0] != model.ATOMIC_RMW_SUB:
            continue
        dl = t["dest"]["l"] if not t["dest"]["p"] else None
        # find the switch that tests the result
        found = None
        cands = []
        for sj, bl in enumerate(b["blocks"]):
            tt = bl["term"]
            if tt["k"] != "switch":
                continue
            c = B.condition(tt["discr"])
            if c and "call" in c and c["call"] is t and not c["neg"] and [v for v, _tg in tt["arms"]] == [1]:
                # `match count.fetch_sub(1, Release) { 1 => .., _ => .. }`: the switch is on the old value itself
                found = (sj, tt, {"op": "Eq", "neg": False, "a": tt["discr"], "b": tt["discr"]}, 1)
                break
            if not c or "op" not in c:
                continue
            la, lb = operand_local(c["a"]), operand_local(c["b"])
            ca, cb = operand_const(c["a"]), operand_const(c["b"])
            src = None
            k = None
            if la is not None and cb is not None:
                src, k = la, cb.get("int")
            elif lb is not None and ca is not None:
                src, k = lb, ca.get("int")
            if src is None:
                continue
            o = B.origin_local(src)
            if o.get("kind") == "call" and o["term"] is t:
                cands.append((sj, tt, c, k))
        if found is None and cands:
            # several branches may look at the old value (`debug_assert!(old != 0)` next to the real test): the gate is the
            # comparison with 1 if there is one; otherwise the first that is not an assertion (a branch straight into a panic)
            def is_assert(cand):
                for tg in cfg.successors(cand[1], with_unwind=False):
                    tb = b["blocks"][tg]["term"]
                    if tb["k"] == "call" and tb.get("target") is None and model.classify((tb.get("resolved") or {}).get("def", "") if isinstance(tb.get("resolved"), dict) else (tb.get("callee") or ""))[0] == model.PANIC:
                        return True
                return bool((cand[1].get("span") or {}).get("macros"))

            gate1 = [x for x in cands if x[3] == 1 and x[2]["op"] in ("Eq", "Ne")]
            plain = [x for x in cands if not is_assert(x)]
            found = (gate1 or plain or cands)[0]
        res.append((bi, t, found, B))
    return res
