"""CFG / def-use utilities over one MIR body of the fact base."""
from .facts import operand_const, operand_local, operand_place


def successors(term, with_unwind=True):
    k = term["k"]
    out = []
    if k == "goto":
        out.append(term["target"])
    elif k == "switch":
        for _v, b in term["arms"]:
            out.append(b)
        out.append(term["otherwise"])
    elif k in ("drop", "call", "assert"):
        if term.get("target") is not None:
            out.append(term["target"])
        if with_unwind and isinstance(term.get("unwind"), int):
            out.append(term["unwind"])
    return out


class Body:
    def __init__(self, body):
        self.b = body
        self.blocks = body["blocks"]
        self.n = len(self.blocks)
        self._succ = [successors(bl["term"]) for bl in self.blocks]
        self._succ_normal = [successors(bl["term"], with_unwind=False) for bl in self.blocks]
        self._defs = None
        self._dom = None

    # ---------------------------------------------------------------- reachability
    def reach(self, start, normal_only=False, avoid=()):
        succ = self._succ_normal if normal_only else self._succ
        seen = set()
        todo = [start]
        while todo:
            x = todo.pop()
            if x in seen or x in avoid:
                continue
            seen.add(x)
            todo.extend(succ[x])
        return seen

    def dominators(self):
        """dom[b] = set of blocks dominating b (normal + unwind edges), entry = 0."""
        if self._dom is not None:
            return self._dom
        n = self.n
        preds = [[] for _ in range(n)]
        for i, ss in enumerate(self._succ):
            for s in ss:
                preds[s].append(i)
        reach = self.reach(0)
        full = set(reach)
        dom = {b: set(full) for b in reach}
        dom[0] = {0}
        changed = True
        while changed:
            changed = False
            for b in sorted(reach):
                if b == 0:
                    continue
                ps = [p for p in preds[b] if p in reach]
                new = set(full)
                for p in ps:
                    new &= dom[p]
                new.add(b)
                if new != dom[b]:
                    dom[b] = new
                    changed = True
        self._dom = dom
        return dom

    # ---------------------------------------------------------------- def-use
    def defs(self):
        """local -> list of definitions: ('assign', bb, idx, rvalue) | ('call', bb, term) (whole-local only)."""
        if self._defs is not None:
            return self._defs
        d = {}
        for bi, bl in enumerate(self.blocks):
            for si, s in enumerate(bl["stmts"]):
                if s["k"] == "assign" and not s["lhs"]["p"]:
                    d.setdefault(s["lhs"]["l"], []).append(("assign", bi, si, s["rv"]))
            t = bl["term"]
            if t["k"] == "call" and not t["dest"]["p"]:
                d.setdefault(t["dest"]["l"], []).append(("call", bi, t))
        self._defs = d
        return d

    def single_def(self, local):
        ds = self.defs().get(local, [])
        if len(ds) == 1:
            return ds[0]
        return None

    def is_arg(self, local):
        return 1 <= local <= self.b["arg_count"]

    def origin(self, op, through_casts=True, through_refs=False, depth=0):
        """Follow an operand back through moves/copies (and casts) to its defining rvalue/call.

        Returns a dict: {'kind': 'arg'|'const'|'call'|'rvalue'|'place'|'unknown', ...}.
        """
        if depth > 40:
            return {"kind": "unknown"}
        c = operand_const(op)
        if c is not None:
            return {"kind": "const", "const": c}
        pl = operand_place(op)
        if pl is None:
            return {"kind": "unknown"}
        if pl["p"]:
            return {"kind": "place", "place": pl}
        return self.origin_local(pl["l"], through_casts, through_refs, depth)

    def origin_local(self, l, through_casts=True, through_refs=False, depth=0):
        if depth > 40:
            return {"kind": "unknown"}
        if self.is_arg(l):
            ds = self.defs().get(l, [])
            if not ds:
                return {"kind": "arg", "arg": l}
        d = self.single_def(l)
        if d is None:
            return {"kind": "unknown", "local": l, "ndefs": len(self.defs().get(l, []))}
        if d[0] == "call":
            return {"kind": "call", "bb": d[1], "term": d[2], "local": l}
        rv = d[3]
        if rv["k"] == "use":
            return self.origin(rv["op"], through_casts, through_refs, depth + 1)
        if rv["k"] == "cast" and through_casts:
            o = self.origin(rv["op"], through_casts, through_refs, depth + 1)
            o = dict(o)
            o.setdefault("casts", [])
            o["casts"] = o["casts"] + [rv["cast"]]
            return o
        if rv["k"] in ("ref", "rawptr") and through_refs and not rv["place"]["p"]:
            return self.origin_local(rv["place"]["l"], through_casts, through_refs, depth + 1)
        if rv["k"] in ("ref", "rawptr") and rv["place"]["p"] == ["deref"]:
            # reborrow `&mut *x` / `&raw mut *x`: same pointer
            return self.origin_local(rv["place"]["l"], through_casts, through_refs, depth + 1)
        return {"kind": "rvalue", "rv": rv, "bb": d[1], "idx": d[2], "local": l}

    # ---------------------------------------------------------------- constant folding
    def const_value(self, op, depth=0):
        """Integer value of an operand if it is a compile-time constant expression over literals/consts."""
        if depth > 20:
            return None
        c = operand_const(op)
        if c is not None:
            return c.get("int")
        pl = operand_place(op)
        if pl is None:
            return None
        if pl["p"]:
            # field 0 of a checked-arithmetic tuple
            if len(pl["p"]) == 1 and isinstance(pl["p"][0], dict) and pl["p"][0].get("f") == 0 and pl["p"][0].get("adt") == "(tuple)":
                d = self.single_def(pl["l"])
                if d and d[0] == "assign" and d[3]["k"] == "binop" and d[3]["op"].endswith("WithOverflow"):
                    return self._fold(d[3]["op"][: -len("WithOverflow")], d[3]["a"], d[3]["b"], depth)
            return None
        d = self.single_def(pl["l"])
        if d is None or d[0] != "assign":
            return None
        rv = d[3]
        if rv["k"] == "use":
            return self.const_value(rv["op"], depth + 1)
        if rv["k"] == "cast" and rv["cast"].startswith("IntToInt"):
            return self.const_value(rv["op"], depth + 1)
        if rv["k"] == "binop":
            return self._fold(rv["op"].replace("Unchecked", ""), rv["a"], rv["b"], depth)
        if rv["k"] == "unop" and rv["op"] == "Not":
            v = self.const_value(rv["a"], depth + 1)
            if v is None:
                return None
            bits = self.b.get("_pointer_bits", 64)
            return (~v) & ((1 << bits) - 1)
        return None

    def _fold(self, op, a, b, depth):
        x = self.const_value(a, depth + 1)
        y = self.const_value(b, depth + 1)
        if x is None or y is None:
            return None
        try:
            return {
                "Add": lambda: x + y, "Sub": lambda: x - y, "Mul": lambda: x * y, "Shl": lambda: x << y, "Shr": lambda: x >> y,
                "BitAnd": lambda: x & y, "BitOr": lambda: x | y, "BitXor": lambda: x ^ y, "Div": lambda: x // y, "Rem": lambda: x % y,
            }[op]()
        except (KeyError, ZeroDivisionError, ValueError):
            return None

    # ---------------------------------------------------------------- conditions
    def condition(self, op, depth=0):
        """Decode a bool operand into (op, lhs_operand, rhs_operand, negated) if it is a comparison."""
        if depth > 10:
            return None
        l = operand_local(op)
        if l is None:
            return None
        d = self.single_def(l)
        if d is None:
            return None
        if d[0] == "call":
            return {"call": d[2], "neg": False}
        rv = d[3]
        if rv["k"] == "use":
            return self.condition(rv["op"], depth + 1)
        if rv["k"] == "unop" and rv["op"] == "Not":
            c = self.condition(rv["a"], depth + 1)
            if c is None:
                return None
            c = dict(c)
            c["neg"] = not c["neg"]
            return c
        if rv["k"] == "binop" and rv["op"] in ("Eq", "Ne", "Lt", "Le", "Gt", "Ge"):
            return {"op": rv["op"], "a": rv["a"], "b": rv["b"], "neg": False}
        return None

    def switch_truth(self, term):
        """For a switch on a bool: {target_bb: truth value of the discriminant}."""
        out = {}
        for v, b in term["arms"]:
            out[b] = bool(v)
        if len(term["arms"]) == 1:
            out.setdefault(term["otherwise"], not bool(term["arms"][0][0]))
        return out

    def calls(self):
        for bi, bl in enumerate(self.blocks):
            if bl["term"]["k"] == "call":
                yield bi, bl["term"]


def callee_key(t):
    """Resolved callee identity of a call terminator: (key, is_local_body_candidate)."""
    r = t.get("resolved")
    if isinstance(r, dict):
        return r["def"]
    return t.get("callee")


def call_graph(F):
    """Local call graph: body key -> set of local body keys it may call (closures passed as generic args included)."""
    g = {}
    for b in F.body_list:
        out = set()
        for bl in b["blocks"]:
            t = bl["term"]
            if t["k"] != "call":
                continue
            r = t.get("resolved")
            if isinstance(r, dict):
                if r["def"] in F.bodies:
                    out.add(r["def"])
                via = r.get("via_from")
                if via and via["def"] in F.bodies:
                    out.add(via["def"])
                args = r["args"]
            else:
                args = t.get("callee_args") or []
                if t.get("callee") in F.bodies and r != "unresolved":
                    out.add(t["callee"])
            for a in args:
                if "t" in a:
                    for x in F.walk(a["t"]):
                        tt = F.ty(x)
                        if tt["k"] in ("closure", "fndef") and tt["def"] in F.bodies:
                            out.add(tt["def"])
            # closures / fn items passed as plain arguments
            for at in t.get("arg_tys", []):
                for x in F.walk(at):
                    tt = F.ty(x)
                    if tt["k"] in ("closure", "fndef") and tt["def"] in F.bodies:
                        out.add(tt["def"])
        g[b["key"]] = out
    return g


def reachable_from(g, roots):
    seen = set()
    todo = list(roots)
    while todo:
        x = todo.pop()
        if x in seen:
            continue
        seen.add(x)
        todo.extend(g.get(x, ()))
    return seen
