"""Impl selection by unification (most specific local impl of a trait for a type) - shared by C14's footprints and by the
resolution of function items (`Arc::clone` passed as a callback is `<Arc<T> as Clone>::clone`)."""


def resolve(F, t):
    idx, env = t
    node = F.ty(idx)
    seen = 0
    while node["k"] == "param" and env and node["name"] in env and seen < 20:
        idx, env = env[node["name"]]
        node = F.ty(idx)
        seen += 1
    return idx, env


def unify(F, p_idx, t, bind):
    pn = F.ty(p_idx)
    if pn["k"] == "param":
        bind.setdefault(pn["name"], t)
        return True
    idx, env = resolve(F, t)
    tn = F.ty(idx)
    if tn["k"] != pn["k"]:
        return False
    k = pn["k"]
    if k == "adt":
        if pn["path"] != tn["path"]:
            return False
        pa = [a["t"] for a in pn["args"] if "t" in a]
        ta = [a["t"] for a in tn["args"] if "t" in a]
        if len(pa) != len(ta):
            return False
        return all(unify(F, x, (y, env), bind) for x, y in zip(pa, ta))
    if k in ("ref", "ptr", "slice", "array"):
        return unify(F, pn["t"], (tn["t"], env), bind)
    if k == "tuple":
        return len(pn["ts"]) == len(tn["ts"]) and all(unify(F, x, (y, env), bind) for x, y in zip(pn["ts"], tn["ts"]))
    return pn["s"] == tn["s"]


def specificity(F, p_idx):
    return sum(1 for x in F.walk(p_idx) if F.ty(x)["k"] != "param")


def find_impl(F, trait, t):
    best = None
    for im in F.impls:
        if im.get("trait") != trait:
            continue
        bind = {}
        if unify(F, im["self_ty"], t, bind):
            sp = specificity(F, im["self_ty"])
            if best is None or sp > best[0]:
                best = (sp, im, bind)
    return best


def fn_item(F, ty_idx):
    """For a function-item type: (key of the local body it denotes, generic map name -> {'t': idx}) or (None, {}).
    Trait methods named through the trait (`Clone::clone` with Self = Arc<T>) are resolved to the local impl's method."""
    cache = F.__dict__.setdefault("_fn_item_cache", {})
    if ty_idx in cache:
        return cache[ty_idx]
    t = F.ty(ty_idx)
    out = (None, {})
    if t["k"] == "fndef":
        d = t["def"]
        if d in F.bodies:
            names = [g["name"] for g in F.body(d)["generics"]]
            out = (d, {n: a for n, a in zip(names, t.get("args") or [])})
        elif "::" in d and t.get("args") and "t" in t["args"][0]:
            trait, method = d.rsplit("::", 1)
            best = find_impl(F, trait, (t["args"][0]["t"], {}))
            if best is not None:
                _sp, im, bind = best
                key = next((it["key"] for it in im["items"] if it["name"] == method and it["key"] in F.bodies), None)
                if key is not None:
                    gm = {}
                    ok = True
                    for n, (idx, env) in bind.items():
                        if env:
                            ok = False
                        gm[n] = {"t": idx}
                    if ok:
                        out = (key, gm)
    cache[ty_idx] = out
    return out
