"""Regenerates /verif/MANIFEST.json from the table below (keeps it valid at all times)."""
import json
import os

VERIF = os.path.dirname(os.path.dirname(os.path.abspath(__file__)))

CHECKS = {}
NOT_APPLICABLE = {}


def check(pid, category, text, note, technique, design_ref):
    CHECKS[pid] = dict(
        property_id=pid,
        quick_cmd="./check %s --tier quick" % pid,
        thorough_cmd="./check %s --tier thorough" % pid,
        evidence_file="/verif/evidence/%s.json" % pid,
        replay_cmd_template="./check %s --explain {path}" % pid,
        engine="E-A" if pid != "C13" else "E-A+E-B",
        level_claimed=dict(category=category, text=text, design_ref=design_ref),
        level_note=note,
        technique=technique,
    )


TB = "Trusted base: rustc nightly's MIR construction, drop elaboration, type checking and trait resolution; the std model table in analysis/model.py; user callbacks are ownership-balanced; unsafe callers honour from_raw-style contracts."

check("C01", "other",
      "Exhaustive static path analysis of every API body (MIR, all feature configurations): count word and owning handle values move in lock-step on every normal and unwind path; frees only after a decrement that observed 1 or by the typed sole owner, and every exit of that last release (unwinding from a payload destructor included) has freed exactly once; one increment/decrement funnel; conversions count-neutral. Decides preservation of count = owners by every operation, hence by every history. Does not decide what reads through a handle observe.",
      TB, "MIR ownership/count balance analysis (path enumeration + callee summaries)", "DESIGN.md 3, 4/C01")

ALL = ["C%02d" % i for i in range(1, 18)]


def main():
    try:
        from .manifest_table import register
        register(check, NOT_APPLICABLE)
    except ImportError:
        pass
    na = [dict(property_id=p, reason=NOT_APPLICABLE.get(p, "check under construction (DESIGN.md section 10 build order); not claimed until its rule set runs on every invocation")) for p in ALL if p not in CHECKS]
    m = {
        "version": 1,
        "setup_cmd": "./setup.sh",
        "hooks": {
            "guard": "triomphe_verif",
            "enable": "none needed: static analysis reads /repo's working tree as it is; no hook code exists in /repo",
            "baseline_off_cmd": "cd /repo && cargo test --workspace --no-fail-fast --offline",
            "source_commits": [],
            "add_only": True,
        },
        "engines": [
            {"name": "E-A", "path": "/verif/driver + /verif/analysis", "serves_properties": sorted(CHECKS), "kind_free_text": "rustc_private driver dumping type-checked MIR facts per feature configuration; Python rule evaluator (path enumeration, ownership/count event algebra, def-use, dominance, call graph)"},
            {"name": "E-B", "path": "/verif/witnesses + /verif/analysis/witness.py", "serves_properties": [p for p in ("C13", "C11", "C12") if p in CHECKS], "kind_free_text": "compile-pass / compile-fail witnesses with expected error code and line, each with a compiling twin; rustc is the oracle"},
        ],
        "checks": [CHECKS[p] for p in sorted(CHECKS)],
        "not_applicable": na,
        "notes": "All checks are static: nothing from /repo is executed and no test is run. VERIF_REPO overrides the analysed tree (used by the self-test on scratch copies). known_findings.json lists genuine findings by key.",
    }
    with open(os.path.join(VERIF, "MANIFEST.json"), "w") as f:
        json.dump(m, f, indent=1)
    print("MANIFEST: %d checks, %d not_applicable" % (len(m["checks"]), len(na)))


if __name__ == "__main__":
    main()
